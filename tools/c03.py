"""C03 - barcode correction assigns the unique nearest whitelisted barcode or nothing.

K: whitelists are written as real barcode files (index-first / barcode-first / one column, tab or space,
plain or gz) into scratch barcode directories, loaded by the real BarcodeParser (eager and lazyLoad),
and queried; the answers are compared with the extracted Coq model (Model/C03.v, run_C03 mode 0), the
theorem's boolean specification specb (mode 2) is evaluated on the implementation's answers, and
hamming_circle is compared with the model's circle as a sorted list (mode 3).
"""
import os, itertools, json, ast, hashlib
import fw, py2coq
from py2coq import Untranslatable

SRC = 'singlecellmultiomics/barcodeFileParser/barcodeFileParser.py'


# ------------------------------------------------------------------ T: regenerate coq/Gen/GenBarcode.v
def _norm(node):
    return ast.unparse(node)


def _names(node):
    return set(n.id for n in ast.walk(node) if isinstance(n, ast.Name))


class SeqTranslator(py2coq.ExprTranslator):
    """integer / boolean expressions over ONE python sequence `seq`:  len(seq) -> lenname,
    seq[c] (optionally followed by a fixed projection, e.g. [0]) -> (elt idx) with python's negative
    constant indices made explicit (seq[-c] -> elt (len - c)).  Everything else: the base subset."""
    def __init__(self, seq, lenname, eltname, projection=None, env=None):
        super().__init__(env=env or {})
        self.seq, self.lenname, self.eltname, self.projection = seq, lenname, eltname, projection

    def index(self, n):
        if isinstance(n, ast.Constant) and isinstance(n.value, int) and not isinstance(n.value, bool):
            return '%d' % n.value if n.value >= 0 else '(%s - %d)' % (self.lenname, -n.value)
        if isinstance(n, ast.UnaryOp) and isinstance(n.op, ast.USub) and isinstance(n.operand, ast.Constant) \
                and isinstance(n.operand.value, int):
            return '(%s - %d)' % (self.lenname, n.operand.value)
        self.fail(n, 'index into %s is not an integer literal' % self.seq)

    def z(self, n):
        if ast.unparse(n) in self.env:
            return self.env[ast.unparse(n)]
        if isinstance(n, ast.Call) and isinstance(n.func, ast.Name) and n.func.id == 'len' and len(n.args) == 1 \
                and not n.keywords and _norm(n.args[0]) == self.seq:
            return self.lenname
        if isinstance(n, ast.Subscript):
            inner = n
            if self.projection is not None:
                if not (isinstance(n.slice, ast.Constant) and n.slice.value == self.projection
                        and isinstance(n.value, ast.Subscript)):
                    self.fail(n, 'expected %s[i][%r]' % (self.seq, self.projection))
                inner = n.value
            if _norm(inner.value) != self.seq:
                self.fail(n, 'subscript of something else than %s' % self.seq)
            return '(%s %s)' % (self.eltname, self.index(inner.slice))
        if isinstance(n, ast.Name) and n.id not in self.env:
            self.fail(n, 'free name')
        return super().z(n)


def _chunk(src, node, coqname, params, body, note=None):
    seg = ast.get_source_segment(src, node)
    sha = hashlib.sha256(seg.encode()).hexdigest()
    shown = ' '.join(seg.split()).replace('*)', '* )').replace('(*', '( *')
    if len(shown) > 300:
        shown = shown[:300] + ' ...'
    text = '(* source: %s line %d-%d sha256 %s\n   %s%s *)\nDefinition %s %s :=\n  %s.' % (
        SRC, node.lineno, node.end_lineno, sha, shown, ('\n   ' + note) if note else '', coqname, params, body)
    return text, {'source': SRC, 'lines': [node.lineno, node.end_lineno], 'sha256': sha, 'coq': coqname}


def _codes(sv):
    return '[' + '; '.join(str(ord(c)) for c in sv) + ']'


def _range_bounds(call, tr, what):
    if not (isinstance(call, ast.Call) and isinstance(call.func, ast.Name) and call.func.id == 'range'
            and not call.keywords and len(call.args) in (1, 2)):
        raise Untranslatable('%s: not range(a) / range(a, b): %s' % (what, _norm(call)))
    if len(call.args) == 1:
        return '0', tr.z(call.args[0])
    return tr.z(call.args[0]), tr.z(call.args[1])


def regen_file_reader(src, tree, add):
    """(e) tokenisation / column count / line-number index / int() conversion of parse_barcode_file.
    Every statement of the two loops is matched (fail closed); the character classes of str.strip()/str.split()
    and the digits int() accepts are obtained by reflection on the running interpreter (the one the
    implementation runs under)."""
    pf = py2coq.find_function(tree, 'BarcodeParser.parse_barcode_file')
    withs = [n for n in pf.body if isinstance(n, ast.With)]
    if len(withs) != 2:
        raise Untranslatable('parse_barcode_file: expected two `with` blocks (two passes over the file), found %d' % len(withs))
    opener = "gzip.open(barcodeFile, 'rt') if barcodeFile.endswith('.gz') else open(barcodeFile)"
    loops = []
    for w in withs:
        if not (len(w.items) == 1 and _norm(w.items[0].context_expr) == opener and _norm(w.items[0].optional_vars) == 'f'
                and len(w.body) == 1 and isinstance(w.body[0], ast.For)):
            raise Untranslatable('parse_barcode_file: a pass is not `with <gz or plain text open> as f: for ...`')
        lp = w.body[0]
        if not (_norm(lp.target) in ('(i, line)', 'i, line') and _norm(lp.iter) == 'enumerate(f)' and not lp.orelse):
            raise Untranslatable('parse_barcode_file: loop is not `for i, line in enumerate(f)`')
        loops.append(lp)
    tests, resplit = [], []
    for lp in loops:
        b = lp.body
        if not (len(b) == 3 and _norm(b[0]) == 'parts = line.strip().split()' and isinstance(b[1], ast.If)
                and isinstance(b[2], ast.If)):
            raise Untranslatable('parse_barcode_file: loop body is not  parts = line.strip().split(); if ..; if ..elif ..')
        rs = b[1]
        t = rs.test
        ok = (isinstance(t, ast.BoolOp) and isinstance(t.op, ast.And) and len(t.values) == 2
              and isinstance(t.values[1], ast.Compare) and len(t.values[1].ops) == 1 and isinstance(t.values[1].ops[0], ast.In)
              and isinstance(t.values[1].left, ast.Constant) and isinstance(t.values[1].left.value, str)
              and len(t.values[1].left.value) == 1 and _norm(t.values[1].comparators[0]) == 'line'
              and not rs.orelse and len(rs.body) == 1)
        if ok:
            ch = t.values[1].left.value
            ok = _norm(rs.body[0]) == 'parts = line.strip().split(%r)' % ch
        if not ok:
            raise Untranslatable("parse_barcode_file: not `if len(parts) == 1 and '<c>' in line: parts = line.strip().split('<c>')`")
        resplit.append((t.values[1].left, ch, t.values[0]))
        chain = b[2]
        if not (len(chain.orelse) == 1 and isinstance(chain.orelse[0], ast.If)):
            raise Untranslatable('parse_barcode_file: not an if / elif chain on the number of columns')
        tests.append((chain.test, chain.orelse[0].test, chain, chain.orelse[0]))
    if len(set(_norm(x[0]) for x in tests)) != 1 or len(set(_norm(x[1]) for x in tests)) != 1 \
            or len(set(c for _, c, _ in resplit)) != 1 or len(set(_norm(g) for _, _, g in resplit)) != 1 \
            or _norm(resplit[0][2]) != _norm(tests[0][0]):
        raise Untranslatable('parse_barcode_file: the two passes tokenise / count columns differently')
    for node in (tests[0][0], tests[0][1]):
        if _names(node) - {'len', 'parts'}:
            raise Untranslatable('parse_barcode_file: column test mentions more than len(parts): %s' % _norm(node))
    tr = py2coq.ExprTranslator(env={'len(parts)': 'n'})
    add(_chunk(src, tests[1][0], 'gen_is_single', '(n : Z) : bool', tr.b(tests[1][0]), 'n = len(parts): the one-column branch'))
    add(_chunk(src, tests[1][1], 'gen_is_pair', '(n : Z) : bool', tr.b(tests[1][1]),
               'n = len(parts): the two-column branch (tried after the one-column branch)'))
    add(_chunk(src, resplit[1][0], 'gen_resplit_char', ': Z', str(ord(resplit[1][1])),
               "the character of the `'<c>' in line` / split('<c>') fallback"))
    # pass 1: one column: pass; two columns: indexFirst / indexNotFirst (shape checked in (d)); no else
    c1, c2 = tests[0][2], tests[0][3]
    if not ([_norm(x) for x in c1.body] == ['pass'] and len(c2.body) == 2 and not c2.orelse
            and _norm(c2.body[0]).startswith('indexFirst = ') and isinstance(c2.body[1], ast.If)):
        raise Untranslatable('parse_barcode_file: first pass changed')
    # pass 2
    c1, c2 = tests[1][2], tests[1][3]
    call = c1.body[0].value if c1.body and isinstance(c1.body[0], ast.Expr) else None
    if not (isinstance(call, ast.Call) and _norm(call.func) == 'self.addBarcode' and len(call.args) == 1
            and _norm(call.args[0]) == 'barcodeFileAlias' and [k.arg for k in call.keywords] == ['barcode', 'index']
            and _norm(call.keywords[0].value) == 'parts[0]'):
        raise Untranslatable('parse_barcode_file: one-column branch does not start with addBarcode(alias, barcode=parts[0], index=..)')
    ix = call.keywords[1].value
    if _names(ix) - {'i'}:
        raise Untranslatable('parse_barcode_file: index of a one-column line is not a function of the line number i: %s' % _norm(ix))
    add(_chunk(src, ix, 'gen_lineno_index', '(i : Z) : Z', py2coq.ExprTranslator().z(ix),
               'index given to the barcode of a one-column line; i = 0-based line number'))
    for st in c1.body[1:]:
        if not (isinstance(st, ast.If) and _norm(st.test) == 'not nospec'):
            raise Untranslatable('parse_barcode_file: unexpected statement in the one-column branch: %s' % _norm(st)[:80])
    b2 = c2.body
    if not (len(b2) == 4 and isinstance(b2[0], ast.If) and _norm(b2[0].test) == 'indexNotFirst' and isinstance(b2[1], ast.Try)
            and _norm(b2[2]) == 'self.addBarcode(barcodeFileAlias, barcode=barcode, index=index)'
            and isinstance(b2[3], ast.If) and _norm(b2[3].test) == 'not nospec'):
        raise Untranslatable('parse_barcode_file: two-column branch is not  swap; try int(); addBarcode(alias, barcode, index); log')
    t = b2[1]
    ok = (len(t.body) == 1 and isinstance(t.body[0], ast.If) and _norm(t.body[0].test) == 'int(index) == int(str(int(index)))'
          and [_norm(x) for x in t.body[0].body] == ['index = int(index)'] and [_norm(x) for x in t.body[0].orelse] == ['pass']
          and len(t.handlers) == 1 and (t.handlers[0].type is None or _norm(t.handlers[0].type) in ('Exception', 'BaseException'))
          and [_norm(x) for x in t.handlers[0].body] == ['pass'] and not t.orelse and not t.finalbody)
    if not ok:
        raise Untranslatable('parse_barcode_file: index conversion is not  try: index = int(index) (when int() accepts it)  except Exception: pass')
    if not (len(c2.orelse) >= 1 and isinstance(c2.orelse[-1], ast.Raise) and isinstance(c2.orelse[-1].exc, ast.Call)
            and _norm(c2.orelse[-1].exc.func) == 'ValueError'):
        raise Untranslatable('parse_barcode_file: lines with another number of columns do not raise ValueError')
    # ---- reflection: the classes behind str.strip() / str.split() and int()
    spaces = [c for c in range(0x110000) if chr(c).isspace()]
    every = ''.join(chr(c) for c in range(0x110000) if not (0xD800 <= c <= 0xDFFF))
    split_on = set(every) - set(''.join(every.split()))           # the characters str.split() splits on
    if sorted(ord(ch) for ch in split_on) != spaces or any((chr(c) + 'b' + chr(c)).strip() != 'b' for c in spaces) \
            or any((ch + 'b' + ch).strip() != ch + 'b' + ch for ch in '\x00\x08\x0e\x1b!AaZ09_\x7f\x84\x86\u200b\u2060\ufeff'):
        raise Untranslatable('str.split()/str.strip() do not use the str.isspace class on this interpreter')
    add(_chunk(src, loops[1].body[0].value, 'gen_space_class', ': list Z', '[' + '; '.join(map(str, spaces)) + ']',
               'by reflection: the code points str.strip() removes and str.split() splits on (str.isspace)'))

    val = {}
    for c in range(0x110000):
        try:
            val[c] = int(chr(c))
        except ValueError:
            pass
    zeros = sorted(c for c, v in val.items() if v == 0)
    if sorted(val) != sorted(z + d for z in zeros for d in range(10)) or any(val[z + d] != d for z in zeros for d in range(10)):
        raise Untranslatable('int(): the accepted digits are not blocks of ten consecutive code points valued 0..9')
    add(_chunk(src, t.body[0].test, 'gen_decimal_zeros', ': list Z', '[' + '; '.join(map(str, zeros)) + ']',
               'by reflection: the code points int() reads as digit 0; each starts a block of ten digits 0..9'))


def regen_barcode():
    """Fail-closed reading of the kernel the C03 theorems hinge on.  Every statement of the recognised
    loops is matched; an unrecognised shape raises Untranslatable (the tie is then reported broken)."""
    path = os.path.join(fw.REPO, SRC)
    src = open(path).read()
    tree = ast.parse(src)
    chunks, meta = [], []

    def add(tm):
        chunks.append(tm[0]); meta.append(tm[1])

    # ---------------- (b) hamming_circle
    hc = py2coq.find_function(tree, 'hamming_circle')
    if [a.arg for a in hc.args.args] != ['s', 'n', 'alphabet']:
        raise Untranslatable('hamming_circle: signature changed')
    body = [st for st in hc.body if not (isinstance(st, ast.Expr) and isinstance(st.value, ast.Constant))]
    if len(body) != 1 or not isinstance(body[0], ast.For):
        raise Untranslatable('hamming_circle: body is not one for loop')
    f1 = body[0]
    if _norm(f1.target) != 'positions' or _norm(f1.iter) != 'itertools.combinations(range(len(s)), n)' or f1.orelse:
        raise Untranslatable('hamming_circle: outer loop is not `for positions in itertools.combinations(range(len(s)), n)`')
    if len(f1.body) != 1 or not isinstance(f1.body[0], ast.For):
        raise Untranslatable('hamming_circle: positions loop body changed')
    f2 = f1.body[0]
    it = f2.iter
    if not (_norm(f2.target) == 'replacements' and isinstance(it, ast.Call) and _norm(it.func) == 'itertools.product'
            and len(it.args) == 1 and len(it.keywords) == 1 and it.keywords[0].arg == 'repeat'
            and _norm(it.keywords[0].value) == 'n' and not f2.orelse):
        raise Untranslatable('hamming_circle: not `for replacements in itertools.product(range(..), repeat=n)`')
    tr = py2coq.ExprTranslator(env={'len(alphabet)': 'alen'})
    if _names(it.args[0]) - {'range', 'len', 'alphabet'}:
        raise Untranslatable('hamming_circle: free names in %s' % _norm(it.args[0]))
    lo, hi = _range_bounds(it.args[0], tr, 'hamming_circle replacements')
    add(_chunk(src, it.args[0], 'gen_repl_range', '(alen : Z) : list Z', 'zrange %s %s' % (lo, hi),
               'indices r into the alphabet a position may be replaced by'))
    b2 = f2.body
    if not (len(b2) == 3 and _norm(b2[0]) == 'cousin = list(s)' and isinstance(b2[1], ast.For)
            and _norm(b2[2]) == "yield ''.join(cousin)"):
        raise Untranslatable('hamming_circle: replacements loop body changed')
    f3 = b2[1]
    if not (_norm(f3.target) in ('(p, r)', 'p, r') and _norm(f3.iter) == 'zip(positions, replacements)' and len(f3.body) == 1
            and isinstance(f3.body[0], ast.If) and not f3.orelse):
        raise Untranslatable('hamming_circle: not `for p, r in zip(positions, replacements): if ...`')
    iff = f3.body[0]

    def assigned(stmts):
        if not (len(stmts) == 1 and isinstance(stmts[0], ast.Assign) and len(stmts[0].targets) == 1
                and _norm(stmts[0].targets[0]) == 'cousin[p]'):
            raise Untranslatable('hamming_circle: branch is not a single `cousin[p] = ...`')
        return stmts[0].value
    st = SeqTranslator('alphabet', 'alen', 'aat', env={'cousin[p]': 'cur', 'alphabet[r]': 'ar'})
    add(_chunk(src, iff, 'gen_replace', '(alen : Z) (aat : Z -> Z) (cur ar : Z) : Z',
               'if %s then %s else %s' % (st.b(iff.test), st.z(assigned(iff.body)), st.z(assigned(iff.orelse))),
               'cur = cousin[p], ar = alphabet[r], aat i = alphabet[i]'))

    # ---------------- (a) expand
    ex = py2coq.find_function(tree, 'BarcodeParser.expand')
    body = [st for st in ex.body if not (isinstance(st, ast.Expr) and isinstance(st.value, ast.Constant))]
    if not (len(body) == 4 and _norm(body[0]) == 'barcodes = self.barcodes[alias]'
            and _norm(body[1]) == 'hammingSpace = collections.defaultdict(list)'
            and isinstance(body[2], ast.For) and isinstance(body[3], ast.For)):
        raise Untranslatable('expand: body is not  barcodes=..; hammingSpace=defaultdict(list); for ..; for ..')
    g1 = body[2]
    if not (_norm(g1.target) == 'barcode' and _norm(g1.iter) == 'barcodes' and len(g1.body) == 1
            and isinstance(g1.body[0], ast.For) and not g1.orelse):
        raise Untranslatable('expand: collection loop is not `for barcode in barcodes: for ...`')
    g2 = g1.body[0]
    if _norm(g2.target) != 'hammingDistance' or g2.orelse:
        raise Untranslatable('expand: distance loop variable changed')
    if _names(g2.iter) - {'range', 'hammingDistanceExpansion'}:
        raise Untranslatable('expand: free names in %s' % _norm(g2.iter))
    tr = py2coq.ExprTranslator(env={'hammingDistanceExpansion': 'k'})
    lo, hi = _range_bounds(g2.iter, tr, 'expand distance loop')
    add(_chunk(src, g2.iter, 'gen_dist_range', '(k : Z) : list Z', 'zrange %s %s' % (lo, hi)))
    if not (len(g2.body) == 1 and isinstance(g2.body[0], ast.For)):
        raise Untranslatable('expand: distance loop body changed')
    g3 = g2.body[0]
    call = g3.iter
    if not (_norm(g3.target) == 'hammingInstance' and isinstance(call, ast.Call) and _norm(call.func) == 'hamming_circle'
            and len(call.args) == 3 and not call.keywords and _norm(call.args[0]) == 'barcode'
            and _norm(call.args[1]) == 'hammingDistance' and isinstance(call.args[2], ast.Constant)
            and isinstance(call.args[2].value, str) and not g3.orelse):
        raise Untranslatable('expand: not `for hammingInstance in hamming_circle(barcode, hammingDistance, <literal>)`')
    add(_chunk(src, call.args[2], 'gen_alphabet', ': list Z', _codes(call.args[2].value),
               'the alphabet literal expand passes to hamming_circle'))
    if not (len(g3.body) == 1 and _norm(g3.body[0]) == 'hammingSpace[hammingInstance].append((hammingDistance, barcode))'):
        raise Untranslatable('expand: the collected item is not (hammingDistance, barcode) appended to hammingSpace[hammingInstance]')
    r1 = body[3]
    if not (_norm(r1.target) == 'hammingBarcode' and _norm(r1.iter) == 'hammingSpace' and not r1.orelse and len(r1.body) == 4):
        raise Untranslatable('expand: resolution loop changed')
    srt, tie, pick, addb = r1.body
    if _norm(srt) != 'sortedDistances = sorted(hammingSpace[hammingBarcode])':
        raise Untranslatable('expand: sortedDistances is not sorted(hammingSpace[hammingBarcode])')
    if not (isinstance(tie, ast.If) and not tie.orelse and len(tie.body) == 1 and isinstance(tie.body[0], ast.Continue)):
        raise Untranslatable('expand: tie test is not `if ...: continue`')
    st = SeqTranslator('sortedDistances', 'len', 'dist', projection=0)
    add(_chunk(src, tie.test, 'gen_tie', '(len : Z) (dist : Z -> Z) : bool', st.b(tie.test),
               'len = len(sortedDistances), dist i = sortedDistances[i][0]'))
    if not (isinstance(pick, ast.Assign) and len(pick.targets) == 1 and _norm(pick.targets[0]) in ('(hammingDistance, origin)', 'hammingDistance, origin')
            and isinstance(pick.value, ast.Subscript)):
        raise Untranslatable('expand: not `hammingDistance, origin = sortedDistances[i]`')
    st2 = SeqTranslator('sortedDistances', 'len', 'id')
    sel = st2.z(pick.value)
    add(_chunk(src, pick.value, 'gen_pick_index', '(len : Z) : Z', sel.replace('(id ', '(', 1),
               'index of the entry that is assigned when there is no tie'))
    want = ('self.addBarcode(alias, barcode=hammingBarcode, index=self.barcodes[alias][origin], '
            'hammingDistance=hammingDistance, originBarcode=origin)')
    if _norm(addb) != want:
        raise Untranslatable('expand: addBarcode call changed: %s' % _norm(addb))

    # ---------------- (c) lookup order
    gi = py2coq.find_function(tree, 'BarcodeParser.getIndexCorrectedBarcodeAndHammingDistance')
    if [a.arg for a in gi.args.args] != ['self', 'barcode', 'alias', 'try_lazy_load_pending']:
        raise Untranslatable('getIndexCorrectedBarcodeAndHammingDistance: signature changed')
    body = [st for st in gi.body if not (isinstance(st, ast.Expr) and isinstance(st.value, ast.Constant))]
    stages = {
        'if barcode in self.barcodes[alias]:\n    return (self.barcodes[alias][barcode], barcode, 0)': 0,
        'if barcode in self.extendedBarcodes[alias]:\n    return self.extendedBarcodes[alias][barcode]': 1,
        'if alias in self.pending_files:\n    if not try_lazy_load_pending:\n        raise RecursionError()\n'
        '    self.parse_pending_barcode_file_of_alias(alias)\n'
        '    return self.getIndexCorrectedBarcodeAndHammingDistance(barcode, alias, try_lazy_load_pending=False)': 2,
    }
    if not body or _norm(body[-1]) != 'return (None, None, None)':
        raise Untranslatable('lookup: does not end in `return (None, None, None)`')
    order = []
    for stt in body[:-1]:
        u = _norm(stt)
        if u not in stages:
            raise Untranslatable('lookup: unrecognised statement at line %d: %s' % (stt.lineno, u[:160]))
        order.append(stages[u])
    if sorted(order) != [0, 1, 2]:
        raise Untranslatable('lookup: stages %r' % order)
    add(_chunk(src, gi, 'gen_lookup_order', ': list Z', '[' + '; '.join(str(x) for x in order) + ']',
               '0 = exact table, 1 = extended table, 2 = load the pending alias and look up once more'))

    # ---------------- (d) column-order detection of parse_barcode_file
    pf = py2coq.find_function(tree, 'BarcodeParser.parse_barcode_file')
    asg = [n for n in ast.walk(pf) if isinstance(n, ast.Assign) and _norm(n.targets[0]) == 'indexFirst']
    if len(asg) != 1:
        raise Untranslatable('parse_barcode_file: expected one assignment to indexFirst, found %d' % len(asg))
    v = asg[0].value
    ok = (isinstance(v, ast.UnaryOp) and isinstance(v.op, ast.Not) and isinstance(v.operand, ast.Call)
          and _norm(v.operand.func) == 'all' and len(v.operand.args) == 1 and isinstance(v.operand.args[0], ast.GeneratorExp))
    if ok:
        ge = v.operand.args[0]
        ok = (len(ge.generators) == 1 and _norm(ge.generators[0].target) == 'c' and _norm(ge.generators[0].iter) == 'parts[0]'
              and not ge.generators[0].ifs and isinstance(ge.elt, ast.Compare) and _norm(ge.elt.left) == 'c'
              and len(ge.elt.ops) == 1 and isinstance(ge.elt.ops[0], ast.In)
              and isinstance(ge.elt.comparators[0], ast.Constant) and isinstance(ge.elt.comparators[0].value, str))
    if not ok:
        raise Untranslatable("parse_barcode_file: indexFirst is not `not all((c in '<literal>') for c in parts[0])`")
    add(_chunk(src, v, 'gen_column_class', ': list Z', _codes(ge.elt.comparators[0].value),
               'a first column made of these characters only is a barcode column'))
    flips = [n for n in ast.walk(pf) if isinstance(n, ast.If) and _norm(n.test) == 'not indexFirst']
    if not (len(flips) == 1 and [_norm(x) for x in flips[0].body] == ['indexNotFirst = True'] and not flips[0].orelse):
        raise Untranslatable('parse_barcode_file: `if not indexFirst: indexNotFirst = True` changed')
    sw = [n for n in ast.walk(pf) if isinstance(n, ast.If) and _norm(n.test) == 'indexNotFirst']
    if not (len(sw) == 1 and [_norm(x) for x in sw[0].body] == ['barcode, index = parts']
            and [_norm(x) for x in sw[0].orelse] == ['index, barcode = parts']):
        raise Untranslatable('parse_barcode_file: column swap changed')
    # ---------------- (e) the file reader: tokenisation, column count, line-number index, int() conversion
    regen_file_reader(src, tree, add)
    py2coq.write_gen(os.path.join(fw.COQ, 'Gen', 'GenBarcode.v'), '', chunks)
    return meta

ALPHA = 'ACGTN'
GETITEM = {'op': 'getitem'}     # parser[alias]  (__getitem__; loads a pending alias)
COUNT = {'op': 'count'}         # getTargetCount(alias)  (does not load)


def enc_op(q):
    return [0, q] if isinstance(q, str) else ([1] if q['op'] == 'getitem' else [2])


def expected_items(lines):
    d = {}
    for b, i in lines:
        d[b] = i
    return [[b, i] for b, i in d.items()]
BIG = 10 ** 6
SHIPPED_DIRS = ('barcodes', 'indices')


# ------------------------------------------------------------------ specification, transcribed to Python
def ham(a, b):
    return sum(1 for x, y in zip(a, b) if x != y)


def oracle(lines, k, q):
    """the statement of C03_assign_iff read as a function: unique nearest whitelisted barcode within k,
    with the index the whitelist gives it (last line wins for a repeated barcode); else None"""
    idx = {}
    for b, i in lines:
        idx[b] = i
    cands = [(ham(q, b), b) for b in idx if len(b) == len(q)]
    if not cands:
        return None
    m = min(d for d, _ in cands)
    if m > k:
        return None
    bs = [b for d, b in cands if d == m]
    if len(bs) > 1:
        return None
    return [idx[bs[0]], bs[0], m]


def classify(lines, k, q, got, exp):
    if isinstance(got, dict):
        return 'error'
    if exp is None:
        keys = set(b for b, _ in lines)
        ds = sorted(ham(q, b) for b in keys if len(b) == len(q))
        if len(ds) > 1 and ds[0] == ds[1] and ds[0] <= k:
            return 'tie-assigned'
        return 'far-assigned'
    if got is None:
        return 'exact-missed' if exp[2] == 0 else 'nearest-missed'
    if got[1] != exp[1]:
        return 'wrong-origin'
    if got[2] != exp[2]:
        return 'wrong-distance'
    return 'wrong-index'


def in_alpha(s):
    return all(c in ALPHA for c in s)


# ------------------------------------------------------------------ harness-side reading of a barcode file
def read_barcode_file(path):
    """independent tokeniser for the shipped files -> [(barcode, index token or line number)]"""
    import gzip
    op = gzip.open(path, 'rt') if path.endswith('.gz') else open(path)
    with op as f:
        rows = [l.split() for l in f]
    barcode_first = any(len(r) == 2 and all(c in 'ATCGNX' for c in r[0]) for r in rows)
    out = []
    for n, r in enumerate(rows):
        if len(r) == 1:
            out.append((r[0], n + 1))
        elif len(r) == 2:
            b, i = (r[0], r[1]) if barcode_first else (r[1], r[0])
            out.append((b, i))
        else:
            raise ValueError('unexpected line in %s' % path)
    return out


def alias_of(name):
    return os.path.splitext(os.path.basename(name))[0].replace('.gz', '').replace('.bc', '')


def sphere(L, k):
    import math
    return sum(math.comb(L, d) * 4 ** d for d in range(0, min(k, L) + 1))


def n_items(bcs, k):
    """number of (instance, (distance, origin)) items expand appends; the association-list model is quadratic in it"""
    return sum(sphere(len(b), k) for b in set(bcs))


def par_model(mode, inputs, costs=None, workers=8):
    """fw.run_model over several processes (inputs are independent), balanced by estimated cost"""
    from concurrent.futures import ThreadPoolExecutor
    if not inputs:
        return []
    costs = costs or [1] * len(inputs)
    order = sorted(range(len(inputs)), key=lambda i: -costs[i])
    bins = [[0, []] for _ in range(min(workers, len(inputs)))]
    for i in order:
        b = min(bins, key=lambda x: x[0])
        b[0] += costs[i] + 1
        b[1].append(i)
    out = [None] * len(inputs)

    def work(b):
        r = fw.run_model('C03', mode, [inputs[i] for i in b[1]])
        for i, v in zip(b[1], r):
            out[i] = v
    with ThreadPoolExecutor(max_workers=len(bins)) as ex:
        list(ex.map(work, bins))
    return out


def vm_crosscheck_multi(groups):
    """fw.vm_crosscheck for several (mode, pairs) lists in ONE coqc run (run_C03x dispatches every mode; the
    generated file is build/vm/C03/cases.v).  returns ([(ok, mismatches) per list], log)"""
    import re
    d = os.path.join(fw.BUILD, 'vm', 'C03')
    os.makedirs(d, exist_ok=True)
    body = ['From Coq Require Import ZArith List.', 'Import ListNotations.',
            'From SCMO Require Import Lib.Val Model.C03x.', 'Open Scope Z_scope.']
    for n, (mode, pairs) in enumerate(groups):
        body.append('Definition cases%d : list (Val * Val) := [' % n)
        body.append(';\n'.join('  (%s, %s)' % (fw.coq_val(fw.to_val(i)), fw.coq_val(fw.to_val(o))) for i, o in pairs))
        body.append('].')
        body.append('Eval vm_compute in (length (mismatches (run_C03x %d) cases%d), length cases%d).' % (mode, n, n))
    with open(os.path.join(d, 'cases.v'), 'w') as f:
        f.write('\n'.join(body) + '\n')
    rc, out = fw.sh('ulimit -s unlimited 2>/dev/null; timeout 900 coqc -Q %s SCMO cases.v' % fw.COQ, cwd=d, timeout=960)
    found = re.findall(r'=\s*\((\d+)(?:%nat)?,\s*(\d+)(?:%nat)?\)', out) if rc == 0 else []
    if len(found) != len(groups):
        return [(False, -1)] * len(groups), out
    return [(int(a) == 0 and int(b) == len(pairs), int(a)) for (a, b), (_, pairs) in zip(found, groups)], out


class IndexTable:
    """abstraction of cell indices to integers: digit tokens -> int, other tokens -> BIG + rank"""
    def __init__(self):
        self.t = {}

    def of_token(self, tok):
        if isinstance(tok, int):
            return tok
        try:
            return int(tok)
        except ValueError:
            if tok not in self.t:
                self.t[tok] = BIG + len(self.t)
            return self.t[tok]

    def of_impl(self, v):
        if isinstance(v, bool):
            return -777
        if isinstance(v, int):
            return v
        if isinstance(v, str):
            return self.t.get(v, -778)
        return -779


# ------------------------------------------------------------------ the whitelist FILE reader (Model/C03x.v)
# Python mirror of the model's printer (print_rows / print_wl) and of the STATEMENT of C03_file_roundtrip /
# C03_file_index_first_exact; the mirror printer is compared with the model's printer on every whitelist case.
LAYOUTS = ('one', 'barcode_first', 'index_first')
BLANKS_COMMON = [' ', '\t']
BLANKS_RARE = ['\x0b', '\x0c', '\x1c', '\x1d', '\x1e', '\x1f', '\x85', '\xa0', '\u1680', '\u2000', '\u2003', '\u2009',
               '\u200a', '\u2028', '\u2029', '\u202f', '\u205f', '\u3000']
PINNED_COLUMN_CLASS = 'ATCGNX'          # the class the statement was proved for (gen_column_class of the pinned tree)
NAME_STYLES = ['c%d', 'lib1_%d', '%d-A1', 'TruSeq_Single_Index_%d', 'A%d', 'cell.%d', 'acgt%d', 'n\xb0%d']
DEGENERATE_NAMES = ['A', 'N', 'X', 'CAT', 'TAG', 'GATTACA', 'ACGT', 'NNNN', 'TTAGGC']
ODD_TOKENS = ['7', '007', '+5', '-0', '-12', '1_0', '1__0', '_1', '1_', '+', '-', '\u0663', '1\u0662', '\uff11\uff12', '\xb2', '1e3',
              '0x10', '1.0', '+-1', 'A', 'N', 'X', 'c1', 'acgt', 'ACGX', 'ACGTN', '3-TGCA-3-TATG', 'AC-GT', '12AC', 'AC12',
              '\u0967\u0968', '0_7', '9' * 19, '1' * 40, '\ufeffAC', '\u200b']
FUZZ_ALPHABET = 'AACN1170_+- \t\n\n\r\x0b\xa0x'


def print_index(ix):
    return str(ix) if isinstance(ix, int) else ix


def row_text(row):
    lead, toks, sep, trail, eol = row
    return lead + sep.join(toks) + trail + eol


def wl_rows(layout, ws):
    """ws: [((lead, sep, trail, eol), index, barcode)] -> rows (lead, tokens, sep, trail, eol)"""
    out = []
    for (lead, sep, trail, eol), ix, bc in ws:
        toks = [bc] if layout == 'one' else ([bc, print_index(ix)] if layout == 'barcode_first' else [print_index(ix), bc])
        out.append((lead, toks, sep, trail, eol))
    return out


def print_wl(layout, ws):
    return ''.join(row_text(r) for r in wl_rows(layout, ws))


def py_int(tok):
    try:
        return int(tok)
    except ValueError:
        return None


def is_class_token(tok):
    return all(c in PINNED_COLUMN_CLASS for c in tok)


def py_degenerate(ws):
    return any(is_class_token(print_index(ix)) for _, ix, _ in ws)


def is_blank(s):
    return all(c.isspace() and c not in '\n\r' for c in s)


def tok_ok(t):
    return len(t) > 0 and not any(c.isspace() for c in t)


def py_wl_ok(layout, ws):
    """python transcription of wl_okb (the hypotheses of the round-trip theorems)"""
    for n, ((lead, sep, trail, eol), ix, bc) in enumerate(ws):
        last = n == len(ws) - 1
        if not (is_blank(lead) and is_blank(sep) and is_blank(trail)):
            return False
        if layout != 'one' and sep == '':
            return False
        if eol not in ('\n', '\r', '\r\n') and not (eol == '' and last):
            return False
        if not (bc and in_alpha(bc)):
            return False
        if layout == 'one':
            if ix != n + 1:
                return False
        elif isinstance(ix, int):
            if isinstance(ix, bool):
                return False
        else:
            if not tok_ok(ix) or py_int(ix) is not None:
                return False
    return True


def wl_expected(layout, ws):
    """the STATEMENT: the mapping a printed whitelist must load as (last line wins); index-first files one of whose
    index names consists of column-class letters only are outside it (C03_file_index_first_degenerate_refuted)"""
    d = {}
    for _, ix, bc in ws:
        d[bc] = ix
    return d


def enc_ix(ix):
    return ['i', str(ix)] if isinstance(ix, int) else ['s', ix]


def model_ix(v):
    """index as the model prints it ([0; decimal string] | [1; token]) -> ['i', decimal] | ['s', token]"""
    return ['i' if v[0] == 0 else 's', fw.as_str(v[1])]


def items_to_map(items):
    d = {}
    for b, i in items:
        d[b] = tuple(i)
    return d


def enc_wrow(w):
    (lead, sep, trail, eol), ix, bc = w
    return [[lead, sep, trail, eol], [[0, ix] if isinstance(ix, int) else [1, ix], bc]]


class Prop(fw.PropBase):
    ID = 'C03'
    PROPS = 'Props/C03.v'
    TRUSTED = [
        'the barcode FILE is modelled from its decoded text on (Model/C03x.v: universal-newline line iteration, strip/split on '
        'the str.isspace class, the dead re-split, both passes of parse_barcode_file, int() on the index token incl. underscores, '
        'non-ASCII decimal digits and the interpreter digit limit). Outside the model: gzip, utf-8 decoding (a BOM stays in the '
        'first token), the file system, path_to_barcode_alias (file name -> alias), logging; plain and .gz files differ only in how '
        'the text is obtained. K reads real plain and .gz files through parse_barcode_file and the lazy-loading path',
        'the white-space class and the digit blocks of int() are obtained by reflection on the interpreter the implementation runs '
        'under (str.isspace / str.split / str.strip / int), not from a specification of Python; universal-newline translation, '
        'str.split, str.strip and int() themselves are hand-transcribed (tied by K, incl. every text over {A,1,blank,\\n,\\r} up to '
        'length 4 / 6)',
        'a lazily loaded alias whose file is refused (ValueError at the first touch) keeps the lines read before the bad line in its '
        'exact table; that state is not modelled (file_run is None)',
        'the enumeration ORDER of hamming_circle (itertools.combinations/product) is not modelled; circle in the '
        'model enumerates the same multiset by structural recursion (K compares sorted lists); the order is not '
        'observable through the dictionaries',
        'Python dict / defaultdict(list) modelled as insertion-ordered association lists; sorted() on '
        '(int, str) tuples modelled as insertion sort with the lexicographic order on code points',
        'cell indices abstracted to integers by the harness (non-numeric index tokens are numbered)',
    ]
    ASSUMPTIONS = [
        'whitelist barcodes and observed strings are over the alphabet ACGTN (wf_lines, in_alphabet; measured by K). '
        'Outside it (e.g. X or digits in a whitelist entry, as in DamID2_384_CelSeq2.barcodes.tsv) hamming_circle '
        'never proposes N for that position and the iff does not hold; model and code still agree there',
        'one barcode file per alias (two files mapping to one alias are expanded twice over a growing table; '
        'not covered)',
        'round trip of a printed whitelist file: barcodes non-empty over ACGTN; indices are integers or names int() refuses; white '
        'space inside a line is anything str.isspace accepts except \\n and \\r; line ends \\n, \\r\\n or a lone \\r; an index-first file '
        'must not be degenerate (no index NAME made of the letters ATCGNX only) - such a file is read with the columns exchanged '
        '(C03_file_index_first_exact, C03_file_index_first_degenerate_refuted); model and code agree there',
    ]

    def regen(self):
        return regen_barcode()

    # ---------------------------------------------------------------- generators
    def rand_bc(self, L, pN=0.1, extra=''):
        r = self.rng
        return ''.join(('N' if r.random() < pN else r.choice('ACGT' + extra)) for _ in range(L))

    def mutate(self, b, n):
        r = self.rng
        b = list(b)
        for p in r.sample(range(len(b)), min(n, len(b))):
            b[p] = r.choice([c for c in ALPHA if c != b[p]])
        return ''.join(b)

    def gen_whitelist(self, L, n, flavour):
        """-> list of barcodes (may repeat, may differ in length)"""
        r = self.rng
        pN = {'plain': 0.0, 'N': 0.25, 'allN': 0.2, 'near': 0.05, 'dup': 0.05, 'mixed': 0.05, 'nonwf': 0.05}[flavour]
        out = []
        while len(out) < n:
            if out and flavour in ('near', 'dup', 'N', 'allN', 'mixed', 'nonwf') and r.random() < 0.5:
                src = r.choice(out)
                nb = self.mutate(src, r.choice([1, 1, 2, 3])) if len(src) else src
                if flavour == 'dup' and r.random() < 0.5:
                    nb = src
            else:
                l = L
                if flavour == 'mixed' and r.random() < 0.4:
                    l = max(1, L + r.choice([-1, 1]))
                nb = self.rand_bc(l, pN, extra=('X' if flavour == 'nonwf' else ''))
            if flavour == 'allN' and 'N' not in nb and nb:
                p = r.randrange(len(nb))            # every entry contains an N (column detection must accept N)
                nb = nb[:p] + 'N' + nb[p + 1:]
            out.append(nb)
        return out

    def render(self, bcs, tab, prefer=None):
        """choose a file format; returns (name suffix, gz, content, raw lines [(barcode, token|lineno)])"""
        r = self.rng
        fmt = r.choice(['index_first', 'index_first', 'barcode_first', 'one_col', 'named'])
        if prefer and r.random() < 0.6:
            fmt = prefer
        sep = r.choice(['\t', ' '])
        gz = r.random() < 0.25
        raw, rows = [], []
        start = r.choice([1, 1, 0, 5])
        for n, b in enumerate(bcs):
            if fmt == 'one_col':
                rows.append(b)
                raw.append((b, n + 1))
            else:
                tok = ('c%d' % (n + start)) if fmt == 'named' else str(n + start)
                if fmt == 'named' and r.random() < 0.3:
                    tok = 'c%d' % r.randint(0, 3)          # repeated index names are legal
                rows.append((b + sep + tok) if fmt == 'barcode_first' else (tok + sep + b))
                raw.append((b, tok))
        content = '\n'.join(rows) + ('\n' if r.random() < 0.8 else '')
        suffix = r.choice(['.bc', '.tsv', '.txt']) if not gz else r.choice(['.bc.gz', '.gz'])
        lines = [(b, tab.of_token(t)) for b, t in raw]
        self._last_rows = None if fmt == 'one_col' else [r.split(sep) for r in rows]
        self._last_raw = raw
        return suffix, gz, content, lines, fmt

    def queries_for(self, bcs, k, exhaustive_max):
        r = self.rng
        lens = sorted(set(len(b) for b in bcs))
        qs = []
        exhaustive = True
        for L in lens:
            if L <= exhaustive_max:
                qs += [''.join(t) for t in itertools.product(ALPHA, repeat=L)]
            else:
                exhaustive = False
                same = [b for b in bcs if len(b) == L]
                for b in same:
                    qs.append(b)
                    for d in range(1, k + 3):
                        for _ in range(2):
                            qs.append(self.mutate(b, d))
                # midpoints between two barcodes (ties and near ties)
                for _ in range(min(30, 2 * len(same))):
                    a, b = r.choice(same), r.choice(same)
                    diff = [p for p in range(L) if a[p] != b[p]]
                    m = list(a)
                    for p in r.sample(diff, len(diff) // 2) if diff else []:
                        m[p] = b[p]
                    qs.append(''.join(m))
                    if diff:
                        m[r.choice(diff)] = r.choice(ALPHA)
                        qs.append(''.join(m))
                for _ in range(10):
                    qs.append(self.rand_bc(L, 0.1))
        # a few queries of a length that is not in the whitelist, and the empty string
        qs.append(self.rand_bc(lens[-1] + 1, 0.1) if lens else 'A')
        if lens and lens[0] > 1:
            qs.append(self.rand_bc(lens[0] - 1, 0.1))
        if not exhaustive:
            r.shuffle(qs)       # the query order matters only for the lazy state machine
        return qs, exhaustive

    def with_accessors(self, qs, allow_count_first=True):
        """interleave the accessors with the lookups: what is touched FIRST on a (possibly pending) alias
        is a lookup, parser[alias] or getTargetCount(alias)"""
        r = self.rng
        pre = r.choice([[], [], [GETITEM], [GETITEM], [COUNT], [COUNT, GETITEM], [GETITEM, COUNT], [COUNT, COUNT]])
        if not allow_count_first and pre and pre[0] is COUNT:
            pre = [GETITEM] + pre
        out = list(qs)
        for _ in range(r.randint(0, 3)):
            out.insert(r.randint(0, len(out)), r.choice([GETITEM, COUNT]))
        if not allow_count_first:
            while out and not pre and out[0] is COUNT:
                out.pop(0)
        return pre + out

    def cap(self):
        return 5000 if self.tier == 'quick' else 14000

    def make_groups(self):
        quick = self.tier == 'quick'
        r = self.rng
        groups, cases = [], []
        n_groups = 40 if quick else 160
        exh = 4 if quick else 5
        for gi in range(n_groups):
            k = r.choice([0, 1, 1, 2, 2, 2, 3] if gi % 5 else [0, 1, 2])
            files, queries, aliases = [], [], []
            n_alias = r.randint(3, 6)
            percase = []
            for ai in range(n_alias):
                big = (r.random() < 0.2)
                if big:
                    L = r.choice([6, 8, 8, 10, 12, 16])
                    n = r.randint(2, max(2, min(48, self.cap() // sphere(L, k))))
                else:
                    L = r.choice([1, 2, 3, 3, 4, 4, 4] + ([5, 5] if not quick else []))
                    n = r.randint(1, 9)
                if k == 3 and L > 4:
                    L = 4
                flavour = r.choice(['plain', 'N', 'allN', 'near', 'near', 'dup', 'mixed', 'nonwf'])
                bcs = self.gen_whitelist(L, n, flavour)
                tab = IndexTable()
                suffix, gz, content, lines, fmt = self.render(bcs, tab, prefer='barcode_first' if flavour == 'allN' else None)
                alias = 'w%d_%d' % (gi, ai)
                files.append({'name': alias + suffix, 'content': content, 'gz': gz})
                qs, exhaustive = self.queries_for(bcs, k, exh if L <= exh else 0)
                qs = self.with_accessors(qs)
                queries.append([alias, qs])
                aliases.append(alias)
                percase.append({'alias': alias, 'lines': lines, 'k': k, 'queries': qs, 'tab': tab, 'fmt': fmt,
                                'gz': gz, 'flavour': flavour, 'exhaustive': exhaustive, 'kind': 'file',
                                'file': files[-1], 'rows': self._last_rows, 'raw': self._last_raw})
            mode = r.choice(['eager', 'star', 'some', 'some'])
            lazy = None if mode == 'eager' else ('*' if mode == 'star' else [a for a in aliases if r.random() < 0.5])
            for c in percase:
                c['lazy'] = (lazy == '*') or (isinstance(lazy, list) and c['alias'] in lazy)
            for ai, c in enumerate(percase):
                c['src'] = ('groups', gi, ai)
                cases.append(c)
            groups.append({'k': k, 'lazy': lazy, 'files': files, 'queries': queries,
                           'dump': [c['alias'] for c in percase if n_items([b for b, _ in c['lines']], k) <= 3000]})
        return groups, cases

    def make_api(self):
        """addBarcode + expand (the demux --si path and what the unit tests do); string indices"""
        r = self.rng
        api, cases = [], []
        for n in range(12 if self.tier == 'quick' else 80):
            k = r.choice([0, 1, 2])
            L = r.choice([2, 3, 4])
            bcs = self.gen_whitelist(L, r.randint(1, 8), r.choice(['plain', 'near', 'dup', 'N']))
            tab = IndexTable()
            adds = [[b, ('TEST%d' % i) if n % 2 else i] for i, b in enumerate(bcs)]
            lines = [(b, tab.of_token(t)) for b, t in adds]
            qs, ex = self.queries_for(bcs, k, 4)
            # addBarcode + expand(k) has happened before the history starts: in the model that is the first
            # loading operation of the lazy path, so getTargetCount may not come first
            qs = self.with_accessors(qs, allow_count_first=False)
            api.append({'k': k, 'adds': adds, 'queries': qs})
            # expand(k) is called explicitly whatever k: that is the model's lazy path (load + expand k)
            cases.append({'alias': 'user', 'lines': lines, 'k': k, 'queries': qs, 'tab': tab, 'lazy': True,
                          'fmt': 'api', 'gz': False, 'flavour': 'api', 'exhaustive': ex, 'kind': 'api',
                          'src': ('api', n, 0)})
        return api, cases

    def make_shipped(self):
        """shipped whitelists: full files through the model for k <= 1; k = 2 on the full files is checked
        against the Python transcription of the specification only (the association-list model is quadratic)"""
        r = self.rng
        quick = self.tier == 'quick'
        base = os.path.join(fw.REPO, 'singlecellmultiomics', 'modularDemultiplexer')
        shipped, cases = [], []
        plan = []
        for d in SHIPPED_DIRS:
            names = sorted(os.listdir(os.path.join(base, d)))
            parsed = {}
            for nm in names:
                try:
                    parsed[alias_of(nm)] = read_barcode_file(os.path.join(base, d, nm))
                except Exception:
                    continue
            usable = sorted(a for a, raw in parsed.items() if raw)
            if quick:
                small = [a for a in usable if n_items([b for b, _ in parsed[a]], 1) <= self.cap()]
                pick = [r.choice(small or usable), r.choice(usable)]
                if pick[0] == pick[1]:
                    pick = pick[:1]
                plan.append((d, 1, '*', pick, parsed))
                plan.append((d, 2, '*', pick[:1], parsed))
            else:
                plan.append((d, 0, '*', usable, parsed))
                plan.append((d, 1, None, usable, parsed))
                plan.append((d, 1, '*', usable, parsed))
                plan.append((d, 2, '*', usable, parsed))
        for si, (d, k, lazy, aliases, parsed) in enumerate(plan):
            queries = []
            for ai, a in enumerate(aliases):
                raw = parsed[a]
                tab = IndexTable()
                lines = [(b, tab.of_token(t)) for b, t in raw]
                bcs = [b for b, _ in raw]
                qs = []
                nq = 150 if quick else 500
                for _ in range(nq):
                    b = r.choice(bcs)
                    if in_alpha(b):
                        qs.append(self.mutate(b, r.choice([0, 1, 1, 2, 2, 3])))
                    else:
                        qs.append(b if r.random() < 0.3 else self.rand_bc(len(b), 0.05))
                for _ in range(nq // 3):
                    a1, b1 = r.choice(bcs), r.choice(bcs)
                    if len(a1) == len(b1) and in_alpha(a1) and in_alpha(b1):
                        diff = [p for p in range(len(a1)) if a1[p] != b1[p]]
                        m = list(a1)
                        for p in (r.sample(diff, len(diff) // 2) if diff else []):
                            m[p] = b1[p]
                        qs.append(''.join(m))
                qs = self.with_accessors(qs)
                queries.append([a, qs])
                cases.append({'alias': a, 'lines': lines, 'k': k, 'queries': qs, 'tab': tab, 'lazy': lazy == '*',
                              'fmt': 'shipped:' + d, 'gz': False, 'flavour': 'shipped', 'exhaustive': False,
                              'kind': 'shipped', 'src': ('shipped', si, ai),
                              'model': n_items(bcs, k) <= (self.cap() if quick else 14000)})
            shipped.append({'dir': d, 'k': k, 'lazy': lazy, 'queries': queries})
        return shipped, cases

    def make_circle(self):
        r = self.rng
        out = []
        for L in range(0, 5):
            for n in range(0, L + 2):
                for _ in range(3):
                    out.append([self.rand_bc(L, 0.3, extra='X' if r.random() < 0.2 else ''), n])
        for _ in range(10 if self.tier == 'quick' else 60):
            L = r.choice([6, 8, 10])
            out.append([self.rand_bc(L, 0.1), r.choice([0, 1, 2])])
        return out

    # ---------------------------------------------------------------- canonical forms
    @staticmethod
    def canon_impl(c, a):
        """implementation answer -> the model's Val shape"""
        if a is None:
            return []
        if isinstance(a, dict):
            if 'items' in a:
                return [-2, [[[ord(ch) for ch in b], c['tab'].of_impl(i)] for b, i in (a['items'] or [])]]
            if 'count' in a:
                return [-3] + list(a['count'])
            return ['error', a.get('error')]
        idx, bc, d = a
        if not isinstance(bc, str) or not isinstance(d, int) or isinstance(d, bool):
            return ['malformed', repr(a)]
        return [[c['tab'].of_impl(idx), [ord(ch) for ch in bc], d]]

    @staticmethod
    def model_input(c):
        return [[[b, i] for b, i in c['lines']], c['k'], [enc_op(q) for q in c['queries']], 1 if c['lazy'] else 0]

    def impl_answers(self, res, c):
        kind, i, j = c['src']
        r = res[kind][i]
        if 'error' in r:
            return [{'error': r['error']}] * len(c['queries'])
        return r['answers'][j] if kind != 'api' else r['answers']

    def build(self):
        groups, c1 = self.make_groups()
        api, c2 = self.make_api()
        shipped, c3 = self.make_shipped()
        circle = self.make_circle()
        # the file-reader cases come from their own generator stream (derived from, not consuming, self.rng), so the
        # lookup streams above are what they were before the file reader was added
        import random
        r2 = random.Random('c03x-%s' % fw.canon_hash([int(x) for x in self.rng.getstate()[1][:8]]))
        saved, self.rng = self.rng, r2
        try:
            fgroups, c4 = self.fr_file_groups(r2, len(groups))
            self.pcases = self.fr_cases(r2)
        finally:
            self.rng = saved
        groups = groups + fgroups
        c1 = c1 + c4
        payload = {'groups': groups, 'api': api, 'shipped': shipped, 'circle': circle,
                   'pfiles': [{'text': c['text'], 'gz': c['gz'], 'lazy': c['lazy'], 'suffix': c['suffix']} for c in self.pcases]}
        corpus = []
        cdir = os.path.join(fw.VERIF, 'corpus', 'C03')
        if os.path.isdir(cdir):
            for f in sorted(os.listdir(cdir)):
                if f.endswith('.json'):
                    j = json.load(open(os.path.join(cdir, f)))
                    tab = IndexTable()
                    n = len(payload['api'])
                    payload['api'].append({'k': j['k'], 'adds': [[b, i] for b, i in j['lines']], 'queries': j['queries']})
                    corpus.append({'alias': 'user', 'lines': [(b, tab.of_token(i)) for b, i in j['lines']], 'k': j['k'],
                                   'queries': j['queries'], 'tab': tab, 'lazy': True, 'fmt': 'api', 'gz': False,
                                   'flavour': 'corpus', 'exhaustive': False, 'kind': 'api', 'src': ('api', n, 0)})
        return payload, corpus + c1 + c2 + c3, circle

    # ================================================================ the whitelist FILE reader (Model/C03x.v)
    def fr_blank(self, r, allow_empty=True):
        n = r.choice([0, 1, 1, 1, 2, 3]) if allow_empty else r.choice([1, 1, 1, 2, 3])
        return ''.join(r.choice(BLANKS_RARE) if r.random() < 0.15 else r.choice(BLANKS_COMMON) for _ in range(n))

    def fr_decos(self, r, n):
        """white space / line ends of n lines: mostly the plain styles of the shipped files, boundary-biased otherwise"""
        style = r.choice(['tab', 'space', 'tab', 'space', 'wild', 'wild', 'crlf', 'cr', 'trailing'])
        file_eol = {'crlf': '\r\n', 'cr': '\r'}.get(style, '\n')
        out = []
        for _ in range(n):
            if style in ('tab', 'space', 'crlf', 'cr'):
                d = ['', '\t' if style != 'space' else ' ', '', file_eol]
            elif style == 'trailing':
                d = ['', r.choice(['\t', ' ']), self.fr_blank(r, False), '\n']
            else:
                d = [self.fr_blank(r) if r.random() < 0.3 else '', self.fr_blank(r, False),
                     self.fr_blank(r) if r.random() < 0.4 else '', r.choice(['\n', '\n', '\r\n', '\r'])]
            out.append(d)
        if out and r.random() < 0.3:
            out[-1][3] = ''                      # no terminator after the last line
        return [tuple(d) for d in out]

    def fr_indices(self, r, n, layout):
        """canonical indices (they survive printing): integers, and names int() refuses"""
        if layout == 'one':
            return list(range(1, n + 1))
        kind = r.choice(['count', 'count', 'count0', 'named', 'named', 'mixed', 'ints',
                         'degenerate' if layout == 'index_first' else 'named'])
        start = r.choice([1, 1, 0, 5, 100])
        style = r.choice(NAME_STYLES)
        out = []
        for i in range(n):
            if kind in ('count', 'count0'):
                out.append(i + (0 if kind == 'count0' else start))
            elif kind == 'ints':
                out.append(r.choice([0, -1, -12, 7, 10 ** 15, 2 ** 59, i, r.randint(-50, 5000)]))
            elif kind == 'named':
                out.append(style % (i if r.random() < 0.85 else r.randint(0, 3)))     # repeated names are legal
            else:
                out.append(i + 1 if r.random() < 0.5 else style % i)
        if kind == 'degenerate' and n:
            for _ in range(r.choice([1, 1, 2, n])):
                out[r.randrange(n)] = r.choice(DEGENERATE_NAMES)
        return out

    def fr_whitelists(self, r, count):
        out = []
        for _ in range(count):
            layout = r.choice(LAYOUTS + ('index_first', 'barcode_first'))
            L = r.choice([1, 2, 3, 4, 6, 8, 8, 12, 16])
            n = r.choice([0, 1, 1, 2, 3, 4, 6, 9, 14])
            bcs = self.gen_whitelist(L, n, r.choice(['plain', 'N', 'allN', 'near', 'dup', 'mixed'])) if n else []
            ws = list(zip(self.fr_decos(r, len(bcs)), self.fr_indices(r, len(bcs), layout), bcs))
            out.append({'kind': 'wl', 'layout': layout, 'ws': ws, 'text': print_wl(layout, ws)})
        return out

    def fr_rows(self, r, count):
        """arbitrary rows of tokens: 0..4 columns, odd index tokens (007, +5, 1_0, non-ASCII digits, digit-limit),
        barcodes outside ACGTN, mixed one/two-column files"""
        import sys
        lim = sys.get_int_max_str_digits() if hasattr(sys, 'get_int_max_str_digits') else 0
        out = []
        for _ in range(count):
            n = r.choice([1, 2, 3, 5, 8])
            shape = r.choice(['two', 'two', 'two', 'mixed', 'one', 'broken', 'broken'])
            order = r.choice(['bf', 'if'])
            decos = self.fr_decos(r, n)
            rows = []
            for i in range(n):
                bc = r.choice([self.rand_bc(r.choice([1, 3, 8]), 0.1), self.rand_bc(4, 0.1, extra='X'), self.rand_bc(6, 0.2),
                               r.choice(ODD_TOKENS)])
                ix = r.choice([str(i + 1), str(i + 1), r.choice(ODD_TOKENS), 'c%d' % i])
                if lim and r.random() < 0.02:
                    ix = r.choice(['1', '0', '1_']) * (lim + r.choice([0, 1])) + r.choice(['', '1'])
                ncol = {'two': 2, 'one': 1}.get(shape) or (r.choice([1, 2, 2]) if shape == 'mixed' else r.choice([0, 1, 2, 2, 2, 3, 4]))
                toks = {0: [], 1: [bc], 2: ([bc, ix] if order == 'bf' else [ix, bc]), 3: [ix, bc, 'x'], 4: [bc, ix, '1', 'A']}[ncol]
                lead, sep, trail, eol = decos[i]
                rows.append((lead, toks, sep, trail, eol))
            out.append({'kind': 'rows', 'rows': rows, 'text': ''.join(row_text(x) for x in rows)})
        return out

    def fr_cases(self, r):
        """all file-reader cases of this run (corpus first)"""
        quick = self.tier == 'quick'
        cases = []
        cdir = os.path.join(fw.VERIF, 'corpus', 'C03', 'files')
        if os.path.isdir(cdir):
            for f in sorted(os.listdir(cdir)):
                if f.endswith('.json'):
                    for j in json.load(open(os.path.join(cdir, f))):
                        cases.append({'kind': 'corpus', 'text': j['text'], 'note': j.get('note', f)})
        for eol in ('\r', '\r\n'):      # longer than the 8 KiB read chunk of the text layer: line ends fall on chunk boundaries
            ws = [(('', '\t', '', eol), i + 1, self.rand_bc(8, 0.05)) for i in range(1300)]
            cases.append({'kind': 'wl', 'layout': 'index_first', 'ws': ws, 'text': print_wl('index_first', ws)})
        cases += self.fr_whitelists(r, 160 if quick else 2500)
        cases += self.fr_rows(r, 140 if quick else 2500)
        for _ in range(150 if quick else 4000):
            cases.append({'kind': 'fuzz', 'text': ''.join(r.choice(FUZZ_ALPHABET) for _ in range(r.randint(0, 40)))})
        for n in range(0, (4 if quick else 6) + 1):
            for t in itertools.product('A1 \n\r', repeat=n):
                cases.append({'kind': 'exhaustive', 'text': ''.join(t)})
        base = os.path.join(fw.REPO, 'singlecellmultiomics', 'modularDemultiplexer')
        for d in SHIPPED_DIRS:
            for nm in sorted(os.listdir(os.path.join(base, d))) if os.path.isdir(os.path.join(base, d)) else []:
                try:
                    raw = open(os.path.join(base, d, nm), 'rb').read()
                    if nm.endswith('.gz'):
                        import gzip
                        raw = gzip.decompress(raw)
                    text = raw.decode('utf-8')
                except Exception:
                    continue
                if len(text) <= (40000 if quick else 10 ** 7):
                    cases.append({'kind': 'shipped', 'text': text, 'note': d + '/' + nm})
        for n, c in enumerate(cases):
            c['gz'] = r.random() < 0.25
            c['lazy'] = r.random() < 0.25
            c['suffix'] = r.choice(['.bc', '.bc', '.tsv', '.txt', ''])
            if c['kind'] == 'wl':
                c['pre'] = py_wl_ok(c['layout'], c['ws'])
                c['degenerate'] = py_degenerate(c['ws'])
        return cases

    def fr_file_groups(self, r, first_gi):
        """END TO END: decorated whitelist files in scratch barcode directories, loaded by the real BarcodeParser
        (eager / lazyLoad), queried; these cases join the lookup cases (oracle, model mode 5, specb, tables) and are
        additionally run through the model from the TEXT (mode 11)"""
        quick = self.tier == 'quick'
        groups, cases = [], []
        for n in range(10 if quick else 60):
            gi = first_gi + n
            k = r.choice([0, 1, 1, 2, 2])
            files, queries, percase = [], [], []
            for ai in range(r.randint(2, 4)):
                layout = r.choice(LAYOUTS + ('index_first',))
                L = r.choice([1, 2, 3, 3, 4])
                flavour = r.choice(['plain', 'N', 'allN', 'near', 'dup', 'mixed'])
                bcs = self.gen_whitelist(L, r.randint(1, 7), flavour)
                ixs = self.fr_indices(r, len(bcs), layout)
                ixs = [(i if not isinstance(i, int) or abs(i) < 2 ** 40 else i % 1000) for i in ixs]
                if layout == 'index_first':
                    ixs = [('c%d' % j if isinstance(i, str) and is_class_token(i) else i) for j, i in enumerate(ixs)]
                ws = list(zip(self.fr_decos(r, len(bcs)), ixs, bcs))
                text = print_wl(layout, ws)
                gz = r.random() < 0.25
                tab = IndexTable()
                lines = [(b, tab.of_token(ix)) for _, ix, b in ws]
                alias = 'd%d_%d' % (gi, ai)
                suffix = r.choice(['.bc.gz', '.gz']) if gz else r.choice(['.bc', '.tsv', '.txt'])
                files.append({'name': alias + suffix, 'content': text, 'gz': gz, 'raw': True})
                qs, exhaustive = self.queries_for(bcs, k, 4)
                qs = self.with_accessors(qs)
                queries.append([alias, qs])
                percase.append({'alias': alias, 'lines': lines, 'k': k, 'queries': qs, 'tab': tab, 'fmt': 'decorated:' + layout,
                                'gz': gz, 'flavour': flavour, 'exhaustive': exhaustive, 'kind': 'file', 'file': files[-1],
                                'rows': None, 'raw': None, 'text': text, 'layout': layout, 'ws': ws})
            mode = r.choice(['eager', 'star', 'some'])
            lazy = None if mode == 'eager' else ('*' if mode == 'star' else [c['alias'] for c in percase if r.random() < 0.5])
            for ai, c in enumerate(percase):
                c['lazy'] = (lazy == '*') or (isinstance(lazy, list) and c['alias'] in lazy)
                c['src'] = ('groups', gi, ai)
                cases.append(c)
            groups.append({'k': k, 'lazy': lazy, 'files': files, 'queries': queries, 'dump': [c['alias'] for c in percase]})
        return groups, cases

    @staticmethod
    def fr_canon_impl(o):
        """implementation result of one file -> ('raise', type) | ('ok', {barcode: ('i', decimal) | ('s', token)})"""
        if not isinstance(o, dict) or ('items' not in o and 'error' not in o):
            return ('malformed', repr(o)[:200])
        if 'error' in o:
            return ('raise', str(o['error']).split(':')[0])
        try:
            return ('ok', items_to_map(o['items']))
        except Exception:
            return ('malformed', repr(o)[:200])

    def fr_statement_failures(self, res):
        """the round-trip STATEMENT (C03_file_roundtrip) on the implementation's outputs: a printed whitelist that
        satisfies the hypotheses (python transcription of wl_okb; index-first: not degenerate) must load as itself"""
        fails = []
        out = res.get('pfiles') or []
        for c, o in zip(self.pcases, out):
            if c['kind'] != 'wl' or not c['pre'] or (c['layout'] == 'index_first' and c['degenerate']):
                continue
            exp = {b: tuple(enc_ix(i)) for b, i in wl_expected(c['layout'], c['ws']).items()}
            got = self.fr_canon_impl(o)
            if got != ('ok', exp):
                fails.append((c, o, exp))
        return fails

    def file_check(self):
        """K for the file reader: real files (plain and .gz, eager parse_barcode_file and the lazy
        parse_pending_barcode_file_of_alias path) against parse_file of the model; the statement on the outputs"""
        res, pcases = self.res, self.pcases
        out = res.get('pfiles') or []
        maxd = int(res.get('maxd') or 0)
        if len(out) != len(pcases):
            raise fw.Broken('correspondence', 'file reader: %d results for %d files' % (len(out), len(pcases)))
        impl = [self.fr_canon_impl(o) for o in out]
        hist_kind, hist_out, hist_err, hist_layout = {}, {}, {}, {}
        n_nonascii = n_cr = n_noeol = n_gz = n_lazy = 0
        distinct = set()
        for c, a in zip(pcases, impl):
            hist_kind[c['kind']] = hist_kind.get(c['kind'], 0) + 1
            hist_out[a[0]] = hist_out.get(a[0], 0) + 1
            if a[0] == 'raise':
                hist_err[a[1]] = hist_err.get(a[1], 0) + 1
            t = c['text']
            n_nonascii += any(ord(ch) > 127 for ch in t)
            n_cr += '\r' in t
            n_noeol += bool(t) and t[-1] not in '\n\r'
            n_gz += c['gz']
            n_lazy += c['lazy']
            if c['kind'] == 'wl':
                key = c['layout'] + ('/degenerate' if c['layout'] == 'index_first' and c['degenerate'] else '')
                hist_layout[key] = hist_layout.get(key, 0) + 1
            if len(t.split()) >= 2 and (any(ch.isspace() and ch not in ' \t\n' for ch in t) or t[-1:] not in ('\n',)
                                        or len(set(len(l.split()) for l in t.splitlines())) > 1 or '  ' in t):
                distinct.add(fw.canon_hash(t))
        stmt_fail = self.fr_statement_failures(res)
        n_stmt = sum(1 for c in pcases if c['kind'] == 'wl' and c['pre'] and not (c['layout'] == 'index_first' and c['degenerate']))
        fr = {
            'files': len(pcases), 'kind_histogram': hist_kind, 'implementation_outcomes': hist_out,
            'exception_types': hist_err, 'whitelist_layouts': hist_layout,
            'files_with_non_ascii_white_space_or_digits': n_nonascii, 'files_with_cr_or_crlf': n_cr,
            'files_without_final_newline': n_noeol, 'gz_files': n_gz, 'read_through_lazy_loading': n_lazy,
            'distinct_nontrivial': len(distinct),
            'rule': 'one evaluation = one real barcode file (utf-8 bytes, plain or gzip) read by parse_barcode_file on a fresh '
                    'BarcodeParser, or by a lazyLoad parser at the first parser[alias]; observable = the barcode -> index mapping '
                    '(index type and value) or that an exception is raised. non-trivial = at least two tokens and (white space other than '
                    'blank/tab/\\n, or \\r line ends, or no final newline, or lines with different column counts, or runs of blanks)',
            'int_max_str_digits': maxd,
            'roundtrip_statement_evaluated_on_impl': n_stmt, 'roundtrip_statement_failures': len(stmt_fail),
            'precondition_hit_rate_whitelist_cases': round(sum(1 for c in pcases if c['kind'] == 'wl' and c['pre']) /
                                                           max(1, hist_kind.get('wl', 0)), 4),
            'exhaustive': 'every text over {A, 1, blank, \\n, \\r} of length <= %d' % (4 if self.tier == 'quick' else 6),
        }
        self.cov['file_reader'] = fr
        self.fr_stmt_fail = stmt_fail
        dis = []
        if self.model_ok:
            mo = fw.run_model('C03', 10, [[c['text'], maxd] for c in pcases])
            for c, m, a, raw in zip(pcases, mo, impl, out):
                if m == [-1]:
                    mm = ('raise',)
                else:
                    mm = ('ok', {fw.as_str(b): tuple(model_ix(i)) for b, i in m[0]})
                if mm[0] != a[0] or (mm[0] == 'ok' and mm[1] != a[1]):
                    dis.append({'case': c, 'model': mm, 'impl': raw})
            fr['files_compared_with_model'] = len(pcases)
            # the printer of the specification side and its hypotheses: mirror printer = model printer
            wl = [c for c in pcases if c['kind'] == 'wl' and all(not isinstance(ix, int) or abs(ix) < 2 ** 61 for _, ix, _ in c['ws'])]
            wo = fw.run_model('C03', 13, [[LAYOUTS.index(c['layout']), [enc_wrow(w) for w in c['ws']], maxd] for c in wl])
            pdis = 0
            for c, o in zip(wl, wo):
                text, okb, deg, inf = fw.as_str(o[0]), o[1], o[2], o[3]
                want_inf = {'one': 0, 'barcode_first': 1 if c['ws'] else 0, 'index_first': 1 if c['degenerate'] else 0}[c['layout']]
                if text != c['text'] or okb != (1 if c['pre'] else 0) or deg != (1 if c['degenerate'] else 0) or (c['pre'] and inf != want_inf):
                    pdis += 1
                    dis.append({'case': c, 'model': {'print_wl': text, 'wl_okb': okb, 'degenerate': deg, 'index_not_first': inf},
                                'impl': 'harness printer / hypotheses: text equal %s, pre %s, degenerate %s' % (text == c['text'], c['pre'], c['degenerate'])})
            rw = [c for c in pcases if c['kind'] == 'rows']
            ro = fw.run_model('C03', 12, [[[ld, tk, sp, tr, el] for ld, tk, sp, tr, el in c['rows']] for c in rw])
            rows_ok = 0
            for c, o in zip(rw, ro):
                rows_ok += o[1]
                if fw.as_str(o[0]) != c['text']:
                    pdis += 1
                    dis.append({'case': c, 'model': {'print_rows': fw.as_str(o[0])}, 'impl': 'harness printer differs'})
            fr['printer_compared'] = len(wl) + len(rw)
            fr['printer_disagreements'] = pdis
            fr['rows_cases_satisfying_rows_okb'] = rows_ok
            fr['disagreements'] = len(dis)
            small = [(c, m) for c, m in zip(pcases, mo) if len(c['text']) <= 60 and c['kind'] != 'exhaustive']
            self.rng.shuffle(small)
            pairs = [([c['text'], maxd], m) for c, m in small[:100]]
            # one coqc run for the lookup sample (mode 5, left by correspondence_lookups) and the file sample (mode 10)
            pairs5 = getattr(self, 'vm_pairs5', None)
            self.vm_pairs5 = None
            res_vm, log = vm_crosscheck_multi(([(5, pairs5)] if pairs5 is not None else []) + [(10, pairs)])
            if pairs5 is not None:
                self.cov['vm_compute_crosscheck'] = {'cases': len(pairs5), 'mismatches': res_vm[0][1]}
            fr['vm_compute_crosscheck'] = {'cases': len(pairs), 'mismatches': res_vm[-1][1]}
            if not all(ok for ok, _ in res_vm):
                raise fw.Broken('extraction', 'vm_compute and extracted model disagree (lookups, files): %r ' % (res_vm,) + log[-800:])
            self.cov['traces_validated_against_impl'] = (self.cov.get('traces_validated_against_impl') or 0) + len(pcases)
        self.cov['evaluations_lookups'] = self.cov.get('evaluations')
        self.cov['evaluations_files'] = len(pcases)
        if isinstance(self.cov.get('evaluations'), int):
            self.cov['evaluations'] += len(pcases)
        if isinstance(self.cov.get('distinct_nontrivial'), int):
            self.cov['distinct_nontrivial'] += len(distinct)
        sm = []
        for c, o in list(zip(pcases, out))[3:600:97]:
            sm.append({'kind': c['kind'], 'text': c['text'][:120], 'gz': c['gz'], 'lazy': c['lazy'], 'impl': str(o)[:240]})
        fr['samples'] = sm
        self.fr_dis = dis
        if dis or stmt_fail:
            if stmt_fail:
                c, o, exp = min(stmt_fail, key=lambda x: len(x[0]['text']))
                first = 'printed %s whitelist %r read as %s; the whitelist is %r' % (c['layout'], c['text'][:200], str(o)[:300], exp)
            else:
                d = min(dis, key=lambda x: len(x['case']['text']))
                first = 'file %r (%s%s%s): model %s, implementation %s' % (d['case']['text'][:200], d['case']['kind'],
                        ', gz' if d['case']['gz'] else '', ', lazy' if d['case']['lazy'] else '', str(d['model'])[:300], str(d['impl'])[:300])
            raise fw.Broken('correspondence', 'file reader: %d files differ from the model, %d printed whitelists violate the round-trip '
                            'statement; first: %s' % (len(dis), len(stmt_fail), first))

    def correspondence(self):
        err = ferr = None
        try:
            self.correspondence_lookups()
        except fw.Broken as b:
            err = b
        if getattr(self, 'res', None) is not None and getattr(self, 'pcases', None) is not None:
            try:
                self.file_check()
            except fw.Broken as b:
                ferr = b
        if err and ferr:
            raise fw.Broken(err.kind, err.detail + '  ||  ' + ferr.detail)
        if err or ferr:
            raise err or ferr

    def search_files(self):
        """failing input for the file reader: the round-trip statement on the implementation's outputs, shrunk"""
        fails = getattr(self, 'fr_stmt_fail', None)
        if fails is None:
            fails = self.fr_statement_failures(self.res)
        seen = set()
        for c, o, exp in sorted(fails, key=lambda x: (len(x[0]['ws']), len(x[0]['text']))):
            if c['layout'] in seen:
                continue
            seen.add(c['layout'])
            layout, ws, o = self.shrink_file(c['layout'], c['ws'], o, c)
            text = print_wl(layout, ws)
            exp = {b: enc_ix(i) for b, i in wl_expected(layout, ws).items()}
            self.witnesses.append({
                'key': 'file:' + layout,
                'what': 'parse_barcode_file on the %s file %r (%s%s) gives %s; the file lists %r'
                        % (layout.replace('_', '-'), text, 'gz' if c['gz'] else 'plain', ', read through lazy loading' if c['lazy'] else '',
                           str(o)[:400], exp),
                'input': {'text': text, 'layout': layout, 'gz': c['gz'], 'lazy': c['lazy'], 'suffix': c['suffix'],
                          'whitelist': [[enc_ix(ix), bc] for _, ix, bc in ws]},
                'impl': o, 'expected': exp})

    def shrink_file(self, layout, ws, o, c):
        def renum(w):
            return [(d, (n + 1 if layout == 'one' else ix), b) for n, (d, ix, b) in enumerate(w)]

        def bad(cands):
            pay = {'pfiles': [{'text': print_wl(layout, w), 'gz': c['gz'], 'lazy': c['lazy'], 'suffix': c['suffix']} for w in cands]}
            r = fw.run_impl('impl_c03.py', pay)['pfiles']
            res = []
            for w, x in zip(cands, r):
                exp = {b: tuple(enc_ix(i)) for b, i in wl_expected(layout, w).items()}
                ok = py_wl_ok(layout, w) and not (layout == 'index_first' and py_degenerate(w))
                res.append((ok and self.fr_canon_impl(x) != ('ok', exp), x))
            return res
        try:
            ws = list(ws)
            for _ in range(10):
                plain = ('', '\t', '', '\n')
                cands = [renum(ws[:i] + ws[i + 1:]) for i in range(len(ws))]
                cands += [ws[:i] + [(plain, ws[i][1], ws[i][2])] + ws[i + 1:] for i in range(len(ws)) if ws[i][0] != plain]
                cands += [ws[:i] + [(ws[i][0], ws[i][1], ws[i][2][:1])] + ws[i + 1:] for i in range(len(ws)) if len(ws[i][2]) > 1]
                if not cands:
                    break
                flags = bad(cands)
                nxt = [(w, x) for w, (f, x) in zip(cands, flags) if f]
                if not nxt:
                    break
                ws, o = nxt[0]
        except Exception as e:
            self.notes.append('file shrink failed: %r' % (e,))
        return layout, ws, o

    # ---------------------------------------------------------------- K (lookups)
    def correspondence_lookups(self):
        payload, cases, circle = self.build()
        res = fw.run_impl('impl_c03.py', payload)
        self.payload, self.cases, self.res = payload, cases, res
        # --- measured coverage of the input distribution (needs only the implementation)
        n_eval, outcome, hist_k, hist_L, hist_fmt, hist_fl = 0, {}, {}, {}, {}, {}
        distinct = set()
        wf_q = 0
        oracle_dis = []
        n_acc = {}
        for c in cases:
            impl = self.impl_answers(res, c)
            wl_wf = all(in_alpha(b) for b, _ in c['lines'])
            keyset = set(b for b, _ in c['lines'])
            hist_fmt[c['fmt']] = hist_fmt.get(c['fmt'], 0) + 1
            hist_fl[c['flavour']] = hist_fl.get(c['flavour'], 0) + 1
            hist_k[str(c['k'])] = hist_k.get(str(c['k']), 0) + len(c['queries'])
            wl_hash = fw.canon_hash([[b, i] for b, i in c['lines']] + [c['k']])
            loaded = not c['lazy']
            for q, a in zip(c['queries'], impl):
                if not isinstance(q, str):
                    n_acc[q['op']] = n_acc.get(q['op'], 0) + 1
                    if not loaded:
                        n_acc['first_touch_' + q['op']] = n_acc.get('first_touch_' + q['op'], 0) + 1
                    if q['op'] == 'getitem':
                        loaded = True
                        want = [-2, [[[ord(ch) for ch in b], i] for b, i in expected_items(c['lines'])]]
                        if self.canon_impl(c, a) != want:
                            oracle_dis.append((c, q, a, expected_items(c['lines'])))
                    continue
                if not loaded:
                    n_acc['first_touch_lookup'] = n_acc.get('first_touch_lookup', 0) + 1
                loaded = True
                n_eval += 1
                hist_L[str(len(q))] = hist_L.get(str(len(q)), 0) + 1
                pre = wl_wf and in_alpha(q)
                wf_q += pre
                exp = oracle(c['lines'], c['k'], q)
                near = [ham(q, b) for b in keyset if len(b) == len(q)]
                md = min(near) if near else None
                if exp is not None:
                    cls = 'exact' if exp[2] == 0 else 'corrected_d%d' % exp[2]
                elif md is not None and md <= c['k']:
                    cls = 'tie_none'
                elif md is not None and md == c['k'] + 1:
                    cls = 'just_beyond_k_none'
                else:
                    cls = 'far_none'
                outcome[cls] = outcome.get(cls, 0) + 1
                if cls not in ('exact', 'far_none'):
                    distinct.add((wl_hash, q))
                if pre:
                    got = self.canon_impl(c, a)
                    want = [] if exp is None else [[exp[0], [ord(ch) for ch in exp[1]], exp[2]]]
                    if got != want:
                        oracle_dis.append((c, q, a, exp))
        self.oracle_dis = oracle_dis
        ncl = sum(1 for c in cases)
        self.cov.update({
            'evaluations': n_eval,
            'distinct_nontrivial': len(distinct),
            'rule': 'one evaluation = one lookup (whitelist file, k, lazy/eager, observed string) on the real BarcodeParser. '
                    'non-trivial = the observed string is not a whitelist member and some whitelisted barcode lies within '
                    'k+1 of it (corrected, tie, or just beyond the radius); distinct by hash(whitelist lines, k) x string',
            'whitelists': ncl,
            'whitelists_exhaustive_queries': sum(1 for c in cases if c['exhaustive']),
            'outcome_histogram': outcome, 'k_histogram_lookups': hist_k, 'query_length_histogram': hist_L,
            'file_format_histogram': hist_fmt, 'whitelist_flavour_histogram': hist_fl,
            'lazy_whitelists': sum(1 for c in cases if c['lazy']),
            'accessor_operations_in_histories': n_acc,
            'history_rule': 'each whitelist is driven by one history: lookups interleaved with parser[alias] (__getitem__) and '
                            'getTargetCount(alias); first_touch_* counts what touched a PENDING (lazy) alias first',
            'precondition_hit_rate': round(wf_q / max(1, n_eval), 4),
            'wf_whitelists': sum(1 for c in cases if all(in_alpha(b) for b, _ in c['lines'])),
            'equal_length_nodup_whitelists': sum(1 for c in cases if len(set(len(b) for b, _ in c['lines'])) <= 1
                                                 and len(set(b for b, _ in c['lines'])) == len(c['lines'])),
            'python_spec_vs_impl_disagreements': len(oracle_dis),
            'circle_cases': len(circle),
            'exhaustive': False,
            'exhaustive_scope': 'all observed strings over ACGTN^L for every whitelist with L <= %d (sampled whitelists)'
                                % (4 if self.tier == 'quick' else 5),
        })
        sm = []
        for c in cases[:400:57]:
            impl = self.impl_answers(res, c)
            j = len(c['queries']) // 2
            sm.append({'lines': c['lines'][:6], 'k': c['k'], 'lazy': c['lazy'], 'fmt': c['fmt'], 'query': c['queries'][j],
                       'impl': impl[j]})
        self.cov['samples'] = sm
        if not self.model_ok:
            if oracle_dis:
                raise fw.Broken('correspondence', 'implementation differs from the specification (python transcription) on %d lookups'
                                % len(oracle_dis))
            return
        # --- model vs implementation
        mcases = [c for c in cases if c.get('model', True)]
        mout = par_model(5, [self.model_input(c) for c in mcases], [n_items([b for b, _ in c['lines']], c['k']) ** 2 // 1000 + len(c['queries']) for c in mcases])
        dis, pairs2 = [], []
        validated = 0
        for c, mo in zip(mcases, mout):
            impl = self.impl_answers(res, c)
            ci = [self.canon_impl(c, a) for a in impl]
            if len(mo) != len(ci):
                dis.append({'case': c, 'q': None, 'model': mo, 'impl': 'model output malformed'})
                continue
            for q, m, a, raw in zip(c['queries'], mo, ci, impl):
                validated += 1
                if m != a:
                    dis.append({'case': c, 'q': q, 'model': m, 'impl': raw})
            pairs2.append((c, ci))
        # --- END TO END from the file TEXT (Model/C03x.v file_run, mode 11): the decorated whitelist files
        tcases = [c for c in mcases if c.get('text') is not None]
        if tcases:
            maxd = int(res.get('maxd') or 0)
            tout = par_model(11, [[c['text'], maxd, c['k'], [enc_op(q) for q in c['queries']], 1 if c['lazy'] else 0,
                                   [[s, n] for s, n in c['tab'].t.items()]] for c in tcases],
                             [n_items([b for b, _ in c['lines']], c['k']) ** 2 // 1000 + len(c['queries']) for c in tcases])
            for c, mo in zip(tcases, tout):
                impl = self.impl_answers(res, c)
                ci = [self.canon_impl(c, a) for a in impl]
                if len(mo) != len(ci):
                    dis.append({'case': c, 'q': None, 'model': mo, 'impl': 'file -> lookup: the model refuses the file or its output is malformed'})
                    continue
                for q, m, a, raw in zip(c['queries'], mo, ci, impl):
                    validated += 1
                    if m != a:
                        dis.append({'case': c, 'q': q, 'model': m, 'impl': raw})
        self.cov['file_to_lookup_histories_through_model'] = len(tcases)
        # --- the theorem's boolean specification on the implementation's answers (where the precondition holds)
        pre = fw.run_model('C03', 1, [[[[b, i] for b, i in c['lines']], c['k'], [q for q in c['queries'] if isinstance(q, str)], 0]
                                      for c in mcases])
        spec_in, spec_meta = [], []
        for (c, ci), p in zip(pairs2, pre):
            if p[0] != 1:
                continue
            qpos = [j for j, q in enumerate(c['queries']) if isinstance(q, str)]
            flags = dict(zip(qpos, p[3]))
            idx = [j for j in qpos if flags.get(j) == 1 and (ci[j] == [] or (ci[j] and isinstance(ci[j][0], list)))]
            if not idx:
                continue
            inp = [[[b, i] for b, i in c['lines']], c['k'], [c['queries'][j] for j in idx], 0]
            spec_in.append([inp, [ci[j] for j in idx]])
            spec_meta.append((c, idx))
        spec_out = par_model(2, spec_in, [len(x[0][0]) * len(x[1]) for x in spec_in])
        spec_fail = []
        n_spec = 0
        for (c, idx), so in zip(spec_meta, spec_out):
            for j, ok in zip(idx, so):
                n_spec += 1
                if ok != 1:
                    spec_fail.append((c, c['queries'][j]))
        # --- the tables themselves (exact and extended) as finite maps, after the queries (so after a lazy load)
        tcases, tin = [], []
        for c in mcases:
            kind, i, j = c['src']
            tb = res[kind][i].get('tables', {}).get(c['alias']) if isinstance(res[kind][i], dict) else None
            if tb is not None:
                tcases.append((c, tb))
                tin.append([[[b, x] for b, x in c['lines']], c['k']])
        tout = par_model(4, tin, [n_items([b for b, _ in c['lines']], c['k']) ** 2 // 1000 + 1 for c, _ in tcases])
        tdis = []
        for (c, tb), mo in zip(tcases, tout):
            if 'error' in tb or len(mo) != 2:
                tdis.append({'case': c, 'model': mo, 'impl': tb})
                continue
            me = sorted([fw.as_str(k), v] for k, v in mo[0])
            mx = sorted([fw.as_str(k), [h[0], fw.as_str(h[1]), h[2]]] for k, h in mo[1])
            ie = sorted([k, c['tab'].of_impl(v)] for k, v in tb['exact'])
            ix = sorted([k, [c['tab'].of_impl(h[0]), h[1], h[2]]] for k, h in tb['extended'])
            if me != ie or mx != ix:
                dx = [x for x in ix if x not in mx][:3] + [x for x in mx if x not in ix][:3]
                tdis.append({'case': c, 'exact_equal': me == ie, 'extended_diff_sample': dx})
        self.cov['tables_compared'] = len(tcases)
        self.cov['table_entries_compared'] = sum(len(tb.get('exact', [])) + len(tb.get('extended', [])) for _, tb in tcases)
        self.cov['table_disagreements'] = len(tdis)
        # --- column-order detection: the model's parse_rows (with the regenerated character class) on the rows as
        # written must give the (barcode, index token) pairs the file was rendered from (the implementation
        # was just shown to load exactly those)
        pcases = [c for c in mcases if c.get('rows')]
        pout = fw.run_model('C03', 6, [c['rows'] for c in pcases]) if pcases else []
        pdis = [c for c, o in zip(pcases, pout)
                if [[fw.as_str(b), fw.as_str(t)] for b, t in o] != [[b, str(t)] for b, t in c['raw']]]
        self.cov['parse_rows_compared'] = len(pcases)
        self.cov['parse_rows_disagreements'] = len(pdis)
        if pdis:
            tdis.append({'case': pdis[0], 'parse_rows': 'model column detection differs from the rendered file'})
        # --- hamming_circle as a sorted list
        mc = fw.run_model('C03', 3, [[s, n] for s, n in circle])
        cdis = []
        for (s, n), m, a in zip(circle, mc, res['circle']):
            if isinstance(a, dict) or sorted(fw.as_str(x) for x in m) != sorted(a):
                cdis.append({'s': s, 'n': n, 'model': sorted(fw.as_str(x) for x in m), 'impl': a if isinstance(a, dict) else sorted(a)})
        self.cov['traces_validated_against_impl'] = validated + len(circle)
        self.cov['specb_evaluated_on_impl_answers'] = n_spec
        self.cov['specb_failures'] = len(spec_fail)
        self.cov['disagreements'] = len(dis) + len(cdis)
        self.cov['whitelists_through_model'] = len(mcases)
        # --- vm_compute cross-check of the extracted binary on 100 small inputs
        small = [(c, mo) for c, mo in zip(mcases, mout) if len(c['lines']) <= 8 and max([len(b) for b, _ in c['lines']] + [0]) <= 5
                 and c['kind'] != 'shipped']
        self.rng.shuffle(small)
        pairs = []
        for c, mo in small[:100]:
            idx = sorted(self.rng.sample(range(len(c['queries'])), min(6, len(c['queries']))))
            if c['lazy']:
                idx = list(range(min(8, len(c['queries']))))      # lazy answers depend on the prefix
            inp = [[[b, i] for b, i in c['lines']], c['k'], [enc_op(c['queries'][j]) for j in idx], 1 if c['lazy'] else 0]
            pairs.append((inp, [mo[j] for j in idx]))
        self.vm_pairs5 = pairs          # evaluated inside Coq together with the file sample (file_check: one coqc run)
        if tdis and not (dis or cdis or spec_fail or oracle_dis):
            d = tdis[0]
            raise fw.Broken('correspondence', 'the exact/extended tables differ from the model on %d whitelists although every lookup '
                            'agrees (internal state only); first: whitelist %r k=%d: %r' % (len(tdis), d['case']['lines'][:8], d['case']['k'],
                                                                                      {k: v for k, v in d.items() if k != 'case'}))
        if dis or cdis or spec_fail or oracle_dis:
            self.dis, self.cdis = dis, cdis
            first = None
            if dis:
                d = min(dis, key=lambda x: (len(x['case']['lines']), len(x['q']) if isinstance(x['q'], str) else 0))
                pos = d['case']['queries'].index(d['q']) if d['q'] in d['case']['queries'] else 0
                before = [x['op'] for x in d['case']['queries'][:pos] if not isinstance(x, str)]
                first = '%r (accessors before it in the history: %r) on whitelist %r k=%d lazy=%s (%s): model %r, implementation %r' % (
                    d['q'], before, d['case']['lines'][:8], d['case']['k'], d['case']['lazy'], d['case']['fmt'], d['model'], str(d['impl'])[:300])
            elif cdis:
                first = 'hamming_circle(%r, %d): model %r implementation %r' % (cdis[0]['s'], cdis[0]['n'], cdis[0]['model'][:12], str(cdis[0]['impl'])[:200])
            elif spec_fail:
                first = 'specb false on the implementation answer for %r, whitelist %r' % (spec_fail[0][1], spec_fail[0][0]['lines'][:8])
            else:
                c, q, a, exp = oracle_dis[0]
                first = '%r: implementation %r, specification %r' % (q, str(a)[:300], str(exp)[:300])
            raise fw.Broken('correspondence', 'model/specification and implementation disagree: %d lookups, %d circles, %d specb, '
                            '%d python-spec; first: %s' % (len(dis), len(cdis), len(spec_fail), len(oracle_dis), first))

    # ---------------------------------------------------------------- known findings
    DEGENERATE_KEY = 'file:index_first:degenerate'

    def replay_known(self, finding):
        """file:index_first:degenerate - the witness of C03_file_index_first_degenerate_refuted on the implementation:
        the index-first file "1\\tCC\\nN\\tAA\\n" is read with the columns exchanged"""
        if finding.get('key') != self.DEGENERATE_KEY:
            return True
        r = fw.run_impl('impl_c03.py', {'pfiles': [{'text': '1\tCC\nN\tAA\n', 'gz': False, 'lazy': False, 'suffix': '.bc'}]})['pfiles'][0]
        return self.fr_canon_impl(r) != ('ok', {'CC': ('i', '1'), 'AA': ('s', 'N')})

    def matches(self, finding, witness):
        if finding.get('key') == self.DEGENERATE_KEY:
            # only a witness that IS a degenerate index-first file (search never produces one: they are outside the hypothesis)
            ws = (witness.get('input') or {}).get('whitelist') or []
            return witness.get('key') == 'file:index_first' and any(i[0] == 's' and is_class_token(i[1]) for i, _ in ws)
        return finding.get('key') == witness.get('key')

    # ---------------------------------------------------------------- search
    def search(self):
        """Evaluates the STATEMENT of C03_assign_iff (python transcription `oracle`; specb needs the model) on the
        implementation's answers over the same streams; shrinks the whitelist of the smallest failing case."""
        if getattr(self, 'res', None) is None:
            self.payload, self.cases, circle = self.build()
            self.res = fw.run_impl('impl_c03.py', self.payload)
        try:
            self.search_files()
        except Exception as e:
            self.notes.append('file search raised %r' % (e,))
        fails = []
        acc_seen = set()
        for c in self.cases:
            wl_wf = all(in_alpha(b) for b, _ in c['lines'])
            impl = self.impl_answers(self.res, c)
            for pos, (q, a) in enumerate(zip(c['queries'], impl)):
                if not isinstance(q, str):
                    if q['op'] == 'getitem':
                        want = [-2, [[[ord(ch) for ch in b], i] for b, i in expected_items(c['lines'])]]
                        if self.canon_impl(c, a) != want and 'getitem' not in acc_seen:
                            acc_seen.add('getitem')
                            self.witnesses.append({'key': 'getitem', 'what': 'parser[alias] on whitelist %r returned %s; expected the '
                                                   'barcode -> index mapping %r' % (c['lines'][:12], str(a)[:300], expected_items(c['lines'])[:12]),
                                                   'input': {'lines': c['lines'], 'k': c['k'], 'lazy': c['lazy'], 'format': c['fmt'],
                                                             'history_prefix': c['queries'][:pos + 1], 'file': c.get('file')}, 'impl': a})
                    continue
                if not wl_wf or not in_alpha(q):
                    continue
                exp = oracle(c['lines'], c['k'], q)
                got = self.canon_impl(c, a)
                want = [] if exp is None else [[exp[0], [ord(ch) for ch in exp[1]], exp[2]]]
                if got != want:
                    fails.append((len(c['lines']) * 100 + len(q) + (1000 if c['kind'] != 'api' else 0), c, q, a, exp, pos))
        # circle: exactly the sphere, each string once
        for (s, n), a in zip(self.payload['circle'], self.res['circle']):
            if not in_alpha(s):
                continue
            sphere = sorted(''.join(t) for t in itertools.product(ALPHA, repeat=len(s)) if ham(t, s) == n) if len(s) <= 5 else None
            if isinstance(a, dict) or (sphere is not None and sorted(a) != sphere) or len(set(a)) != len(a):
                self.witnesses.append({'key': 'circle', 'what': 'hamming_circle(%r, %d, "ACTGN") is not the Hamming sphere of radius %d '
                                       '(each string exactly once)' % (s, n, n), 'input': [s, n],
                                       'impl': a if isinstance(a, dict) else sorted(a)[:40], 'expected': (sphere or [])[:40]})
                break
        if not fails:
            return
        seen = set()
        fails.sort(key=lambda f: f[0])
        for _, c, q, a, exp, pos in fails:
            cls = classify(c['lines'], c['k'], q, a, exp)
            if cls in seen:
                continue
            seen.add(cls)
            lines, k = self.shrink(c, q) if len(seen) <= 2 else (c['lines'], c['k'])
            before = [x['op'] for x in c['queries'][:pos] if not isinstance(x, str)]
            first_touch = next((x if isinstance(x, str) else x['op'] for x in c['queries'][:pos + 1]
                                if isinstance(x, str) or x['op'] == 'getitem'), None)
            via = {'file': 'barcode file (%s%s), %s' % (c['fmt'], ', gz' if c['gz'] else '', 'lazyLoad' if c['lazy'] else 'eager'),
                   'api': 'addBarcode + expand(%d)' % c['k'], 'shipped': 'shipped whitelist %s (%s)' % (c['alias'], 'lazyLoad' if c['lazy'] else 'eager')}[c['kind']]
            self.witnesses.append({
                'key': 'lookup:' + cls,
                'what': 'getIndexCorrectedBarcodeAndHammingDistance(%r) with hammingDistanceExpansion=%d on whitelist %r '
                        '[%s; accessors called on the alias before this lookup: %r] returned %r; unique nearest whitelisted barcode '
                        'within %d: %r' % (q, c['k'], lines[:12], via, before, a, c['k'], exp),
                'input': {'lines': lines, 'k': k, 'query': q, 'lazy': c['lazy'], 'format': c['fmt'],
                          'position_in_history': pos, 'accessors_before': before,
                          'first_loading_operation_of_history': first_touch},
                'impl': a, 'expected': exp})
            if len(seen) >= 4:
                break

    def shrink(self, c, q):
        """drop whitelist lines while the addBarcode+expand path still violates the specification on q"""
        lines, k = list(c['lines']), c['k']

        def bad_on(cands):
            api = [{'k': k, 'adds': [[b, i] for b, i in ls], 'queries': [q]} for ls in cands]
            r = fw.run_impl('impl_c03.py', {'api': api})['api']
            out = []
            for ls, x in zip(cands, r):
                a = x['answers'][0] if 'answers' in x else {'error': x.get('error')}
                exp = oracle(ls, k, q)
                got = None if a is None else a
                out.append((got if not isinstance(got, list) else [got[0], got[1], got[2]]) != exp)
            return out
        try:
            if not bad_on([lines])[0]:
                return c['lines'], k        # only reproducible through the file / lazy path
            for _ in range(8):
                cands = [lines[:i] + lines[i + 1:] for i in range(len(lines))]
                if not cands:
                    break
                flags = bad_on(cands)
                nxt = [cd for cd, f in zip(cands, flags) if f]
                if not nxt:
                    break
                lines = nxt[0]
        except Exception as e:
            self.notes.append('shrink failed: %r' % (e,))
        return lines, k
