"""C19 - per-cell file splitting (HandleLimiter / FastqHandle(single_cell=True)) loses no record under
handle limits and open() failures.

K: the real class is driven by write sequences under an instrumented, fault-injecting open()
(tools/impl_c19.py); compared with the Coq model (Model/C19.v, fixed := true, i.e. the repaired retry
path of fixes/C19-D27.patch) on: number of completed calls, exception kind, the complete sequence of OS
open()/close() calls (path, mode, descriptors open before the call, outcome), openHandles keys, seen,
pruneIntervalCounter, and the content of every file read back after close().

Histories that continue after a raise (case['cont'] = 1): the harness catches whatever a write() raises and goes on
with the same writer; compared with Model/C19x.v (mode 4 of run_C19x): one status per operation, the OS calls made
by each operation (trace + per-operation marks), files after close(); the statement (Props/C19.v C19_hist_*) is
evaluated on the implementation's outcome by spec_violations_hist (python transcription) and by Model.spec_histb
(mode 5, proved sound for the model: C19_hist_spec_sound).
"""
import ast, hashlib, itertools, os
import fw, py2coq
from py2coq import Untranslatable

CHARS = 'ACGTN@+:;IF#\n01ab'
EXC_KINDS = ['EMFILE', 'ENFILE', 'EINTR', 'EAGAIN', 'ENOMEM', 'EACCES', 'plain']


SRC = 'singlecellmultiomics/pyutils/handlelimiter.py'
CLS = 'HandleLimiter'


def _sha(t):
    return hashlib.sha256(t.encode()).hexdigest()


# ----------------------------------------------------------------------------- T: coq/Gen/GenHandles.v
# The decisions the content invariant hinges on are regenerated from the working tree on every run; Model.C19's
# hl_* functions are defined WITH them, Proofs/C19_tie.v proves the shape lemmas that identify them with the
# reference kernel of the invariant proofs.  Anything not of the recognised shape raises Untranslatable.
class _Gen:
    def __init__(self, repo):
        self.path = os.path.join(repo, SRC)
        self.src = open(self.path).read().replace('\r\n', '\n')
        self.tree = ast.parse(self.src)
        self.chunks, self.meta = [], []

    def fn(self, name):
        f = py2coq.find_function(self.tree, CLS + '.' + name)
        if not isinstance(f, ast.FunctionDef):
            raise Untranslatable('%s is not a function' % name)
        return f

    def emit(self, node, coqname, params, body, note=''):
        seg = ast.get_source_segment(self.src, node) or ast.unparse(node)
        self.chunks.append('(* source: %s line %d-%d sha256 %s %s\n   %s *)\nDefinition %s %s :=\n  %s.' % (
            SRC, node.lineno, node.end_lineno, _sha(seg), note, ' '.join(seg.split()).replace('*)', '* )')[:300],
            coqname, params, body))
        self.meta.append({'source': SRC, 'lines': [node.lineno, node.end_lineno], 'sha256': _sha(seg), 'coq': coqname})

    @staticmethod
    def u(n):
        return ast.unparse(n)

    def expr(self, node, env, what, boolean=True):
        """py2coq translation of an expression whose every name is covered by env (fail closed on any other name)"""
        def free(n):
            if ast.unparse(n) in env:
                return set()
            if isinstance(n, ast.Name):
                return {n.id}
            out = set()
            for c in ast.iter_child_nodes(n):
                out |= free(c)
            return out
        fr = free(node)
        if fr:
            raise Untranslatable('%s: `%s` reads %s, which is outside the recognised state' % (what, self.u(node), sorted(fr)))
        tr = py2coq.ExprTranslator(env=env)
        return tr.b(node) if boolean else tr.z(node)

    @staticmethod
    def nodoc(f):
        b = list(f.body)
        if b and isinstance(b[0], ast.Expr) and isinstance(b[0].value, ast.Constant) and isinstance(b[0].value.value, str):
            b = b[1:]
        return b

    @staticmethod
    def is_print(st):
        return isinstance(st, ast.Expr) and isinstance(st.value, ast.Call) and isinstance(st.value.func, ast.Name) \
            and st.value.func.id == 'print'

    # ---- __init__: fresh state per instance, no other attributes, no mutable defaults
    def init(self):
        f = self.fn('__init__')
        a = f.args
        if a.vararg or a.kwarg or a.kwonlyargs or a.posonlyargs:
            raise Untranslatable('__init__: argument form outside subset')
        for d in list(a.defaults) + [d for d in a.kw_defaults if d is not None]:
            if not (isinstance(d, ast.Constant) and (d.value is None or isinstance(d.value, (int, str, bool)))):
                raise Untranslatable('__init__: default value `%s` is not an immutable constant (shared between instances)' % self.u(d))
        expected = {'openHandles': '{}', 'seen': 'set()', 'maxHandles': 'maxHandles', 'pruneEvery': 'pruneEvery',
                    'compressionLevel': 'compressionLevel'}
        got = {}
        for st in self.nodoc(f):
            if not (isinstance(st, ast.Assign) and len(st.targets) == 1 and isinstance(st.targets[0], ast.Attribute)
                    and self.u(st.targets[0].value) == 'self'):
                raise Untranslatable('__init__: statement outside subset at line %d: %s' % (st.lineno, self.u(st)[:80]))
            name = st.targets[0].attr
            if name in got:
                raise Untranslatable('__init__: %s assigned twice' % name)
            got[name] = st
        extra = set(got) - set(expected) - {'pruneIntervalCounter'}
        if extra:
            raise Untranslatable('__init__: extra instance state %s is not part of the model' % sorted(extra))
        for k, v in expected.items():
            if k not in got or self.u(got[k].value) != v:
                raise Untranslatable('__init__: expected self.%s = %s' % (k, v))
        if 'pruneIntervalCounter' not in got:
            raise Untranslatable('__init__: pruneIntervalCounter not initialised')
        st = got['pruneIntervalCounter']
        self.emit(st, 'g_init_ctr', ': Z', self.expr(st.value, {}, '__init__', boolean=False))
        self.emit(f, 'g_init_clean', ': bool', 'true',
                  note='(openHandles = {}, seen = set() per instance, immutable defaults, no other attribute)')

    # ---- write()
    def open_calls(self, stmts, what):
        """the open()/gzip.open() calls in a branch -> {gz: appendflag}; first argument must be `path`"""
        out = {}
        for st in stmts:
            for n in ast.walk(st):
                if isinstance(n, ast.Call) and self.u(n.func) in ('gzip.open', 'open'):
                    gz = self.u(n.func) == 'gzip.open'
                    if len(n.args) < 2 or self.u(n.args[0]) != 'path' or n.keywords and any(k.arg == 'mode' for k in n.keywords):
                        raise Untranslatable('%s: open call form outside subset: %s' % (what, self.u(n)))
                    m = n.args[1]
                    if not (isinstance(m, ast.Constant) and isinstance(m.value, str)):
                        raise Untranslatable('%s: open mode is not a string constant: %s' % (what, self.u(n)))
                    mode = m.value
                    if sorted(mode.replace('b', '').replace('t', '')) not in (['a'], ['w']) or (gz and 'b' not in mode) \
                            or (not gz and 'b' in mode):
                        raise Untranslatable('%s: open mode %r outside subset' % (what, mode))
                    if gz in out:
                        raise Untranslatable('%s: two %s calls in one branch' % (what, 'gzip.open' if gz else 'open'))
                    out[gz] = 'a' in mode
        return out

    def method_split(self, stmts, what):
        """[if method == 1: <gzip.open> else: <open>] + trailing statements -> (modes, trailing)"""
        if not stmts or not (isinstance(stmts[0], ast.If) and self.u(stmts[0].test) == 'method == 1' and stmts[0].orelse):
            raise Untranslatable('%s: expected `if method == 1: ... else: ...` first' % what)
        a = self.open_calls(stmts[0].body, what)
        b = self.open_calls(stmts[0].orelse, what)
        if set(a) != {True} or set(b) != {False}:
            raise Untranslatable('%s: expected gzip.open under method == 1 and open otherwise' % what)
        for br in (stmts[0].body, stmts[0].orelse):
            for st in br:
                if 'seen' in self.u(st):
                    raise Untranslatable('%s: self.seen touched inside the method branches' % what)
        return {True: a[True], False: b[False]}, stmts[1:]

    def write(self):
        f = self.fn('write')
        a = f.args
        if [x.arg for x in a.args] != ['self', 'path', 'string', 'method', 'forceAppend'] or a.vararg or a.kwarg:
            raise Untranslatable('write: signature outside subset')
        attrs = {n.attr for n in ast.walk(f) if isinstance(n, ast.Attribute) and self.u(n.value) == 'self'}
        extra = attrs - {'openHandles', 'seen', 'compressionLevel', 'pruneIntervalCounter', 'pruneEvery', 'prune', 'close'}
        if extra:
            raise Untranslatable('write: reads/writes instance state %s that is not part of the model' % sorted(extra))
        body = self.nodoc(f)
        if len(body) != 5:
            raise Untranslatable('write: expected 5 top level statements (open block, write, lastw, counter, prune), found %d' % len(body))
        blk, wr, lastw, ctr, pr = body
        # 1. the open block is entered iff the path has no entry
        if not (isinstance(blk, ast.If) and not blk.orelse):
            raise Untranslatable('write: first statement is not the `if path not in self.openHandles:` block')
        self.emit(blk.test, 'g_write_guard', '(is_open : bool) : bool',
                  self.expr(blk.test, {'path not in self.openHandles': '(negb is_open)', 'path in self.openHandles': 'is_open'},
                            'write guard'))
        b = blk.body
        if not (len(b) == 3 and self.u(b[0]) == 'self.openHandles[path] = {}' and isinstance(b[1], ast.Assign)
                and isinstance(b[1].targets[0], ast.Name) and self.u(b[1].value) == 'True' and isinstance(b[2], ast.While)):
            raise Untranslatable('write: open block is not [placeholder, flag = True, while flag: ...]')
        flag = b[1].targets[0].id
        loop = b[2]
        if self.u(loop.test) != flag or loop.orelse or len(loop.body) != 1 or not isinstance(loop.body[0], ast.Try):
            raise Untranslatable('write: retry loop is not `while %s: try: ...`' % flag)
        tr = loop.body[0]
        if tr.orelse or tr.finalbody or len(tr.handlers) != 1:
            raise Untranslatable('write: try statement has else/finally or several handlers')
        tb = tr.body
        if not (len(tb) == 2 and isinstance(tb[0], ast.If) and tb[0].orelse and self.u(tb[1]) == '%s = False' % flag):
            raise Untranslatable('write: try body is not [if <append test>: ... else: ..., %s = False]' % flag)
        # 2. append-vs-truncate decision and the modes used in each branch
        dec = tb[0]
        self.emit(dec.test, 'g_append_test', '(in_seen force : bool) : bool',
                  self.expr(dec.test, {'path in self.seen': 'in_seen', 'forceAppend': 'force'}, 'append test'))
        m_then, rest_then = self.method_split(dec.body, 'append branch')
        m_else, rest_else = self.method_split(dec.orelse, 'new-file branch')
        t = lambda x: 'true' if x else 'false'
        self.emit(dec, 'g_opens_append', '(append_branch gz : bool) : bool',
                  'if append_branch then (if gz then %s else %s) else (if gz then %s else %s)'
                  % (t(m_then[True]), t(m_then[False]), t(m_else[True]), t(m_else[False])),
                  note="(true: mode 'a'/'ab', false: mode 'w'/'wb'; gz: method == 1)")
        # 3. where seen.add(path) happens: only after the open statement of a branch (reached iff open succeeded)

        def seen_after(rest, what):
            if not rest:
                return 'false'
            if len(rest) == 1 and self.u(rest[0]) == 'self.seen.add(path)':
                return 'open_ok'
            raise Untranslatable('%s: statements after the open outside subset: %s' % (what, self.u(rest[0])[:80]))
        self.emit(dec, 'g_seen_added', '(append_branch open_ok : bool) : bool',
                  'if append_branch then %s else %s' % (seen_after(rest_then, 'append branch'), seen_after(rest_else, 'new-file branch')),
                  note='(is the path added to self.seen by an attempt; open_ok: the open() of the attempt succeeded)')
        # 4. the handler: which failures it catches, when it retries, what it does before retrying
        h = tr.handlers[0]
        catch_all = h.type is not None and self.u(h.type) in ('Exception', 'BaseException')
        catch_os = h.type is not None and self.u(h.type) in ('OSError', 'IOError', 'EnvironmentError')
        if not (catch_all or catch_os):
            raise Untranslatable('write: handler catches %s' % (self.u(h.type) if h.type else 'everything (bare except)'))
        self.emit(h.type, 'g_handler_catches', '(is_oserror : bool) : bool', 'true' if catch_all else 'is_oserror')
        hb = [st for st in h.body if self.u(st) != '%s = True' % flag]
        if len(hb) != 1 or not isinstance(hb[0], ast.If):
            raise Untranslatable('write: handler body is not a single `if <other handles open>: ... else: raise` (line %d)' % h.lineno)
        rt = hb[0]
        self.emit(rt.test, 'g_retry', '(n_entries : Z) : bool',
                  self.expr(rt.test, {'len(self.openHandles)': 'n_entries'}, 'retry test'),
                  note='(n_entries = len(self.openHandles), the placeholder of the path included)')
        acts = [self.u(st) for st in rt.body]
        if acts == ['self.close()', 'self.openHandles[path] = {}']:
            restores = True
        elif acts == ['self.close()']:
            restores = False
        else:
            raise Untranslatable('write: recovery branch is %r, expected close() [+ placeholder restore]' % acts)
        self.emit(rt, 'g_restores_placeholder', ': bool', t(restores))
        giveup = [st for st in rt.orelse if not self.is_print(st)]
        # D33: is the empty placeholder entry of the path removed before the exception leaves write()?  (A placeholder left
        # behind makes the next write() to this path skip the open block and makes prune() fail on the missing 'lastw'.)
        drops = False
        if len(giveup) == 2 and self.u(giveup[0]) in ('self.openHandles.pop(path, None)', 'self.openHandles.pop(path)',
                                                      'del self.openHandles[path]'):
            if not restores and self.u(giveup[0]) != 'self.openHandles.pop(path, None)':
                raise Untranslatable('write: the give-up branch removes a placeholder that close() already removed')
            drops, giveup = True, giveup[1:]
        if not (len(giveup) == 1 and isinstance(giveup[0], ast.Raise) and giveup[0].exc is None):
            raise Untranslatable('write: the give-up branch does not re-raise the exception')
        self.emit(rt, 'g_giveup_drops_placeholder', ': bool', t(drops),
                  note='(the give-up branch removes the placeholder entry of the path before re-raising)')
        # 5. the write itself goes through self.openHandles[path]['handle']
        wsrc = self.u(wr)
        if not (isinstance(wr, ast.If) and self.u(wr.test) == 'method == 0' and len(wr.body) == 1 and len(wr.orelse) == 1
                and self.u(wr.body[0]) == "self.openHandles[path]['handle'].write(string)"
                and self.u(wr.orelse[0]) == "self.openHandles[path]['handle'].write(bytes(string, 'UTF-8'))"):
            raise Untranslatable('write: the record is not written through self.openHandles[path][\'handle\']: %s' % wsrc[:120])
        if self.u(lastw) != "self.openHandles[path]['lastw'] = time.time()":
            raise Untranslatable('write: lastw statement outside subset')
        # 6. counter and prune trigger
        if not (isinstance(ctr, ast.AugAssign) and self.u(ctr.target) == 'self.pruneIntervalCounter' and isinstance(ctr.op, ast.Add)):
            raise Untranslatable('write: counter statement outside subset')
        self.emit(ctr, 'g_ctr_step', '(ctr : Z) : Z', '(ctr + %s)' % self.expr(ctr.value, {}, 'counter step', boolean=False))
        if not (isinstance(pr, ast.If) and not pr.orelse and [self.u(x) for x in pr.body] == ['self.prune()']):
            raise Untranslatable('write: last statement is not `if <due>: self.prune()`')
        self.emit(pr.test, 'g_prune_due', '(ctr pe : Z) : bool',
                  self.expr(pr.test, {'self.pruneIntervalCounter': 'ctr', 'self.pruneEvery': 'pe'}, 'prune trigger'))

    # ---- prune()
    def prune(self):
        f = self.fn('prune')
        body = self.nodoc(f)
        if not (len(body) == 2 and isinstance(body[0], ast.If) and not body[0].orelse
                and isinstance(body[1], ast.Assign) and self.u(body[1].targets[0]) == 'self.pruneIntervalCounter'):
            raise Untranslatable('prune: expected [if <too many>: ..., self.pruneIntervalCounter = <const>]')
        env = {'len(self.openHandles)': 'n', 'self.maxHandles': 'mh'}
        self.emit(body[0].test, 'g_prune_needed', '(n mh : Z) : bool', self.expr(body[0].test, env, 'prune test'))
        self.emit(body[1], 'g_prune_ctr', ': Z', self.expr(body[1].value, {}, 'prune counter reset', boolean=False))
        b = body[0].body
        if not (len(b) == 3 and isinstance(b[0], ast.Assign) and isinstance(b[0].targets[0], ast.Name)
                and isinstance(b[1], ast.Assign) and isinstance(b[1].targets[0], ast.Name) and isinstance(b[2], ast.For)):
            raise Untranslatable('prune: expected [count, victims = sorted(...)[:count], for victim: ...]')
        cnt, vic, loop = b
        cname, vname = cnt.targets[0].id, vic.targets[0].id
        self.emit(cnt, 'g_to_prune', '(n mh : Z) : Z', self.expr(cnt.value, env, 'prune count', boolean=False))
        v = vic.value
        if not (isinstance(v, ast.Subscript) and isinstance(v.slice, ast.Slice) and v.slice.lower is None and v.slice.step is None
                and v.slice.upper is not None and self.u(v.slice.upper) == cname and isinstance(v.value, ast.Call)
                and self.u(v.value.func) == 'sorted'):
            raise Untranslatable('prune: victims are not sorted(...)[:%s]' % cname)
        call = v.value
        kw = {k.arg: k.value for k in call.keywords}
        if len(call.args) != 1 or self.u(call.args[0]) not in ('self.openHandles.keys()', 'self.openHandles', 'list(self.openHandles)') \
                or set(kw) - {'key', 'reverse'} or 'key' not in kw:
            raise Untranslatable('prune: sorted(...) form outside subset')
        lam = kw['key']
        if not (isinstance(lam, ast.Lambda) and len(lam.args.args) == 1):
            raise Untranslatable('prune: sort key is not a one argument lambda')
        arg = lam.args.args[0].arg
        self.emit(lam, 'g_victim_key', '(lastw : Z) : Z',
                  self.expr(lam.body, {"self.openHandles[%s]['lastw']" % arg: 'lastw'}, 'sort key', boolean=False))
        rev = kw.get('reverse')
        if rev is not None and not (isinstance(rev, ast.Constant) and isinstance(rev.value, bool)):
            raise Untranslatable('prune: reverse= is not a boolean constant')
        self.emit(call, 'g_sort_descending', ': bool', 'true' if (rev is not None and rev.value) else 'false')
        # loop: close the handle (errors ignored) and pop the entry; nothing else (self.seen is not touched)
        if not (self.u(loop.iter) == vname and isinstance(loop.target, ast.Name) and not loop.orelse and len(loop.body) == 2):
            raise Untranslatable('prune: victim loop outside subset')
        x = loop.target.id
        self.closes_handle(loop.body[0], x, 'prune')
        if self.u(loop.body[1]) != 'self.openHandles.pop(%s)' % x:
            raise Untranslatable('prune: second statement of the victim loop is %s' % self.u(loop.body[1])[:80])
        self.emit(loop, 'g_prune_keeps_seen', ': bool', 'true', note='(the victim loop only closes the handle and pops the entry)')

    def closes_handle(self, st, x, what, allow_else_print=False):
        ok = (isinstance(st, ast.If) and self.u(st.test) == "'handle' in self.openHandles[%s]" % x and len(st.body) == 1
              and isinstance(st.body[0], ast.Try) and len(st.body[0].body) == 1
              and self.u(st.body[0].body[0]) == "self.openHandles[%s]['handle'].close()" % x
              and len(st.body[0].handlers) == 1 and [self.u(s) for s in st.body[0].handlers[0].body] == ['pass']
              and not st.body[0].orelse and not st.body[0].finalbody)
        if ok and st.orelse:
            ok = allow_else_print and all(self.is_print(s) for s in st.orelse)
        if not ok:
            raise Untranslatable('%s: handle closing statement outside subset (line %d)' % (what, st.lineno))

    # ---- close()
    def close(self):
        f = self.fn('close')
        body = self.nodoc(f)
        clears_seen = resets_ctr = False
        core = []
        for st in body:
            u = self.u(st)
            if u in ('self.seen.clear()', 'self.seen = set()'):
                clears_seen = True
            elif isinstance(st, ast.Assign) and self.u(st.targets[0]) == 'self.pruneIntervalCounter':
                resets_ctr = True
            else:
                core.append(st)
        if not (len(core) == 4 and self.u(core[0]).endswith('= self.openHandles.keys()') and isinstance(core[0].targets[0], ast.Name)
                and isinstance(core[1], ast.Assign) and self.u(core[1].value) == '[]'
                and isinstance(core[2], ast.For) and isinstance(core[3], ast.For)):
            raise Untranslatable('close: expected [keys, destroyed = [], for path in keys: ..., for d in destroyed: pop]')
        kname, dname = core[0].targets[0].id, core[1].targets[0].id
        l1, l2 = core[2], core[3]
        if not (self.u(l1.iter) == kname and isinstance(l1.target, ast.Name) and len(l1.body) == 2 and not l1.orelse):
            raise Untranslatable('close: first loop outside subset')
        x = l1.target.id
        self.closes_handle(l1.body[0], x, 'close', allow_else_print=True)
        if self.u(l1.body[1]) != '%s.append(%s)' % (dname, x):
            raise Untranslatable('close: first loop does not record every key')
        if not (self.u(l2.iter) == dname and isinstance(l2.target, ast.Name) and not l2.orelse
                and [self.u(s) for s in l2.body] == ['self.openHandles.pop(%s)' % l2.target.id]):
            raise Untranslatable('close: second loop does not pop every recorded key')
        self.emit(f, 'g_close_clears_seen', ': bool', 'true' if clears_seen else 'false')
        self.emit(f, 'g_close_resets_ctr', ': bool', 'true' if resets_ctr else 'false')


def regen_handles():
    gen_path = os.path.join(fw.COQ, 'Gen', 'GenHandles.v')
    try:
        g = _Gen(fw.REPO)
        g.init(); g.write(); g.prune(); g.close()
    except Exception:
        # fail closed: no stale kernel may be left for the proofs to build against
        for ext in ('.v', '.vo', '.vos', '.vok', '.glob'):
            try:
                os.remove(gen_path[:-2] + ext)
            except OSError:
                pass
        raise
    py2coq.write_gen(gen_path, '', g.chunks)
    return g.meta


def fa_consistent(ops):
    first = {}
    for pid, _s, fa in ops:
        if first.setdefault(pid, fa) != fa:
            return False
    return True


def expected_files(case, k, done=None):
    """python transcription of Model.expected: content of every file after the first k writes (or after the
    operations listed in done)"""
    init = {pid: c for pid, c in case['init']}
    out, started = dict(init), set()
    for pid, s, fa in (case['ops'][:k] if done is None else done):
        if pid not in started:
            started.add(pid)
            out[pid] = (init.get(pid, '') if fa else '')
        out[pid] += s
    return {pid: out.get(pid) for pid in case['univ']}


def can_fail_alone(sc, pid):
    """Model.script_can_fail_alone: can an open() of this path fail under the script while nothing is open"""
    return bool(sc.get('hard')) or pid in sc.get('perm', [])


def completed_ops(case, statuses):
    return [op for op, st in zip(case['ops'], statuses) if st == 0]


def script_good(case):
    sc = case['script']
    return not sc.get('hard') and not any(op[0] in sc.get('perm', []) for op in case['ops'])


def model_input(case, fixed=1):
    sc = case['script']
    return [fixed, case['maxHandles'], case['pruneEvery'],
            [sc.get('limit', 0), sc.get('soft', []), sc.get('hard', []), sc.get('perm', [])],
            [[pid, c] for pid, c in case['init']],
            [[pid, s, fa] for pid, s, fa in case['ops']],
            case['univ']]


def canon_trace(tr):
    """runs of consecutive close() calls are sorted (the order inside prune()/close() is immaterial)"""
    out, batch = [], []
    for e in tr:
        if e[0] == 1:
            batch.append(list(e))
        else:
            out += sorted(batch)
            batch = []
            out.append(list(e))
    return out + sorted(batch)


def canon_model(mv):
    (k, st), tr, opn, seen, ctr, files = mv
    return {'k': k, 'status': st, 'trace': canon_trace(tr), 'open': sorted(opn), 'seen': sorted(seen), 'ctr': ctr,
            'files': [[p, (fw.as_str(c[0]) if c else None)] for p, c in files]}


def canon_model_hist(mv):
    sts, tr, opn, _ghosts, seen, ctr, files, marks = mv
    return {'statuses': sts, 'trace': canon_trace(tr), 'marks': marks, 'open': sorted(opn), 'seen': sorted(seen), 'ctr': ctr,
            'files': [[p, (fw.as_str(c[0]) if c else None)] for p, c in files]}


def canon_impl_hist(r):
    """a history: one status per operation (0 returned, 1 OSError, 2 KeyError, 3 never returns, text otherwise); which
    entries a raise leaves in openHandles is not compared (internal) - what they cause later is (statuses)"""
    if r.get('error'):
        return {'error': r['error']}
    internal = isinstance(r['open'], list)
    return {'statuses': r['statuses'], 'trace': canon_trace(r['trace']), 'marks': r['marks'],
            'open': sorted(r['open']) if internal else None, 'seen': r['seen'] if internal else None,
            'ctr': r['ctr'] if internal else None, 'files': sorted(r['files'])}


def canon_impl(r):
    if r.get('error'):
        return {'error': r['error']}
    # openHandles / seen / pruneIntervalCounter are attributes of the object, not behaviour: the set of open paths is
    # compared without its order, and nothing is compared when a restructured class no longer exposes them (the trace of
    # OS calls, the outcome and the files are)
    internal = isinstance(r['open'], list)
    return {'k': r['k'], 'status': r['status'], 'trace': canon_trace(r['trace']),
            'open': sorted(r['open']) if internal else None, 'seen': r['seen'] if internal else None,
            'ctr': r['ctr'] if internal else None, 'files': sorted(r['files'])}


def first_diff(a, b):
    for key in ('error', 'k', 'status', 'statuses', 'files', 'open', 'seen', 'ctr', 'marks', 'trace'):
        if key in ('open', 'seen', 'ctr') and b.get(key) is None and 'error' not in b:
            continue
        if a.get(key) != b.get(key):
            x, y = a.get(key), b.get(key)
            if key == 'trace' and isinstance(x, list) and isinstance(y, list):
                for i, (u, v) in enumerate(itertools.zip_longest(x, y)):
                    if u != v:
                        return 'trace[%d]: model %r impl %r' % (i, u, v)
            if key == 'files' and isinstance(x, list) and isinstance(y, list):
                for u, v in itertools.zip_longest(x, y):
                    if u != v:
                        return 'file: model %r impl %r' % (u, v)
            return '%s: model %r impl %r' % (key, x, y)
    return None


def nontrivial(r):
    """the recovery branch or a re-open in append mode was exercised"""
    if r.get('error'):
        return False
    return any(e[0] == 0 and (e[4] == 0 or e[2] == 1) for e in r['trace'])


def continues_after_raise(r):
    """a history in which some operation raised and a later one was attempted"""
    sts = r.get('statuses') or []
    return any(st != 0 for st in sts[:-1])


def spec_violations_hist(case, r):
    """C19_hist_content / C19_hist_raise_only_if_hopeless / C19_hist_openable_never_raises / C19_hist_no_leak
    transcribed to python and evaluated on the implementation's outcome of a history that continues after a raise.
    returns [(key, text)] (first violation of each kind)"""
    if r.get('error'):
        return [('harness-error', 'the harness could not run the case: ' + r['error'])]
    v, have = [], set()

    def add(key, text):
        if key not in have:
            have.add(key)
            v.append((key, text))
    ops, sts, marks, sc = case['ops'], r['statuses'], r['marks'], case['script']
    raised = []     # indices of earlier calls that raised
    livelock = False
    for j, st in enumerate(sts):
        pid = ops[j][0]
        after = (' after write() call(s) %r had raised and the caller carried on' % (raised[:4],)) if raised else ''
        if st == 3 or (isinstance(st, str) and 'Livelock' in st):
            livelock = True
            add('livelock', 'write() call %d (path %r) never returns%s: open() keeps failing with no other handle open and the '
                'writer keeps retrying (more than 60 consecutive failed open() calls) instead of raising' % (j, pid, after))
        elif st not in (0, 1):
            name = 'KeyError' if st == 2 else st
            if raised:
                add('keyerror-after-raise' if st == 2 else 'other-exception-after-raise',
                    'write() call %d (path %r) raised %s%s; it may raise only the OSError of an open() of its own path that '
                    'failed with every other handle closed' % (j, pid, name, after))
            else:
                add('retry-keyerror' if st == 2 else 'other-exception',
                    'write() call %d (path %r) raised %s instead of retrying / re-raising the OSError' % (j, pid, name))
        elif st == 1:
            seg = r['trace'][(marks[j - 1] if j else 0):marks[j]]
            att = [e for e in seg if e[0] == 0]
            last = att[-1] if att else None
            if not (last and last[4] == 0 and last[3] == 0 and last[1] == pid):
                add('raise-not-hopeless', 'write() call %d (path %r) raised%s although its last open() was not a failure of '
                    'that path with every other handle closed (last open call of this write: %r)' % (j, pid, after, last))
            if not can_fail_alone(sc, pid):
                add('raise-under-good-script', 'write() call %d (path %r) raised%s although open() of that path never fails '
                    'with all other handles closed in this fault script' % (j, pid, after))
        if st != 0:
            raised.append(j)
    if len(sts) != len(ops) and not livelock:
        add('harness-error', 'only %d of %d operations have a result' % (len(sts), len(ops)))
    if fa_consistent(ops):
        done = completed_ops(case, sts)
        exp = expected_files(case, 0, done)
        got = {p: c for p, c in r['files']}
        for p in case['univ']:
            if got.get(p) != exp.get(p):
                add('content', 'file %r contains %r after close(); the completed writes to it (calls that returned), in order, '
                    'are %r; results of the calls: %r' % (p, got.get(p), exp.get(p), sts[:30]))
                break
    if r['read_errors']:
        add('invalid-file', '; '.join(r['read_errors'][:2]))
    if r['leaked']:
        add('leak', '%d descriptor(s) still open after close()' % r['leaked'])
    if r['close_error']:
        add('close-raised', 'close() raised ' + r['close_error'])
    if r.get('seen_foreign'):
        add('state-shared', 'self.seen of a new writer already contains paths it never wrote (state shared between '
            'instances): %r' % (r['seen_foreign'],))
    if r['unknown_paths']:
        add('foreign-path', 'opened a path that no write named: %r' % r['unknown_paths'])
    return v


def spec_violations(case, r):
    """the theorem statements (C19_content / C19_prefix / C19_raise_only_if_hopeless) transcribed to
    python and evaluated on the implementation's outcome only.  returns [(key, text)]"""
    if case.get('cont'):
        return spec_violations_hist(case, r)
    if r.get('error'):
        return [('harness-error', 'the harness could not run the case: ' + r['error'])]
    v = []
    k, ops = r['k'], case['ops']
    if r['status'] == 3 or (isinstance(r['status'], str) and 'Livelock' in r['status']):
        v.append(('livelock', 'write() call %d (path %r) never returns: open() keeps failing with no other handle open and the '
                  'writer keeps retrying (more than 60 consecutive failed open() calls) instead of raising'
                  % (k, ops[k][0] if k < len(ops) else None)))
    elif r['status'] not in (0, 1):
        kind = 'retry-keyerror' if r['status'] == 2 else 'other-exception'
        v.append((kind, 'write() call %d (path %r) raised %s instead of retrying / re-raising the OSError'
                  % (k, ops[k][0] if k < len(ops) else None, 'KeyError' if r['status'] == 2 else r['status'])))
    if r['status'] != 0 and k < len(ops):
        att = [e for e in r['trace'] if e[0] == 0]
        # trace after the raise contains only the close() calls of the final close()
        last = att[-1] if att else None
        if not (last and last[4] == 0 and last[3] == 0 and last[1] == ops[k][0]):
            v.append(('raise-not-hopeless', 'write() call %d raised although the last open() of that path was not '
                      'a failure with every other handle closed (last open call: %r)' % (k, last)))
    if r['status'] == 0 and k != len(ops):
        v.append(('harness-error', 'no exception but only %d of %d calls completed' % (k, len(ops))))
    if script_good(case) and r['status'] != 0:
        v.append(('raise-under-good-script', 'write() call %d raised although open() never fails with all other '
                  'handles closed in this fault script' % k))
    if fa_consistent(ops[:k]):
        exp = expected_files(case, k)
        got = {p: c for p, c in r['files']}
        for p in case['univ']:
            if got.get(p) != exp.get(p):
                v.append(('content', 'file %r contains %r after close(); the writes to it, in order, are %r'
                          % (p, got.get(p), exp.get(p))))
                break
    if r['read_errors']:
        v.append(('invalid-file', '; '.join(r['read_errors'][:2])))
    if r['leaked']:
        v.append(('leak', '%d descriptor(s) still open after close()' % r['leaked']))
    if r['close_error']:
        v.append(('close-raised', 'close() raised ' + r['close_error']))
    if r.get('seen_foreign'):
        v.append(('state-shared', 'self.seen of a new writer already contains paths it never wrote (state shared between '
                  'instances): %r' % (r['seen_foreign'],)))
    if r['unknown_paths']:
        v.append(('foreign-path', 'opened a path that no write named: %r' % r['unknown_paths']))
    return v


def fastq_as_case(fc, res):
    """the HandleLimiter-level case a FastqHandle run amounts to (strings = str(record) as reported)"""
    ops = []
    if fc.get('cont'):
        # a continuing history: the operations are the HandleLimiter.write calls FastqHandle actually made (the R2 call of a
        # pair whose R1 call raised is never made)
        cfg = res.get('cfg', {'maxHandles': fc['maxHandles'], 'pruneEvery': 10000})
        return {'maxHandles': cfg['maxHandles'], 'pruneEvery': cfg['pruneEvery'], 'script': fc['script'], 'init': [],
                'ops': [[pid, s, 0] for pid, s in res.get('calls', [])], 'plain': [], 'univ': sorted(fc['names'].values()), 'cont': 1}
    for pair, strs in zip(fc['pairs'], res.get('strings', [])):
        for (tags, _s, _q), R, s in zip(pair, ('R1', 'R2'), strs):
            t = dict(tags)
            fn = '%s.%s.%s.%s.fastq.gz' % (fc['prefix'], t.get('bi', 'no_cell_id'), t.get('MX', 'unk'), R)
            ops.append([fc['names'][fn], s, 0])
    cfg = res.get('cfg', {'maxHandles': fc['maxHandles'], 'pruneEvery': 10000})
    return {'maxHandles': cfg['maxHandles'], 'pruneEvery': cfg['pruneEvery'], 'script': fc['script'], 'init': [],
            'ops': ops, 'plain': [], 'univ': sorted(fc['names'].values())}


def bam_expected(res):
    """per sanitised tag value: the ids of the reads carrying it, in input order"""
    exp = {}
    for i, v in enumerate(res['san']):
        if v is not None:
            exp.setdefault(v, []).append(i)
    return exp


def bam_violations(case, res):
    """C19_bamsplit / C19_bamsplit_handles transcribed, evaluated on the implementation's outcome"""
    if res.get('error'):
        return [('harness-error', 'the harness could not run the case: ' + res['error'])]
    v = []
    exp = bam_expected(res)
    if case['max_handles'] >= 1 or not exp:
        if res['status'] != 0:
            v.append(('bamsplit-no-termination' if res['status'] == 'livelock' else 'bamsplit-raised',
                      'the split loop did not complete: %s' % res['status']))
        else:
            if res['files'] != exp:
                bad = sorted(k for k in set(exp) | set(res['files']) if exp.get(k) != res['files'].get(k))[:3]
                v.append(('bamsplit-content', 'output files differ from the reads per tag value: ' + '; '.join(
                    '%s.bam holds reads %r, the input has %r' % (k, res['files'].get(k), exp.get(k)) for k in bad)))
            if res['done'] != sorted(exp):
                v.append(('bamsplit-done', 'values reported done %r, values present %r' % (res['done'], sorted(exp))))
    if res['max_open'] > max(0, case['max_handles']):
        v.append(('bamsplit-handles', '%d output files open at once, max_handles=%d' % (res['max_open'], case['max_handles'])))
    if res.get('still_open'):
        v.append(('bamsplit-leak', '%d output files never closed' % res['still_open']))
    return v


class Prop(fw.PropBase):
    ID = 'C19'
    PROPS = 'Props/C19.v'
    TRUSTED = [
        'modelled not verified: the file system and the operating system (a path maps to the content visible after '
        'close(); open(w) creates/truncates, open(a) creates/keeps, write appends, a failed open has no effect); '
        'buffering, gzip framing (concatenated members read back as the concatenation - checked by reading every file '
        'back with gzip in K) and UTF-8 encoding are outside the model',
        'modelled not verified: OS faults are a function of (index of the open() call, path, descriptors currently '
        'open) and not of the kind of failure: K injects OSError with errno EMFILE / ENFILE / EINTR / EAGAIN / ENOMEM / EACCES '
        'and an OSError without errno, in rotation per fault script (the oracle is errno-agnostic, as the code must be); '
        'write()/close() of an opened handle never fail (disk full is out of scope); time.time() is strictly '
        'increasing between writes (logical clock; the harness substitutes one)',
        'T: the recognisers of tools/c19.py regen_handles (statement shapes of __init__/write/prune/close -> Gen/GenHandles.v, '
        'fail closed) and py2coq for the translated tests; everything of write() outside the generated decisions (loop '
        'structure, the dictionary operations, handle.write) is tied by K only',
        'K harness: tools/impl_c19.py replaces gzip.open, handlelimiter.open and handlelimiter.time for the duration '
        'of a case; real descriptor exhaustion is exercised only in the rlimit cases (RLIMIT_NOFILE lowered)',
        'the model is the REPAIRED retry path (fixes/C19-D27.patch); Model fixed:=false is the code as found and is '
        'proved to fail (C19_unrepaired_refuted)',
        'histories that continue after a raise (Model/C19x.v): modelled - the state a raise leaves behind (openHandles entries '
        'with and without a handle, seen, counter, files), with the decision whether the placeholder entry is removed before '
        'the re-raise regenerated from the source (g_giveup_drops_placeholder; fixes/C19-D33.patch makes it true, the kernel '
        'with drops:=false is the code as found and is proved to fail: C19_D33_unrepaired_refuted / _loses_record). The '
        'harness plays the caller: it catches every exception of write() and continues with the same object; exceptions that '
        'are not Exception subclasses and callers that re-use the writer after close() are outside the model',
        'bamSplitByTag.py does not use HandleLimiter: it bounds the open writers by splitting in several passes. Modelled: '
        'split_bam_by_tag with head=None and the loop of the __main__ block (located in the AST and executed by the '
        'harness); outside the model: pysam BAM reading/writing, get_valid_filename (the model works on the sanitised '
        'values the real function returns), indexing of the outputs (multiprocessing.Pool replaced by a serial stand-in)',
    ]
    ASSUMPTIONS = [
        'an open() succeeds whenever no other handle of the writer is open (otherwise the call raises - '
        'C19_raise_only_if_hopeless - and the files hold exactly the completed writes - C19_prefix; a caller that catches the '
        'OSError may go on writing: C19_hist_*)',
        'forceAppend is used consistently per path (FastqHandle never passes it); first write of a path without '
        'forceAppend truncates a pre-existing file by design',
        'method is 0 (plain) or 1 (gzip) and constant per path; method=None opens in text mode and then writes bytes '
        '(TypeError) - not used by the package',
        'one writer per path and per process (no concurrent writers to the same files)',
        'bamSplitByTag: max_handles >= 1 (with max_handles <= 0 and a tagged read the loop never ends - '
        'C19_bamsplit_needs_a_handle) and -head not given',
    ]

    def regen(self):
        return regen_handles()

    # ---------------------------------------------------------------- generators
    def rand_string(self, i, pid, rng=None):
        rng = rng or self.rng
        r = rng.random()
        if r < 0.04:
            return ''
        if r < 0.5:
            return 'r%dp%d\n' % (i, pid)
        n = rng.randint(1, 12)
        return '%d:' % i + ''.join(rng.choice(CHARS) for _ in range(n))

    def rand_exc(self, rng=None):
        """kinds of the injected open() failures, used in rotation (the model's oracle does not see them)"""
        rng = rng or self.rng
        r = rng.random()
        if r < 0.3:
            return ['EMFILE']
        if r < 0.6:
            return [rng.choice(EXC_KINDS[1:])]
        return [rng.choice(EXC_KINDS) for _ in range(rng.randint(2, 4))]

    def gen_case(self, big=False, rng=None):
        rng = rng or self.rng
        npaths = rng.choice([1, 2, 3, 3, 4, 5, 6, 8, 12]) if not big else rng.choice([30, 60, 120, 200])
        nops = rng.randint(1, 40) if not big else rng.randint(150, 500)
        pids = rng.sample(range(1, 400), npaths)
        plain = [p for p in pids if rng.random() < 0.2]
        ops = []
        mode = rng.random()
        fa_of = {p: (1 if (mode > 0.8 and rng.random() < 0.5) else 0) for p in pids}
        hot = pids[:max(1, npaths // 3)]
        for i in range(nops):
            pid = rng.choice(hot) if rng.random() < 0.3 else rng.choice(pids)
            fa = fa_of[pid]
            if mode > 0.93 and rng.random() < 0.3:
                fa = 1 - fa   # inconsistent forceAppend: outside the theorem, model and code must still agree
            ops.append([pid, self.rand_string(i, pid, rng), fa])
        init = [[p, 'old%d\n' % p] for p in pids if rng.random() < 0.25]
        extra = [p for p in rng.sample(range(400, 420), 2)]
        if rng.random() < 0.3:
            init.append([extra[0], 'untouched\n'])
        natt = nops + 5
        sc = {'limit': rng.choice([0, 0, 1, 1, 2, 2, 3, 4, 5, 8]) if not big else rng.choice([1, 2, 5, 17, 50]),
              'soft': sorted(rng.sample(range(natt), rng.choice([0, 0, 1, 2, 3, min(8, natt)]))),
              'hard': sorted(rng.sample(range(natt), rng.choice([0, 0, 0, 0, 1, 2]))),
              'perm': [rng.choice(pids)] if rng.random() < 0.12 else [],
              'exc': self.rand_exc(rng)}
        return {'maxHandles': rng.choice([1, 1, 2, 2, 3, 4, 4, 0, 5, 32]) if not big else rng.choice([1, 4, 16, 64, 500]),
                'pruneEvery': rng.choice([1, 1, 2, 3, 4, 5, 5, 7, 0, 10000]) if not big else rng.choice([1, 5, 50, 10000]),
                'script': sc, 'init': init, 'ops': ops, 'plain': plain,
                'univ': sorted(set(pids) | set(extra))}

    # ---- histories that continue after a raise
    def cont_rng(self):
        """a second PRNG for the continuing-history stream, derived from (not consuming) the state of the main one, so that
        the stop-at-first-raise stream of a seed stays what it was and every fallback pass still gets a fresh stream"""
        import random
        return random.Random('C19x:%r' % (self.rng.getstate()[1][:6],))

    def gen_cont_case(self, rng, big=False):
        """a write sequence whose caller catches what write() raises and carries on: permanent failure of one (or two)
        of several paths, transient failures that hit an open() made with nothing else open, EMFILE limits, mixtures"""
        c = self.gen_case(big=big, rng=rng)
        c['cont'] = 1
        pids = sorted(set(o[0] for o in c['ops']))
        nops = len(c['ops'])
        sc = c['script']
        kind = rng.random()
        if kind < 0.45:
            # permanent failure of one path among several (the quantifier's third fault class), often a busy one
            hot = c['ops'][rng.randrange(nops)][0]
            sc['perm'] = sorted(set([hot] + ([rng.choice(pids)] if rng.random() < 0.25 else [])))
            sc['hard'] = []
            if rng.random() < 0.5:
                sc['soft'] = []
        elif kind < 0.75:
            # transient failures: indices of open() calls that fail whatever is open (one or a short burst, so that the
            # retry made after close() fails as well)
            first = rng.randrange(max(1, min(nops, 12)))
            burst = rng.choice([1, 1, 2, 2, 3])
            extra = rng.sample(range(nops + 5), rng.choice([0, 0, 1, 2]))
            sc['hard'] = sorted(set(list(range(first, first + burst)) + extra))
            sc['perm'] = [rng.choice(pids)] if rng.random() < 0.2 else []
        elif kind < 0.9:
            # EMFILE limit 1/2 (every second path needs the recovery) with one dead path
            sc['limit'] = rng.choice([1, 1, 2, 3])
            sc['perm'] = [rng.choice(pids)]
            sc['hard'] = []
        # else: whatever gen_case drew (includes scripts under which nothing raises)
        if rng.random() < 0.5:
            # prune() on (nearly) every write with a small limit: where a stale entry would be met
            c['maxHandles'] = rng.choice([0, 1, 1, 2])
            c['pruneEvery'] = rng.choice([1, 1, 2, 3])
        return c

    def exhaustive_cont_cases(self):
        """continuing histories: all write sequences of length <= L on 3 paths (up to renaming) x fault scripts with a
        fault that can make a write raise (a dead path / a failing open() call index) plus at most one more fault x
        EMFILE limit 0/1/2 x small configurations"""
        thorough = self.tier == 'thorough'
        L = 5 if thorough else 4
        cfgs = [(1, 1), (1, 2), (2, 1), (2, 3)] if thorough else [(1, 1), (2, 2)]
        primary = [('perm', 1), ('perm', 2), ('perm', 3)] + [('hard', i) for i in range(4)]
        secondary = [None] + [('soft', i) for i in range(4)] + [('hard', i) for i in range(1, 5)] + [('perm', 2), ('perm', 3)]
        scripts = []
        for limit in (0, 1, 2):
            for a in primary:
                for b in secondary:
                    if b is not None and (b == a or (b[0] == a[0] and b[1] < a[1])):
                        continue
                    sc = {'limit': limit, 'soft': [], 'hard': [], 'perm': []}
                    for kind, i in (a,) + ((b,) if b else ()):
                        sc[kind].append(i)
                    scripts.append(sc)
        if not thorough:
            scripts = [s for j, s in enumerate(scripts) if j % 5 == 0]
        out = []
        for n in range(2, L + 1):
            for seq in itertools.product((1, 2, 3), repeat=n):
                if seq[0] != 1 or any(seq[j] > max(seq[:j]) + 1 for j in range(1, n)):
                    continue
                ops = [[p, '%d%s' % (i, 'abc'[p - 1]), 0] for i, p in enumerate(seq)]
                for (mh, pe) in cfgs:
                    for sc in scripts:
                        if any(p > max(seq) for p in sc['perm']):
                            continue    # the dead path is not written
                        sc = dict(sc, exc=[EXC_KINDS[len(out) % len(EXC_KINDS)], EXC_KINDS[(len(out) // 7) % len(EXC_KINDS)]])
                        out.append({'maxHandles': mh, 'pruneEvery': pe, 'script': sc, 'init': [[1, 'old']],
                                    'ops': ops, 'plain': [3], 'univ': [1, 2, 3], 'cont': 1})
        return out

    def exhaustive_cases(self):
        """all write sequences of length <= L on 3 paths x fault scripts of <= 2 faults x small configurations"""
        L = 5 if self.tier == 'thorough' else 4
        cfgs = [(1, 1), (1, 2), (2, 1), (2, 3)] if self.tier == 'thorough' else [(1, 1), (2, 2)]
        scripts = []
        faults = [('soft', i) for i in range(4)] + [('hard', i) for i in range(3)] + [('perm', 1)]
        for limit in (0, 1, 2):
            for nf in (0, 1, 2):
                for fs in itertools.combinations(faults, nf):
                    sc = {'limit': limit, 'soft': [], 'hard': [], 'perm': []}
                    for kind, i in fs:
                        sc[kind].append(i)
                    scripts.append(sc)
        if self.tier != 'thorough':
            scripts = [s for j, s in enumerate(scripts) if j % 3 == 0]
        out = []
        for n in range(1, L + 1):
            for seq in itertools.product((1, 2, 3), repeat=n):
                if seq[0] != 1 or any(seq[j] > max(seq[:j]) + 1 for j in range(1, n)):
                    continue  # canonical up to renaming of paths (first occurrences in order 1,2,3)
                ops = [[p, '%d%s' % (i, 'abc'[p - 1]), 0] for i, p in enumerate(seq)]
                for (mh, pe) in cfgs:
                    for sc in scripts:
                        sc = dict(sc, exc=[EXC_KINDS[len(out) % len(EXC_KINDS)], EXC_KINDS[(len(out) // 7) % len(EXC_KINDS)]])
                        out.append({'maxHandles': mh, 'pruneEvery': pe, 'script': sc, 'init': [[1, 'old']],
                                    'ops': ops, 'plain': [3], 'univ': [1, 2, 3]})
        return out

    def fastq_cases(self, rng=None, cont=False):
        """cont: the caller catches what FastqHandle.write raises and carries on; the files of one or two cells can never be
        opened (second PRNG, see cont_rng)"""
        rng = rng or self.rng
        out = []
        n = (2 if self.tier == 'quick' else 10) if cont else (3 if self.tier == 'quick' else 12)
        for j in range(n):
            long = (j == 0) and not cont  # one case crosses the default pruneEvery=10000 of FastqHandle's limiter
            ncells = rng.choice([40, 70]) if long else rng.choice([2, 5, 12, 30])
            npairs = 5200 if long else rng.randint(5, 120)
            cells = ['c%d' % i for i in range(ncells)]
            pairs, names = [], {}
            prefix = 'demultiplexed'
            for i in range(npairs):
                bi = rng.choice(cells) if rng.random() > 0.05 else None
                mx = 'NLA' if rng.random() > 0.05 else None
                tags = ([['bi', bi]] if bi is not None else []) + ([['MX', mx]] if mx is not None else [])
                tags.append(['RN', str(i)])
                pair = []
                for R in ('R1', 'R2'):
                    ln = rng.randint(1, 30)
                    pair.append([tags, ''.join(rng.choice('ACGT') for _ in range(ln)), 'I' * ln])
                    fn = '%s.%s.%s.%s.fastq.gz' % (prefix, bi if bi is not None else 'no_cell_id',
                                                   mx if mx is not None else 'unk', R)
                    names.setdefault(fn, len(names) + 1)
                pairs.append(pair)
            sc = {'limit': rng.choice([0, 3, 7, 20]) if not long else rng.choice([11, 25]),
                  'soft': sorted(rng.sample(range(npairs), min(npairs, rng.choice([0, 2, 5])))), 'hard': [], 'perm': [],
                  'exc': self.rand_exc(rng)}
            fc = {'prefix': prefix, 'maxHandles': rng.choice([1, 2, 8, 500]) if not long else 8,
                  'script': sc, 'pairs': pairs, 'names': names}
            if cont:
                fc['cont'] = 1
                sc['perm'] = sorted(rng.sample(sorted(names.values()), min(len(names), rng.choice([1, 1, 2]))))
                if rng.random() < 0.5:
                    sc['hard'] = sorted(rng.sample(range(2 * npairs), min(2 * npairs, rng.choice([1, 2]))))
            out.append(fc)
        return out

    def bamsplit_cases(self):
        rng = self.rng
        out = [{'max_handles': 2, 'reads': ['a', 'b', None, 'a', 'c d', 'b', "c'_d", 'c_d']},
               {'max_handles': 0, 'reads': ['a']}, {'max_handles': 0, 'reads': [None, None]},
               {'max_handles': 1, 'reads': []}, {'max_handles': -1, 'reads': ['x', 'y']}]
        for j in range(25 if self.tier == 'quick' else 300):
            nv = rng.choice([1, 2, 3, 5, 9, 30])
            vals = ['cell%d' % i for i in range(nv)]
            if rng.random() < 0.3:
                vals += ['cell 0', "cell'1", 'x/y', 7]
            n = rng.randint(0, 60) if nv < 30 else rng.randint(60, 250)
            reads = [rng.choice(vals) if rng.random() > 0.1 else None for _ in range(n)]
            out.append({'max_handles': rng.choice([1, 1, 2, 3, 4, 10, 400]), 'reads': reads})
        return out

    def rlimit_cases(self):
        rng = self.rng
        out = []
        for j in range(2 if self.tier == 'quick' else 8):
            c = self.gen_case(big=True)
            c['script'] = {'limit': 0, 'soft': [], 'hard': [], 'perm': []}
            c['maxHandles'] = rng.choice([64, 500])
            c['pruneEvery'] = rng.choice([10000, 100])
            c['headroom'] = rng.choice([4, 9, 20])
            out.append(c)
        return out

    def all_cases(self):
        quick = self.tier == 'quick'
        corpus = []
        cdir = os.path.join(fw.VERIF, 'corpus', 'C19')
        if os.path.isdir(cdir):
            import json
            for f in sorted(os.listdir(cdir)):
                if f.endswith('.json'):
                    corpus.append(json.load(open(os.path.join(cdir, f)))['case'])
        xr = self.cont_rng()
        rnd = [self.gen_case() for _ in range(2500 if quick else 20000)]
        big = [self.gen_case(big=True) for _ in range(6 if quick else 60)]
        exh = self.exhaustive_cases()
        crnd = [self.gen_cont_case(xr) for _ in range(1200 if quick else 12000)] + \
               [self.gen_cont_case(xr, big=True) for _ in range(3 if quick else 30)]
        cexh = self.exhaustive_cont_cases()
        return corpus, rnd, big, exh, crnd, cexh

    # ---------------------------------------------------------------- K
    def run_everything(self):
        corpus, rnd, big, exh, crnd, cexh = self.all_cases()
        cases = corpus + rnd + big + exh + crnd + cexh
        fq, rl = self.fastq_cases(), self.rlimit_cases()
        fq = fq + self.fastq_cases(rng=self.cont_rng(), cont=True)
        # the implementation runner is started on chunks of the cases, three processes at a time (each has its own scratch
        # directory, fault injector and descriptor limit), next to the FastqHandle / rlimit / bamSplitByTag batch
        from concurrent.futures import ThreadPoolExecutor
        chunk = 4000 if len(cases) > 12000 else max(1, -(-len(cases) // 3))
        res = {'cases': [], 'fastq': [], 'rlimit': []}
        with ThreadPoolExecutor(max_workers=3) as ex:
            futs = [ex.submit(fw.run_impl, 'impl_c19.py', {'cases': cases[a:a + chunk]}) for a in range(0, len(cases), chunk)]
            bs = self.bamsplit_cases()
            part = fw.run_impl('impl_c19.py', {'fastq': fq, 'rlimit': rl, 'bamsplit': bs})
            for f in futs:
                res['cases'] += f.result()['cases']
        res['fastq'], res['rlimit'] = part['fastq'], part['rlimit']
        self.bruns = list(zip(bs, part['bamsplit']))
        self.fastq_inputs = fq
        # every run as (label, HandleLimiter-level case, impl result)
        runs = [('limiter', c, r) for c, r in zip(cases, res['cases'])]
        for fc, r in zip(fq, res['fastq']):
            runs.append(('fastq', fastq_as_case(fc, r) if not r.get('error') else None, r))
        for c, r in zip(rl, res['rlimit']):
            c2 = dict(c)
            if not r.get('error'):
                c2['script'] = {'limit': r['avail'], 'soft': [], 'hard': [], 'perm': []}
            runs.append(('rlimit', c2, r))
        self.runs = runs
        self.sizes = {'corpus': len(corpus), 'random': len(rnd), 'large': len(big), 'exhaustive_small': len(exh),
                      'continuing_random': len(crnd), 'continuing_exhaustive_small': len(cexh),
                      'fastq_end_to_end': len(fq), 'fastq_end_to_end_continuing': sum(1 for f in fq if f.get('cont')),
                      'real_rlimit': len(rl), 'bamSplitByTag': len(bs)}
        return runs

    def correspondence(self):
        runs = self.run_everything()
        ok_runs = [(l, c, r) for l, c, r in runs if c is not None]
        nt = set()
        h_paths, h_mh, h_pe, h_lim, h_status, h_exc = {}, {}, {}, {}, {}, {}
        n_fail_open = n_reopen = n_recover = good = 0
        n_cont = n_cont_raise = n_ops_after_raise = n_ok_after_raise = n_raises = n_reraise_same = n_openable_after = 0
        cont_nt = set()
        h_raises = {}

        def bump(h, k):
            h[str(k)] = h.get(str(k), 0) + 1
        for l, c, r in ok_runs:
            if nontrivial(r):
                nt.add(fw.canon_hash([l, model_input(c)]))
            np_ = len(set(o[0] for o in c['ops']))
            bump(h_paths, '1' if np_ == 1 else '2-3' if np_ <= 3 else '4-12' if np_ <= 12 else '13-60' if np_ <= 60 else '61-200')
            bump(h_mh, c['maxHandles']); bump(h_pe, c['pruneEvery']); bump(h_lim, c['script'].get('limit', 0))
            for kind in set(c['script'].get('exc') or ['EMFILE']):
                bump(h_exc, kind)
            if c.get('cont') and not r.get('error'):
                n_cont += 1
                sts = r['statuses']
                nr = sum(1 for x in sts if x != 0)
                bump(h_raises, nr if nr < 4 else '4+')
                n_raises += nr
                if continues_after_raise(r):
                    n_cont_raise += 1
                    cont_nt.add(fw.canon_hash([l, model_input(c)]))
                    first = next(i for i, x in enumerate(sts) if x != 0)
                    n_ops_after_raise += len(sts) - first - 1
                    n_ok_after_raise += sum(1 for x in sts[first + 1:] if x == 0)
                    dead = set()
                    for (pid, _s, _fa), x in zip(c['ops'], sts):
                        if x != 0:
                            n_reraise_same += pid in dead
                            dead.add(pid)
                        elif dead and not can_fail_alone(c['script'], pid):
                            n_openable_after += 1
            if not r.get('error'):
                bump(h_status, ('history: no raise' if all(x == 0 for x in r['statuses']) else
                                'history: raises, all OSError' if all(x in (0, 1) for x in r['statuses']) else
                                'history: raised other') if c.get('cont') else
                     {0: 'completed', 1: 'raised OSError'}.get(r['status'], 'raised other'))
                n_fail_open += sum(1 for e in r['trace'] if e[0] == 0 and e[4] == 0)
                n_reopen += sum(1 for e in r['trace'] if e[0] == 0 and e[4] == 1 and e[2] == 1)
                n_recover += sum(1 for i, e in enumerate(r['trace']) if e[0] == 0 and e[4] == 0 and e[3] > 0)
            if script_good(c) and fa_consistent(c['ops']):
                good += 1
        self.cov.update({
            'evaluations': len(runs) + len(self.bruns),
            'distinct_nontrivial': len(nt),
            'rule': 'a run = one HandleLimiter (or FastqHandle single_cell) life: write sequence x maxHandles x pruneEvery x '
                    'fault script x pre-existing files; non-trivial = at least one open() failed or one file was re-opened '
                    'in append mode; distinct by hash of the whole case',
            'case_groups': self.sizes,
            'histogram_distinct_paths': h_paths, 'histogram_maxHandles': h_mh, 'histogram_pruneEvery': h_pe,
            'histogram_emfile_limit': h_lim, 'histogram_injected_exception_kinds': h_exc, 'histogram_outcome': h_status,
            'open_calls_failed': n_fail_open, 'reopens_in_append_mode': n_reopen,
            'recoveries_close_all_and_retry': n_recover,
            'precondition_hit_rate': round(good / max(1, len(ok_runs)), 4),
            'continuing_histories': {
                'runs': n_cont, 'runs_with_a_raise_followed_by_more_writes': n_cont_raise,
                'distinct_such_runs': len(cont_nt), 'raises': n_raises, 'histogram_raises_per_history': h_raises,
                'operations_attempted_after_a_first_raise': n_ops_after_raise,
                'of_which_completed': n_ok_after_raise,
                'completed_writes_to_openable_paths_after_a_raise': n_openable_after,
                'repeated_raises_for_the_same_path': n_reraise_same,
                'rule': 'case["cont"] = 1: the harness catches what write() raises and continues with the same HandleLimiter; '
                        'compared with Model/C19x.v (statuses, per-operation OS calls, files)'},
            'exhaustive': False,
            'exhaustive_small_scope': 'inside the sampled run: all write sequences (up to renaming of paths) of length <= %d on 3 '
                                      'paths x %s fault scripts with <= 2 faults x EMFILE limit 0/1/2 x %d configurations'
                                      % ((5, 'all', 4) if self.tier == 'thorough' else (4, 'every third of the', 2)),
            'exhaustive_small_scope_continuing': 'continuing histories, inside the sampled run: all write sequences (up to renaming of '
                                                 'paths) of length 2..%d on 3 paths x %s fault scripts made of one fault that can make a '
                                                 'write raise (dead path 1/2/3 or failing open() call 0..3) and at most one more fault x '
                                                 'EMFILE limit 0/1/2 x %d configurations'
                                                 % ((5, 'all', 4) if self.tier == 'thorough' else (4, 'every fifth of the', 2)),
            'samples': [{'case': {k: v for k, v in c.items()}, 'impl': {k: r.get(k) for k in ('k', 'status', 'trace', 'files')}}
                        for l, c, r in ok_runs[len(ok_runs) // 3: len(ok_runs) // 3 + 2] if len(c['ops']) < 15][:2],
        })
        harness_err = [r['error'] for l, c, r in runs if r.get('error')] + [r['error'] for c, r in self.bruns if r.get('error')]
        if harness_err:
            raise fw.Broken('correspondence', 'implementation runner failed on %d cases; first: %s' % (len(harness_err), harness_err[0]))
        if not self.model_ok:
            return
        stop_i = [i for i, (l, c, r) in enumerate(ok_runs) if not c.get('cont')]
        cont_i = [i for i, (l, c, r) in enumerate(ok_runs) if c.get('cont')]
        mouts = [None] * len(ok_runs)
        for i, mv in zip(stop_i, fw.run_model('C19', 0, [model_input(ok_runs[i][1]) for i in stop_i])):
            mouts[i] = mv
        for i, mv in zip(cont_i, fw.run_model('C19', 4, [model_input(ok_runs[i][1]) for i in cont_i])):
            mouts[i] = mv
        dis = []
        for (l, c, r), mv in zip(ok_runs, mouts):
            if c.get('cont'):
                d = first_diff(canon_model_hist(mv), canon_impl_hist(r))
            else:
                d = first_diff(canon_model(mv), canon_impl(r))
            if d:
                dis.append({'entry': l, 'case': c, 'diff': d})
        # bamSplitByTag: model mode 3 on the sanitised tag values
        bin_, bmaps = [], []
        for c, r in self.bruns:
            ids = {}
            for v in r['san']:
                if v is not None:
                    ids.setdefault(v, len(ids) + 1)
            bmaps.append(ids)
            bin_.append([c['max_handles'], [[[ids[v]] if v is not None else [], i] for i, v in enumerate(r['san'])],
                         sorted(ids.values())])
        bout = fw.run_model('C19', 3, bin_)
        for (c, r), ids, mv in zip(self.bruns, bmaps, bout):
            inv = {i: v for v, i in ids.items()}
            if mv == [0]:
                mcanon = {'status': 'livelock'}
            else:
                mcanon = {'status': 0, 'done': sorted(inv[i] for i in mv[1]), 'passes': mv[2],
                          'files': {inv[p]: c0[0] for p, c0 in mv[3] if c0}}
            icanon = {'status': r['status']} if r['status'] != 0 else \
                {'status': 0, 'done': r['done'], 'passes': r['passes'], 'files': r['files']}
            if mcanon != icanon:
                dis.append({'entry': 'bamSplitByTag', 'case': c, 'diff': 'model %r impl %r' % (mcanon, icanon)})
        self.cov['bamsplit_runs_compared'] = len(self.bruns)
        self.cov['bamsplit_multi_pass_runs'] = sum(1 for c, r in self.bruns if r.get('passes', 0) > 1)
        # the boolean specification of the theorem (Model.specb, mode 2) on the implementation's outcome
        def obs_files(r):
            return [[p, ([s] if s is not None else [])] for p, s in r['files']]
        sb = fw.run_model('C19', 2, [model_input(ok_runs[i][1]) + [ok_runs[i][2]['k'], obs_files(ok_runs[i][2])] for i in stop_i])
        pre = fw.run_model('C19', 1, [model_input(ok_runs[i][1]) for i in stop_i])
        spec_false = [i for i, v, pv in zip(stop_i, sb, pre) if v != 1 and pv[1] == 1]
        self.cov['specb_on_impl_outputs'] = {'evaluated': len(sb), 'false': len(spec_false)}
        # Model.spec_histb (mode 5) on the implementation's histories; statuses outside {0, 1} are sent as 9 (= not EOS)
        hb = fw.run_model('C19', 5, [model_input(ok_runs[i][1]) + [[x if x in (0, 1, 2, 3) else 9 for x in ok_runs[i][2]['statuses']],
                                                                    obs_files(ok_runs[i][2])] for i in cont_i])
        hist_false = [i for i, v in zip(cont_i, hb) if v[0] != 1 and v[1] == 1]
        self.cov['spec_histb_on_impl_histories'] = {'evaluated': len(hb), 'false': len(hist_false)}
        spec_false += hist_false
        self.cov['traces_validated_against_impl'] = len(ok_runs)
        self.cov['disagreements'] = len(dis)
        small = [i for i, (l, c, r) in enumerate(ok_runs) if len(c['ops']) <= 45 and not c.get('cont')]
        idx = sorted(self.rng.sample(small, min(100, len(small))))
        okv, nm, log = fw.vm_crosscheck('C19', 0, [(model_input(ok_runs[i][1]), mouts[i]) for i in idx])
        self.cov['vm_compute_crosscheck'] = {'cases': len(idx), 'mismatches': nm}
        if okv:
            xr = self.cont_rng()
            csmall = [i for i in cont_i if len(ok_runs[i][1]['ops']) <= 45 and continues_after_raise(ok_runs[i][2])] or cont_i
            cidx = sorted(xr.sample(csmall, min(100, len(csmall))))
            okv, nmc, log = fw.vm_crosscheck('C19', 4, [(model_input(ok_runs[i][1]), mouts[i]) for i in cidx],
                                             run_name='run_C19x', require='Model.C19x')
            self.cov['vm_compute_crosscheck_histories'] = {'cases': len(cidx), 'mismatches': nmc}
        if okv:
            bsmall = [i for i, b in enumerate(bin_) if len(b[1]) <= 60][:20]
            okv, nm2, log = fw.vm_crosscheck('C19', 3, [(bin_[i], bout[i]) for i in bsmall])
            self.cov['vm_compute_crosscheck_bamsplit'] = {'cases': len(bsmall), 'mismatches': nm2}
        if not okv:
            raise fw.Broken('extraction', 'vm_compute and extracted model disagree: ' + log[-800:])
        if spec_false and not dis:
            i = spec_false[0]
            raise fw.Broken('correspondence', 'specb false on the implementation outcome of case %r' % (ok_runs[i][1],))
        if dis:
            self.dis = dis
            raise fw.Broken('correspondence', 'model and implementation disagree on %d of %d runs; first: %s on %r'
                            % (len(dis), len(ok_runs), dis[0]['diff'], dis[0]['case']))

    # ---------------------------------------------------------------- search
    def search(self):
        runs = getattr(self, 'runs', None) or self.run_everything()
        found = {}
        fq_iter = iter(getattr(self, 'fastq_inputs', []))
        for l, c, r in runs:
            fc = next(fq_iter, None) if l == 'fastq' else None
            if c is None:
                found.setdefault('harness-error', (l, c, r, r.get('error', ''), fc, (True, 0)))
                continue
            for key, text in spec_violations(c, r):
                # prefer direct HandleLimiter runs, then fewer operations
                rank = (l != 'limiter', len(c['ops']))
                if key not in found or rank < found[key][5]:
                    found[key] = (l, c, r, text, fc, rank)
        order = ['retry-keyerror', 'livelock', 'other-exception', 'keyerror-after-raise', 'other-exception-after-raise', 'content',
                 'raise-under-good-script', 'raise-not-hopeless',
                 'state-shared', 'invalid-file', 'leak', 'close-raised', 'foreign-path', 'harness-error']
        keys = sorted(found, key=lambda k: order.index(k) if k in order else 99)
        jobs = []
        for k in keys:
            l, c = found[k][0], found[k][1]
            if c is None or k == 'harness-error':
                continue
            if l == 'fastq':
                jobs.append({'key': k, 'fastq': found[k][4]})
            elif l == 'limiter':
                jobs.append({'key': k, 'case': c})
        shrunk = {}
        try:
            rs = fw.run_impl('impl_c19.py', {'shrink': jobs}, timeout=900)['shrink']
            for j, r in zip(jobs, rs):
                if not r.get('error'):
                    shrunk[j['key']] = r
        except Exception as e:
            self.notes.append('shrinking failed: %r' % (e,))
        for key in keys:
            l, c, r, text, fc = found[key][:5]
            if c is None:
                self.witnesses.append({'key': key, 'what': text, 'input': None})
                continue
            entry = 'HandleLimiter'
            inp = c
            if key in shrunk:
                sh = shrunk[key]
                c2, r2 = (fastq_as_case(sh['fastq'], sh['res']) if l == 'fastq' else sh['case']), sh['res']
                vs = [t for k, t in spec_violations(c2, r2) if k == key]
                if vs:
                    c, r, text = c2, r2, vs[0]
                    inp = sh['fastq'] if l == 'fastq' else c2
            if l == 'fastq':
                entry = 'FastqHandle(single_cell=True) -> HandleLimiter'
            if c.get('cont'):
                # a history: the caller catches every exception and carries on; expected files = the writes of the calls that
                # may not raise (their path can be opened with everything else closed) when only dead paths make calls raise
                sure = [op for op in c['ops'] if not can_fail_alone(c['script'], op[0])]
                exp = expected_files(c, 0, sure) if not c['script'].get('hard') else None
                self.witnesses.append({
                    'key': key, 'what': '%s(maxHandles=%r, pruneEvery=%r), the caller catches what write() raises and carries on '
                                        'with the same writer; pre-existing files %r, writes %r, fault script %r: %s'
                                        % (entry, c['maxHandles'], c['pruneEvery'], c['init'],
                                           [(o[0], o[1]) + (('forceAppend',) if o[2] else ()) for o in c['ops']][:12], c['script'], text),
                    'input': inp, 'impl': {k: r.get(k) for k in ('statuses', 'files', 'trace', 'marks', 'leaked', 'read_errors')},
                    'expected': {'statuses': ['0 or 1 (OSError)' if can_fail_alone(c['script'], op[0]) else 0 for op in c['ops']],
                                 'status': 'a call raises only the OSError of an open() of its own path that failed with no other '
                                           'handle open; every file holds exactly the writes of the calls that returned',
                                 'files': sorted(exp.items()) if exp is not None else 'the writes of the calls that returned, in order'}})
                continue
            exp = expected_files(c, len(c['ops']))
            self.witnesses.append({
                'key': key, 'what': '%s(maxHandles=%r, pruneEvery=%r), pre-existing files %r, writes %r, fault script %r: %s'
                                    % (entry, c['maxHandles'], c['pruneEvery'], c['init'],
                                       [(o[0], o[1]) + (('forceAppend',) if o[2] else ()) for o in c['ops']][:12], c['script'], text),
                'input': inp, 'impl': {k: r.get(k) for k in ('k', 'status', 'files', 'trace', 'leaked', 'read_errors')},
                'expected': {'status': 'no exception unless open() fails with no other handle open',
                             'files': sorted(exp.items())}})
        # bamSplitByTag
        bfound = {}
        for c, r in getattr(self, 'bruns', []):
            for key, text in bam_violations(c, r):
                rank = (c['max_handles'] < 1, len(c['reads']))
                if key not in bfound or rank < bfound[key][3]:
                    bfound[key] = (c, r, text, rank)
        for key, (c, r, text, _rank) in sorted(bfound.items()):
            self.witnesses.append({'key': key, 'what': 'bamSplitByTag main loop, max_handles=%r, tag values of the reads %r: %s'
                                                        % (c['max_handles'], c['reads'][:40], text),
                                   'input': c, 'impl': {k: r.get(k) for k in ('status', 'passes', 'max_open', 'done', 'files')},
                                   'expected': {'files': bam_expected(r) if not r.get('error') else None}})

    # ---------------------------------------------------------------- replay
    def replay(self, data):
        """re-run the recorded failing input on the implementation of the current tree and re-evaluate the specification"""
        import json
        w = data.get('witness') or {}
        inp = w.get('input')
        print('recorded: %s' % w.get('what', data.get('no_longer_checks')))
        if not isinstance(inp, dict):
            return self.run()
        if 'reads' in inp:
            r = fw.run_impl('impl_c19.py', {'bamsplit': [inp]})['bamsplit'][0]
            vs = bam_violations(inp, r)
        elif 'pairs' in inp:
            r = fw.run_impl('impl_c19.py', {'fastq': [inp]})['fastq'][0]
            vs = [('harness-error', r['error'])] if r.get('error') else spec_violations(fastq_as_case(inp, r), r)
        else:
            r = fw.run_impl('impl_c19.py', {'cases': [inp]})['cases'][0]
            vs = spec_violations(inp, r)
        print('implementation (%s) now: %s' % (fw.REPO, json.dumps({k: r.get(k) for k in ('k', 'status', 'statuses', 'files', 'trace',
                                                                                         'leaked', 'passes', 'done', 'max_open')})[:1500]))
        for k, t in vs:
            print('VIOLATION property=C19 %s: %s' % (k, t))
        if not vs:
            print('C19 replay: the recorded input no longer violates the specification')
        return 1 if vs else 0
