"""C05 - tagging conserves alignment records (every primary input record exactly once in the output);
extension: what -contig / -skip_contig select in single-process, one-contig-per-process and binned runs (Model/C05x.v)."""
import os, json, itertools, collections, time
from concurrent.futures import ThreadPoolExecutor
import fw

THR = 100000          # small_contig_threshold of the job construction
METHODS = ('nla', 'chic', 'qflag')

# flag bits
PAIRED, PROPER, UNMAP, MUNMAP, REV, MREV, R1, R2, SEC, QCFAIL, DUP, SUPP = (1, 2, 4, 8, 16, 32, 64, 128, 256, 512, 1024, 2048)


# ----------------------------------------------------------------------------- generators
def gen_contig_list(rng, maxn=12):
    """what get_contigs_with_reads(path, True) may yield: any order, lengths around the threshold, '*' last/anywhere/absent"""
    n = rng.randint(0, maxn)
    names = rng.sample(['chr%d' % i for i in range(1, 30)] + ['chrX', 'chrY', 'MT', 'scaf_1', 'scaf_2', 'KI27.1'], n)
    out = []
    for nm in names:
        ln = rng.choice([1, 500, 99999, 100000, 100001, 5000000, rng.randint(1, 200000), rng.randint(1, 3 * 10 ** 8)])
        if rng.random() < 0.3:
            ln = rng.choice([rng.randint(1, THR - 1), rng.randint(THR, 10 ** 9)])
        out.append([nm, ln])
    r = rng.random()
    if r < 0.6:
        out.append(['*', 0])
    elif r < 0.7 and out:
        out.insert(rng.randint(0, len(out)), ['*', 0])
    return out


def rand_seq(rng, n):
    s = ''.join(rng.choice('ACGT') for _ in range(n))
    return s


def gen_case(rng, maxc=12, nfrag=None):
    """a synthetic library: header (any order/lengths), fragments of many kinds; returns dict with
    contigs, records (coordinate sorted as a BAM must be), and per record the intended kind"""
    nc = rng.randint(1, maxc)
    names = rng.sample(['chr%d' % i for i in range(1, 23)] + ['chrX', 'chrY', 'MT', 'scaf_1', 'scaf_2', 'KI27.1'], nc)
    style = rng.choice(['mixed', 'mixed', 'small', 'large', 'sandwich'])
    contigs = []
    for i, nm in enumerate(names):
        if style == 'small':
            ln = rng.choice([600, 2000, 99999, rng.randint(600, THR - 1)])
        elif style == 'large':
            ln = rng.choice([100000, 100001, 250000, 3000000])
        elif style == 'sandwich':
            ln = rng.choice([700, 99999]) if i % 3 != 2 else rng.choice([100000, 180000])
        else:
            ln = rng.choice([600, 2000, 99999, 100000, 100001, 250000, rng.randint(600, 200000)])
        contigs.append([nm, ln])
    # contigs that may carry reads (others stay empty)
    live = [i for i in range(nc) if rng.random() < 0.75] or [rng.randrange(nc)]
    if rng.random() < 0.15:
        live = [rng.choice(live)]
    nfrag = nfrag if nfrag is not None else rng.randint(1, 22)
    cells = ['LIBA_%d' % i for i in range(1, 4)] + ['LIBB_7']
    recs = []
    fid = 0
    unmapped_policy = rng.choice(['none', 'some', 'some', 'many'])

    def tags(cell, umi, lane=None, fc=None):
        bc = {'LIBA_1': 'ACGTACGT', 'LIBA_2': 'TTGCATGC', 'LIBA_3': 'GGATCCAA', 'LIBB_7': 'CATTGGCA'}[cell]
        t = {'SM': cell, 'BC': bc, 'RX': umi, 'MI': bc + umi, 'LY': cell.rsplit('_', 1)[0]}
        if cell != 'LIBA_3' or lane is not None:   # one cell without flow cell / lane -> read group NONE.NONE.cell
            t['Fc'] = fc or 'HXXFC'
            t['La'] = lane or ('2' if cell == 'LIBB_7' else '1')
        return t

    def mk(name, flag, tid, pos, seq, cigar, ntid, npos, tg, kind, mapq=60):
        recs.append({'n': name, 'f': flag, 't': tid, 'p': pos, 'q': mapq if not (flag & UNMAP) else 0,
                     'c': '' if (flag & UNMAP) else cigar, 's': seq,
                     'ql': ''.join(rng.choice('AEFJ<7') for _ in seq), 'nt': ntid, 'np': npos, 'tags': dict(tg),
                     'kind': kind})

    sites = {}
    for _ in range(nfrag):
        fid += 1
        cell = rng.choice(cells)
        umi = rand_seq(rng, 3)
        tg = tags(cell, umi)
        ci = rng.choice(live)
        clen = contigs[ci][1]
        L1, L2 = rng.randint(20, 40), rng.randint(20, 40)
        kinds = ['pair', 'pair', 'pair', 'pair_rev', 'single', 'half', 'orphan', 'split', 'invalid_motif', 'invalid_orient',
                 'qcfail', 'dup', 'dup', 'secondary', 'orphan_unmapped', 'umi_triple']
        if unmapped_policy != 'none':
            kinds += ['unmapped_pair', 'unmapped_single'] * (3 if unmapped_policy == 'many' else 1)
        kind = rng.choice(kinds)
        if kind == 'dup' and sites:
            # a second fragment of an existing molecule (same cell, UMI, site)
            (ci, p1, cell, umi) = rng.choice(list(sites.values()))
            clen = contigs[ci][1]
            # PCR duplicates are often sequenced on another lane / flow cell: same cell, another read group, and
            # that read group may occur on no first fragment of any molecule
            if rng.random() < 0.7:
                tg = tags(cell, umi, lane=rng.choice(['3', '4', '5', '8']), fc=rng.choice(['HXXFC', 'HXXFC', 'HYYFC']))
            else:
                tg = tags(cell, umi)
            kind = 'pair'
            is_dup = True
        else:
            p1 = rng.randint(0, max(0, clen - 120))
            if kind == 'dup':
                kind = 'pair'
            is_dup = False
        name = 'NS500:%d:%s:%s:1101:%d:%d' % (rng.randint(1, 9), tg.get('Fc', 'HXXFC'), tg.get('La', '1'), 1000 + fid,
                                               rng.randint(1000, 9999))
        gap = rng.randint(40, 60) if is_dup else rng.randint(0, 60)
        p2 = min(p1 + gap, max(0, clen - L2))
        s1 = 'CATG' + rand_seq(rng, L1 - 4)
        s2 = rand_seq(rng, L2)
        c1 = '%dM' % L1 if rng.random() < 0.8 else '%dM2S' % (L1 - 2)
        c2 = '%dM' % L2
        if kind == 'pair':
            sites[fid] = (ci, p1, cell, umi)
            mk(name, PAIRED | PROPER | MREV | R1, ci, p1, s1, c1, ci, p2, tg, kind)
            mk(name, PAIRED | PROPER | REV | R2, ci, p2, s2, c2, ci, p1, tg, kind)
        elif kind == 'pair_rev':
            s1r = rand_seq(rng, L1 - 4) + 'CATG'
            mk(name, PAIRED | PROPER | REV | R1, ci, p2, s1r, '%dM' % L1, ci, p1, tg, kind)
            mk(name, PAIRED | PROPER | MREV | R2, ci, p1, s2, c2, ci, p2, tg, kind)
        elif kind == 'single':
            rev = rng.random() < 0.4
            s = (rand_seq(rng, L1 - 4) + 'CATG') if rev else s1
            mk(name, REV if rev else 0, ci, p1, s, '%dM' % L1, -1, -1, tg, kind)
        elif kind == 'half':
            if rng.random() < 0.6:   # R1 mapped, R2 unmapped (placed at the mate)
                mk(name, PAIRED | MUNMAP | R1, ci, p1, s1, c1, ci, p1, tg, kind)
                mk(name, PAIRED | UNMAP | R2, ci, p1, s2, '', ci, p1, tg, kind)
            else:                    # R2 mapped, R1 unmapped
                mk(name, PAIRED | UNMAP | R1, ci, p1, s1, '', ci, p1, tg, kind)
                mk(name, PAIRED | MUNMAP | REV | R2, ci, p1, s2, c2, ci, p1, tg, kind)
        elif kind == 'orphan':
            if rng.random() < 0.5:
                mk(name, PAIRED | PROPER | MREV | R1, ci, p1, s1, c1, ci, p2, tg, kind)
            else:
                mk(name, PAIRED | PROPER | REV | R2, ci, p2, s2, c2, ci, p1, tg, kind)
        elif kind == 'orphan_unmapped':
            # an unmapped mate placed at the position of its (filtered away) mapped mate: the only kind of record
            # that idxstats counts in the 'unmapped' column of a contig
            if rng.random() < 0.5:
                mk(name, PAIRED | UNMAP | R2, ci, p1, s2, '', ci, p1, tg, kind)
            else:
                mk(name, PAIRED | UNMAP | MREV | R1, ci, p1, s1, '', ci, p1, tg, kind)
        elif kind == 'split':
            cj = rng.choice(live)
            pj = rng.randint(0, max(0, contigs[cj][1] - 60))
            if cj == ci:       # same contig but far apart is still a cached pair; make it a different contig if possible
                others = [i for i in range(nc) if i != ci]
                if others:
                    cj = rng.choice(others)
                    pj = rng.randint(0, max(0, contigs[cj][1] - 60))
            mk(name, PAIRED | MREV | R1, ci, p1, s1, c1, cj, pj, tg, kind)
            mk(name, PAIRED | REV | R2, cj, pj, s2, c2, ci, p1, tg, kind)
        elif kind == 'invalid_motif':
            s1b = 'GGGT' + rand_seq(rng, L1 - 4)
            mk(name, PAIRED | PROPER | MREV | R1, ci, p1, s1b, '%dM' % L1, ci, p2, tg, kind)
            mk(name, PAIRED | PROPER | REV | R2, ci, p2, s2, c2, ci, p1, tg, kind)
        elif kind == 'invalid_orient':
            mk(name, PAIRED | R1, ci, p1, s1, c1, ci, p2, tg, kind)
            mk(name, PAIRED | R2, ci, p2, s2, c2, ci, p1, tg, kind)
        elif kind == 'umi_triple':
            # same cell and cut site: two molecules whose UMIs are 2 mismatches apart, then a fragment whose UMI is 1 mismatch
            # from both (it may join only ONE of them); the third pair completes last
            b = rng.choice('ACGT')
            o1, o2 = rng.sample([x for x in 'ACGT' if x != b], 2)
            for j, u in enumerate((b + b + b, b + o1 + o2, b + b + o2)):
                tgj = tags(cell, u)
                nm = '%s:%d' % (name.rsplit(':', 1)[0], 7000 + 10 * fid + j)
                p2j = min(p1 + 30 + 6 * j, max(0, clen - L2))
                mk(nm, PAIRED | PROPER | MREV | R1, ci, p1, 'CATG' + rand_seq(rng, L1 - 4), '%dM' % L1, ci, p2j, tgj, kind)
                mk(nm, PAIRED | PROPER | REV | R2, ci, p2j, rand_seq(rng, L2), c2, ci, p1, tgj, kind)
        elif kind == 'qcfail':
            mk(name, PAIRED | PROPER | MREV | R1 | QCFAIL, ci, p1, s1, c1, ci, p2, tg, kind)
            mk(name, PAIRED | PROPER | REV | R2 | QCFAIL, ci, p2, s2, c2, ci, p1, tg, kind)
        elif kind == 'secondary':
            mk(name, PAIRED | PROPER | MREV | R1, ci, p1, s1, c1, ci, p2, tg, 'pair')
            mk(name, PAIRED | PROPER | REV | R2, ci, p2, s2, c2, ci, p1, tg, 'pair')
            pj = rng.randint(0, max(0, clen - 60))
            mk(name, PAIRED | MREV | R1 | rng.choice([SEC, SUPP]), ci, pj, s1[:20], '20M', ci, p2, tg, 'secondary')
        elif kind == 'unmapped_pair':
            mk(name, PAIRED | UNMAP | MUNMAP | R1, -1, -1, s1, '', -1, -1, tg, kind)
            mk(name, PAIRED | UNMAP | MUNMAP | R2, -1, -1, s2, '', -1, -1, tg, kind)
        elif kind == 'unmapped_single':
            mk(name, UNMAP, -1, -1, s1, '', -1, -1, tg, kind)
    # some pairs whose mates are not co-located (mate unmapped, other contig, both unmapped, mate missing) are flagged
    # QC-fail in the INPUT (0x200 set upstream): their mate number must survive as well
    bynm = collections.defaultdict(list)
    for r in recs:
        bynm[r['n']].append(r)
    for nm, rs in bynm.items():
        if rs[0]['kind'] in ('half', 'split', 'unmapped_pair', 'orphan', 'orphan_unmapped') and rng.random() < 0.3:
            for r in rs:
                r['f'] |= QCFAIL
                r['kind'] += '_qcfail'
    # a quarter of the libraries carry the demultiplexer's information in the query name instead of in tags (the
    # form the mapper leaves behind): QueryNameFlagger then moves it into tags and restores the Illumina name
    name_form = 'qname' if rng.random() < 0.25 else 'tags'
    if name_form == 'qname':
        for r in recs:
            t = r['tags']
            ins, rn, fc, la, ti, cx, cy = r['n'].split(':')
            ly, bi = t['SM'].rsplit('_', 1)
            r['xn'] = r['n']
            r['xrg'] = '%s.%s.%s' % (fc, la, t['SM'])
            r['n'] = ';'.join('%s:%s' % kv for kv in (
                ('Is', ins), ('RN', rn), ('Fc', fc), ('La', la), ('Ti', ti), ('CX', cx), ('CY', cy), ('Fi', 'N'), ('CN', '0'),
                ('aa', 'CGTC'), ('aA', 'CGTC'), ('aI', '1'), ('LY', ly), ('RX', t['RX']), ('RQ', 'GGG'), ('BI', bi),
                ('bc', t['BC']), ('BC', t['BC']), ('QT', 'GGGGGGGG'), ('MX', 'NLAIII384C8U3')))
            r['tags'] = {}
    # coordinate sort (stable), unplaced last; ties shuffled
    rng.shuffle(recs)
    recs.sort(key=lambda r: (r['t'] if r['t'] >= 0 else 10 ** 9, r['p']))
    for i, r in enumerate(recs):
        r['tags']['zi'] = i
    return {'contigs': contigs, 'records': recs, 'name_form': name_form}


def ejection_case(rng):
    """a library large enough for the molecule buffer to be pruned during a run with DEFAULT options (MoleculeIterator
    checks for ejectable molecules every 10000 fragments; a molecule leaves the buffer 5000 bp behind its span): about
    10400 valid single-end fragments, 2-3 molecules of different length and UMI per cut site, cut sites 7 bp apart, so
    that at the moment of the check some pools hold molecules on both sides of the ejection margin, in both orders"""
    contigs = [['chrE', 150000], ['chrS', 900]]
    bc = {'LIBA_1': 'ACGTACGT', 'LIBA_2': 'TTGCATGC'}
    recs = []
    fid = 0
    site = 2000
    while len(recs) < 10400:
        cell = rng.choice(sorted(bc))
        umis = rng.sample(['AAA', 'CCC', 'GGG', 'TTT', 'ACG', 'TGC'], rng.choice([2, 2, 3]))
        for u in umis:
            for _dup in range(rng.choice([1, 1, 1, 2])):
                fid += 1
                L = rng.choice([24, 31, 45, 60, 76])
                tg = {'SM': cell, 'BC': bc[cell], 'RX': u, 'MI': bc[cell] + u, 'LY': 'LIBA', 'Fc': 'HXXFC', 'La': '1'}
                recs.append({'n': 'NS500:1:HXXFC:1:2101:%d:%d' % (1000 + fid // 9000, 1000 + fid % 9000), 'f': 0, 't': 0, 'p': site,
                             'q': 60, 'c': '%dM' % L, 's': 'CATG' + rand_seq(rng, L - 4), 'ql': 'J' * L, 'nt': -1, 'np': -1,
                             'tags': tg, 'kind': 'single'})
        site += 7
    name = 'NS500:1:HXXFC:1:2101:9999:9999'
    tg = {'SM': 'LIBA_1', 'BC': bc['LIBA_1'], 'RX': 'ACG', 'MI': bc['LIBA_1'] + 'ACG', 'LY': 'LIBA', 'Fc': 'HXXFC', 'La': '1'}
    recs.append({'n': name, 'f': PAIRED | PROPER | MREV | R1, 't': 1, 'p': 100, 'q': 60, 'c': '24M', 's': 'CATG' + rand_seq(rng, 20),
                 'ql': 'J' * 24, 'nt': 1, 'np': 150, 'tags': dict(tg), 'kind': 'pair'})
    recs.append({'n': name, 'f': PAIRED | PROPER | REV | R2, 't': 1, 'p': 150, 'q': 60, 'c': '20M', 's': rand_seq(rng, 20),
                 'ql': 'F' * 20, 'nt': 1, 'np': 100, 'tags': dict(tg), 'kind': 'pair'})
    for i, r in enumerate(recs):
        r['tags']['zi'] = i
    return {'contigs': contigs, 'records': recs, 'name_form': 'tags', 'ejection': True}


def layout_cases(kmax):
    """exhaustive small scope for the end-to-end check: every header of 1..kmax contigs over {small, LARGE}, every
    non-empty subset of contigs carrying one proper pair, with / without one unplaced unmapped read"""
    tg = {'SM': 'LIBA_1', 'BC': 'ACGTACGT', 'RX': 'ACG', 'MI': 'ACGTACGTACG', 'LY': 'LIBA', 'Fc': 'HXXFC', 'La': '1'}
    out = []
    for k in range(1, kmax + 1):
        for sizes in itertools.product((700, 150000), repeat=k):
            for live in itertools.product((0, 1), repeat=k):
                if not any(live):
                    continue
                for un in (0, 1):
                    recs = []
                    for ci in range(k):
                        if not live[ci]:
                            continue
                        name = 'NS500:1:HXXFC:1:1101:%d:%d' % (2000 + ci, 3000 + len(out) % 1000)
                        s1 = 'CATG' + 'ACGTTGCAAGGCTTAACCGG'[ci:ci + 16] + 'ACGT'
                        s2 = 'TTGACCGGTAACGTTGCAAGGCTT'[ci:ci + 20]
                        recs.append({'n': name, 'f': PAIRED | PROPER | MREV | R1, 't': ci, 'p': 100, 'q': 60, 'c': '%dM' % len(s1),
                                     's': s1, 'ql': 'J' * len(s1), 'nt': ci, 'np': 150, 'tags': dict(tg), 'kind': 'pair'})
                        recs.append({'n': name, 'f': PAIRED | PROPER | REV | R2, 't': ci, 'p': 150, 'q': 60, 'c': '%dM' % len(s2),
                                     's': s2, 'ql': 'F' * len(s2), 'nt': ci, 'np': 100, 'tags': dict(tg), 'kind': 'pair'})
                    if un:
                        recs.append({'n': 'NS500:1:HXXFC:1:1101:9999:%d' % (3000 + len(out) % 1000), 'f': UNMAP, 't': -1, 'p': -1, 'q': 0,
                                     'c': '', 's': 'CATGGTTTACCAGGAT', 'ql': 'A' * 16, 'nt': -1, 'np': -1, 'tags': dict(tg),
                                     'kind': 'unmapped_single'})
                    for i, r in enumerate(recs):
                        r['tags']['zi'] = i
                    out.append({'contigs': [['k%d' % i, sizes[i]] for i in range(k)], 'records': recs, 'name_form': 'tags',
                                'layout': True})
    return out


def lane_cases(rng, n):
    """one molecule (same cell, UMI, cut site) whose duplicate fragments were sequenced on other lanes / flow cells
    that occur nowhere else in the library; the first fragment of the molecule comes from the common lane"""
    out = []
    for k in range(n):
        nc = rng.randint(1, 3)
        contigs = [['k%d' % i, rng.choice([900, 150000])] for i in range(nc)]
        recs = []
        ndup = rng.randint(1, 3)
        ci = rng.randrange(nc)
        p1 = rng.randint(10, 300)
        umi = rand_seq(rng, 3)
        lanes = [('HXXFC', '1')] + rng.sample([('HXXFC', '2'), ('HXXFC', '3'), ('HYYFC', '1'), ('HYYFC', '6')], ndup)
        for j, (fc, la) in enumerate(lanes):
            tg = {'SM': 'LIBA_1', 'BC': 'ACGTACGT', 'RX': umi, 'MI': 'ACGTACGT' + umi, 'LY': 'LIBA', 'Fc': fc, 'La': la}
            name = 'NS500:1:%s:%s:1101:%d:%d' % (fc, la, 4000 + j, 5000 + k)
            s1, s2 = 'CATG' + rand_seq(rng, 26), rand_seq(rng, 30)
            p2 = p1 + 40 + 10 * j          # the common-lane pair completes first
            recs.append({'n': name, 'f': PAIRED | PROPER | MREV | R1, 't': ci, 'p': p1, 'q': 60, 'c': '30M', 's': s1,
                         'ql': 'J' * 30, 'nt': ci, 'np': p2, 'tags': dict(tg), 'kind': 'pair' if j == 0 else 'lane_dup'})
            recs.append({'n': name, 'f': PAIRED | PROPER | REV | R2, 't': ci, 'p': p2, 'q': 60, 'c': '30M', 's': s2,
                         'ql': 'F' * 30, 'nt': ci, 'np': p1, 'tags': dict(tg), 'kind': 'pair' if j == 0 else 'lane_dup'})
        # a few other fragments, all from the common lane
        for j in range(rng.randint(0, 3)):
            cj = rng.randrange(nc)
            pj = rng.randint(400, 700)
            tg = {'SM': 'LIBA_2', 'BC': 'TTGCATGC', 'RX': rand_seq(rng, 3), 'LY': 'LIBA', 'Fc': 'HXXFC', 'La': '1'}
            tg['MI'] = tg['BC'] + tg['RX']
            recs.append({'n': 'NS500:1:HXXFC:1:1101:%d:%d' % (4500 + j, 5000 + k), 'f': 0, 't': cj, 'p': pj, 'q': 60, 'c': '30M',
                         's': 'CATG' + rand_seq(rng, 26), 'ql': 'A' * 30, 'nt': -1, 'np': -1, 'tags': tg, 'kind': 'single'})
        recs.sort(key=lambda r: (r['t'], r['p'], 0 if r['tags']['La'] == '1' and r['tags']['Fc'] == 'HXXFC' else 1))
        for i, r in enumerate(recs):
            r['tags']['zi'] = i
        out.append({'contigs': contigs, 'records': recs, 'name_form': 'tags', 'lanes': True})
    return out


def spec_args(sp):
    return run_args(sp['method'], sp['mode'], sp.get('threads'), sp['nr'], sp.get('fmt', 0), sp.get('contig'), sp.get('skip'))


def rec_rg(r, fmt=0):
    """read group id the tagger must assign (get_read_group_from_read): Fc.La.SM, or Fc.La.LY for -read_group_format 1;
    whatever RG tag the input record already carries is irrelevant"""
    if r.get('xrg'):
        fc, la, sm = r['xrg'].split('.')
        return r['xrg'] if fmt == 0 else '%s.%s.%s' % (fc, la, sm.rsplit('_', 1)[0])
    t = r['tags']
    return '%s.%s.%s' % (t.get('Fc', 'NONE'), t.get('La', 'NONE'), t.get('SM', 'NONE') if fmt == 0 else t.get('LY', 'NONE'))


def large_case(rng, nsites):
    """more than 10,000 valid fragments on one contig, so that the periodic ejection check of MoleculeIterator
    (check_eject_every = 10,000; not reachable from the command line) runs inside the tagger: every site holds a short
    and a long molecule of the same cell (different UMIs), so at the check some hash group is half ejected"""
    step = rng.choice([200, 250, 300])
    lg = rng.choice([460, 560, 660])
    contigs = [['big1', 1000 + nsites * step + 3000], ['k2', 50000]]
    recs = []

    def pair(name, ci, p1, gap, cell, umi):
        bc = 'ACGTACGT'
        tg = {'SM': cell, 'BC': bc, 'RX': umi, 'MI': bc + umi, 'LY': cell.rsplit('_', 1)[0], 'Fc': 'HXXFC', 'La': '1'}
        s1, s2 = 'CATG' + rand_seq(rng, 36), rand_seq(rng, 40)
        recs.append({'n': name, 'f': PAIRED | PROPER | MREV | R1, 't': ci, 'p': p1, 'q': 60, 'c': '40M', 's': s1, 'ql': 'J' * 40,
                     'nt': ci, 'np': p1 + gap, 'tags': dict(tg), 'kind': 'pair'})
        recs.append({'n': name, 'f': PAIRED | PROPER | REV | R2, 't': ci, 'p': p1 + gap, 'q': 60, 'c': '40M', 's': s2, 'ql': 'F' * 40,
                     'nt': ci, 'np': p1, 'tags': dict(tg), 'kind': 'pair'})
    for k in range(nsites):
        site = 1000 + k * step
        pair('NS500:1:HXXFC:1:1101:%d:1' % k, 0, site, 60, 'LIBA_1', 'ACG')
        pair('NS500:1:HXXFC:1:1101:%d:2' % k, 0, site, lg, 'LIBA_1', 'TTA')
    for i in range(4):
        pair('NS500:1:HXXFC:1:1102:%d:3' % i, 1, 500 + 9000 * i, 60, 'LIBA_2', 'GGC')
    recs.append({'n': 'NS500:1:HXXFC:1:1103:1:1', 'f': UNMAP, 't': -1, 'p': -1, 'q': 0, 'c': '', 's': 'CATGGTTTACCAGGAT', 'ql': 'A' * 16,
                 'nt': -1, 'np': -1, 'tags': {'SM': 'LIBA_1', 'BC': 'ACGTACGT', 'RX': 'AAA', 'MI': 'ACGTACGTAAA', 'LY': 'LIBA',
                                             'Fc': 'HXXFC', 'La': '1'}, 'kind': 'unmapped_single'})
    recs.sort(key=lambda r: (r['t'] if r['t'] >= 0 else 10 ** 9, r['p']))
    for i, r in enumerate(recs):
        r['tags']['zi'] = i
    return {'contigs': contigs, 'records': recs, 'name_form': 'tags', 'large': True, 'nomodel': True}


def run_args(method, mode, threads=None, no_rejects=False, fmt=0, contig=None, skip=None):
    a = ['-method', method]
    if fmt:
        a += ['-read_group_format', str(fmt)]
    if mode in ('multi', 'binned'):
        a += ['--multiprocess']
        if threads:
            a += ['-tagthreads', str(threads)]
    if no_rejects:
        a += ['--no_rejects']
    if contig is not None:
        a += ['-contig', contig]
    if skip:
        a += ['-skip_contig', ','.join(skip)]
    if mode == 'binned':
        # not a tagger option: tells tools/impl_c05.py to call tag_multiome_multi_processing with
        # one_contig_per_process=False (the binned job mode; --multiprocess always forces one contig per process)
        a = ['--BINNED'] + a
    return a


def has_selection(sp):
    return sp.get('contig') is not None or bool(sp.get('skip')) or sp.get('mode') == 'binned'


def canon_binned(jobs):
    """binned job list, as far as conservation cares: which contigs receive at least one region task, and how many
    tasks the unplaced bin gets (how a contig is cut into regions is C17, how regions are grouped into jobs is scheduling)"""
    names = [t[0] for j in jobs for t in j]
    return [sorted(set(n for n in names if n != '*')), names.count('*')]


def vm_crosscheck_multi(groups, run_name='run_C05x', require='Model.C05x'):
    """fw.vm_crosscheck for several modes in ONE coqc run: groups = [(mode, [(input, extracted output), ..]), ..];
    returns (ok, mismatches, n_cases, log)"""
    import re
    d = os.path.join(fw.BUILD, 'vm', 'C05')
    os.makedirs(d, exist_ok=True)
    body = ['From Coq Require Import ZArith List.', 'Import ListNotations.',
            'From SCMO Require Import Lib.Val %s.' % require, 'Open Scope Z_scope.']
    for k, (mode, pairs) in enumerate(groups):
        body.append('Definition cases%d : list (Val * Val) := [' % k)
        body.append(';\n'.join('  (%s, %s)' % (fw.coq_val(fw.to_val(i)), fw.coq_val(fw.to_val(o))) for i, o in pairs))
        body.append('].')
        body.append('Eval vm_compute in (length (mismatches (%s %d) cases%d), length cases%d).' % (run_name, mode, k, k))
    with open(os.path.join(d, 'cases.v'), 'w') as f:
        f.write('\n'.join(body) + '\n')
    rc, out = fw.sh('ulimit -s unlimited 2>/dev/null; timeout 900 coqc -Q %s SCMO cases.v' % fw.COQ, cwd=d, timeout=960)
    if rc != 0:
        return False, -1, 0, out
    res = re.findall(r'=\s*\((\d+)(?:%nat)?,\s*(\d+)(?:%nat)?\)', out)
    if len(res) != len(groups):
        return False, -1, 0, out
    mism = sum(int(a) for a, _ in res)
    n = sum(int(b) for _, b in res)
    ok = mism == 0 and all(int(b) == len(pairs) for (_, b), (_, pairs) in zip(res, groups))
    return ok, mism, n, out


def expected_rg(tags):
    return '%s.%s.%s' % (tags.get('Fc', 'NONE'), tags.get('La', 'NONE'), tags.get('SM', 'NONE'))


def gen_malformed(rng):
    """inputs OUTSIDE the precondition (flag combinations no aligner writes; colliding names): the model and the
    code must still agree (exceptions are modelled, the overwrite of a colliding cache entry is modelled)"""
    c = gen_case(rng, maxc=4, nfrag=rng.randint(2, 8))
    while c['name_form'] != 'tags':
        c = gen_case(rng, maxc=4, nfrag=rng.randint(2, 8))
    kind = rng.choice(['nobits', 'unpaired_r2', 'collision'])
    recs = c['records']
    mapped = [r for r in recs if r['t'] >= 0 and not (r['f'] & (SEC | SUPP))]
    if not mapped:
        return gen_malformed(rng)
    src = rng.choice(mapped)
    new = json.loads(json.dumps(src))
    new['n'] = src['n'] + ':x'
    new['s'] = rand_seq(rng, len(src['s']))
    if kind == 'nobits':
        new['f'] = PAIRED | MUNMAP | (src['f'] & REV)
        new['nt'], new['np'] = src['t'], src['p']
    elif kind == 'unpaired_r2':
        new['f'] = R2 | (src['f'] & REV)
        new['nt'], new['np'] = -1, -1
    else:
        cands = [r for r in mapped if (r['f'] & PAIRED) and not (r['f'] & (MUNMAP | UNMAP)) and r['nt'] == r['t']]
        if not cands:
            return gen_malformed(rng)
        src = rng.choice(cands)
        new = json.loads(json.dumps(src))
        new['s'] = rand_seq(rng, len(src['s']))
        if new['c']:
            new['c'] = '%dM' % len(new['s'])
    new['kind'] = 'malformed_' + kind
    recs.append(new)
    recs.sort(key=lambda r: (r['t'] if r['t'] >= 0 else 10 ** 9, r['p']))
    for i, r in enumerate(recs):
        r['tags']['zi'] = i
    c['malformed'] = kind
    return c


def payload(r):
    """(name, seq, qual, contig, pos, cigar); for query-name-encoded libraries the name the tagger must restore"""
    return (r.get('xn', r['n']), r['s'], r['ql'], r['t'], r['p'], r['c'])


def raw_payload(r):
    return (r['n'], r['s'], r['ql'], r['t'], r['p'], r['c'])


def canon_jobs(jobs):
    """conservation needs every contig with reads (and the unmapped bin) in exactly one job; how the contigs are
    grouped into jobs and in which order the jobs are listed is scheduling, compared as the multiset of scheduled contigs
    (an empty job is kept visible)"""
    return sorted(x for j in jobs for x in j) + ['<empty job>' for j in jobs if not j]


class Prop(fw.PropBase):
    ID = 'C05'
    PROPS = 'Props/C05.v'
    TRUSTED = [
        'Model/C05.v is hand-written (jobs_loop transcribes the one_contig_per_process block; pair_loop transcribes '
        'pysamiterators.MatePairIterator.__next__ + verify_pair; mkfrag the mate forcing of Fragment.__init__); tied to '
        'the source by K only: the job block is located in the AST and executed from the current source, whole runs '
        'are compared end to end',
        'modelled not verified: htslib (BAM reading/writing, idxstats, fetch by index, pysam.sort, pysam.merge -c -p, '
        'index) = functions constrained only by "permutation of the input(s)" / "header RG union"; sampled end to end',
        'modelled not verified: the process pool (imap_unordered) = any permutation of the job outputs',
        'the molecule iterator is a contract (every fragment emitted in exactly one molecule, or deleted only when '
        'invalid & not yield_invalid / overflow & not yield_overflow), discharged for a simple iterator; that the real '
        'ejection machine emits each cached molecule exactly once is C07, the assignment is C06',
        'Fragment.is_valid is an uninterpreted function; in the end-to-end check "invalid" = flagged QC-fail by the '
        'default run of the same library',
        'third-party pysamiterators 0.1.x source (not part of /repo) is modelled from the installed copy',
        'the model assumes an index that matches the file (verify_and_fix_bam is outside the model); stale-index histories '
        '(file regenerated in place, older .bai left behind), re-tagging histories (output tagged again with another '
        '-read_group_format / method / mode) and one library with > 10,000 pooled fragments (periodic ejection of '
        'MoleculeIterator inside the tagger; no command line option lowers check_eject_every) are sampled end to end against '
        'the specification; the large library is not run through the model',
        'contig selection (-contig / -skip_contig; outside the property text, which speaks of default options): Model/C05x.v is '
        'hand-written (pair_kept = the skip_contigs test of MoleculeIterator.__iter__, whitelist / cpp_jobs / regions / bp_loop = '
        'the selection handling and both job constructions of tag_multiome_multi_processing, single_sel = the iterator chain of '
        'tag_multiome_single_thread) and tied by K only: job lists by calling the real tag_multiome_multi_processing in both job '
        'modes with get_contigs_with_reads stubbed, a real header-only BAM and generate_tasks intercepted; whole runs end to end',
        'the one-contig-per-process job loop AS CODED never consults contig_whitelist (C05_sel_jobs_as_coded, '
        'C05_sel_same_as_coded_refuted); the model has both this loop and the loop with the whitelist test of the suggestion '
        'fixes/C05-D31.patch, each with its theorems; the harness detects on two probe job lists which of the two the tree has and '
        'compares against that one (recorded in coverage.contig_selection.one_contig_per_process_variant)',
        'modelled not verified: binned mode (one_contig_per_process=False) at contig granularity - how a contig is cut into '
        'regions (blacklisted_binning: C17) and that the region tasks of one contig together write every molecule with a cut '
        'site exactly once (run_tagging_task ownership gate: C08; site-less molecules are dropped there, C08 finding D11) are '
        'the hypothesis [tiles] of C05_sel_binned_records_partial; the executable model processes each scheduled contig as a '
        'whole, binned runs are compared on records of molecules with a cut site (DS tag in the single-process run); the '
        'command line cannot reach binned mode (--multiprocess forces one contig per process): the end-to-end runs go through '
        'run_multiome_tagging_cmd with the flag overridden at the call of tag_multiome_multi_processing',
        "-contig values that are not a reference of the header ('*', unknown names) are outside the hypothesis sc_ok: modelled "
        '(single process: every unplaced record twice, C05_sel_single_star_refuted / ValueError = Raise 3) but not compared, '
        'only observed (coverage.contig_selection.out_of_domain_runs_observed_not_compared); -contig MISC_ALT_CONTIGS_SCMO, '
        '-region_start/-region_end, -blacklist and --cluster are not modelled',
    ]
    ASSUMPTIONS = [
        'no two primary records of the input share (query name, first-read bit) (MatePairIterator is run with '
        'ignore_collisions=True and would silently replace one)',
        'SAM-conformant flags: a paired record has exactly one of the read1/read2 bits, an unpaired one has no read2 bit '
        '(otherwise verify_pair / Fragment.__init__ raise; modelled as Raise and cross-checked)',
        'every placed record lies on a contig of the header; header contig names are distinct',
        'no read has a homopolymer run >= 18 (CHIC max_NUC_stretch aborts the mate forcing loop); default options '
        'otherwise (no -head, -blacklist, --cluster, --consensus, -max_associated_fragments); -contig / -skip_contig only in '
        'the C05_sel_* theorems',
        'C05_sel_*: -contig, when given, names a reference sequence of the header (sc_ok); mates that the pairing cache can join '
        '(paired, mate mapped, next reference = own reference) lie on the same contig (coloc: what an aligner writes); header '
        'contig lengths are positive (binned mode)',
        'secondary/supplementary records are outside the claim (dropped by MatePairIterator, kept by the qflag ReadIterator)',
    ]

    # ------------------------------------------------------------------ inputs
    def slice_cases(self):
        quick = self.tier == 'quick'
        cases = []
        # exhaustive: every pattern of small/LARGE/'*' up to length L (distinct names)
        L = 5 if quick else 7
        for n in range(0, L + 1):
            for pat in itertools.product('sL*', repeat=n):
                if pat.count('*') > 1:
                    continue
                cl = []
                for i, k in enumerate(pat):
                    if k == '*':
                        cl.append(['*', 0])
                    else:
                        cl.append(['c%d' % i, 99999 if k == 's' else 100000])
                cases.append(cl)
        self.n_exh_slice = len(cases)
        for _ in range(300 if quick else 4000):
            cases.append(gen_contig_list(self.rng))
        return cases

    def e2e_cases(self):
        quick = self.tier == 'quick'
        n = 36 if quick else 420
        cases = []
        for i in range(n):
            c = gen_case(self.rng)
            cases.append(c)
        for i in range(6 if quick else 40):
            cases.append(gen_malformed(self.rng))
        cases += lane_cases(self.rng, 4 if quick else 30)
        # input records that already carry RG tags (aligner-style ids, ids of another read_group_format, or the ids the
        # tagger would assign), with or without @RG lines in the input header
        for c in cases:
            if c.get('name_form') == 'tags' and self.rng.random() < 0.45:
                mode = self.rng.choice(['foreign', 'format1', 'same'])
                for r in c['records']:
                    r['tags']['RG'] = {'foreign': 'run%s' % r['tags']['SM'][-1], 'format1': rec_rg(r, 1), 'same': rec_rg(r, 0)}[mode]
                c['rg_mode'] = mode
                if self.rng.random() < 0.7:
                    c['rg_header'] = sorted(set(r['tags']['RG'] for r in c['records']))
        # histories on one input path: the file was regenerated in place, the index of the earlier version stayed behind
        for c in cases:
            if not c.get('malformed') and self.rng.random() < 0.25:
                drop_t = self.rng.choice(sorted(set(r['t'] for r in c['records'])))
                names = sorted(set(r['n'] for r in c['records']))
                gone = set(n for n in names if self.rng.random() < 0.3)
                v1 = [r for r in c['records'] if r['t'] != drop_t and r['n'] not in gone]
                c['stale'] = {'records': v1}
        # libraries in which the molecule buffer is pruned during a default-option run (> 10000 fragments)
        ej = [ejection_case(self.rng) for _ in range(1 if quick else 3)]
        for c in ej:
            c['run_specs'] = [{'method': 'nla', 'mode': 'single', 'nr': False},
                              {'method': 'nla', 'mode': 'multi', 'threads': 2, 'nr': False}]
            if not quick:
                c['run_specs'].append({'method': 'chic', 'mode': 'single', 'nr': False})
            c['runs'] = [spec_args(r) for r in c['run_specs']]
        self.n_ejection = len(ej)
        lay = layout_cases(2 if quick else 4)
        self.n_layout = len(lay)
        for c in lay:
            c['run_specs'] = [{'method': 'nla', 'mode': 'single', 'nr': False},
                              {'method': 'nla', 'mode': 'multi', 'threads': 2, 'nr': False},
                              {'method': 'qflag', 'mode': 'multi', 'threads': 3, 'nr': False}]
            c['runs'] = [spec_args(r) for r in c['run_specs']]
        for c in cases:
            if 'run_specs' in c:
                continue
            runs = []
            for m in METHODS:
                runs.append({'method': m, 'mode': 'single', 'nr': False})
                runs.append({'method': m, 'mode': 'multi', 'threads': self.rng.randint(1, 4), 'nr': False})
            for m in ('nla', 'chic'):
                runs.append({'method': m, 'mode': 'single', 'nr': True})
                if not quick or self.rng.random() < 0.5:
                    runs.append({'method': m, 'mode': 'multi', 'threads': self.rng.randint(1, 4), 'nr': True})
            # some runs with the other read group scheme
            for r in runs:
                if not r['nr'] and self.rng.random() < 0.2:
                    r['fmt'] = 1
            c['run_specs'] = runs
            c['runs'] = [spec_args(r) for r in runs]
            # re-tagging histories: the output of an earlier run is tagged again with another scheme / method / mode
            if not c.get('malformed') and self.rng.random() < 0.3:
                c['retag_specs'] = []
                for _ in range(2):
                    j = self.rng.choice([i for i, r in enumerate(runs) if not r['nr'] and r['method'] != 'qflag'])
                    sp = {'method': self.rng.choice(['nla', 'chic']), 'mode': self.rng.choice(['single', 'multi']),
                          'threads': self.rng.randint(1, 3), 'nr': False, 'fmt': 1 - runs[j].get('fmt', 0)}
                    c['retag_specs'].append([j, sp])
                c['retag'] = [[j, spec_args(sp)] for j, sp in c['retag_specs']]
        big = []
        for k in range(1 if quick else 2):
            c = large_case(self.rng, 5200)
            c['run_specs'] = ([{'method': 'nla', 'mode': 'single', 'nr': False}, {'method': 'chic', 'mode': 'multi', 'threads': 2, 'nr': False}]
                              if quick else
                              [{'method': m, 'mode': mo, 'threads': 2, 'nr': False} for m in ('nla', 'chic') for mo in ('single', 'multi')])
            c['runs'] = [spec_args(r) for r in c['run_specs']]
            big.append(c)
        return cases + lay + big + ej

    def corpus_cases(self):
        d = os.path.join(fw.VERIF, 'corpus', 'C05')
        sl, e2e = [], []
        if os.path.isdir(d):
            for f in sorted(os.listdir(d)):
                if f.endswith('.json'):
                    j = json.load(open(os.path.join(d, f)))
                    if 'slice' in j:
                        sl.append(j['slice'])
                    if 'case' in j:
                        e2e.append(j['case'])
        return sl, e2e

    # ------------------------------------------------------------------ running the implementation
    def run_impl_cases(self, cases, workers=6):
        if not cases:
            return []
        chunks, cur = [], []
        for i, c in enumerate(cases):      # large libraries get a process of their own
            if c.get('large'):
                chunks.append((i, [c]))
                continue
            if not cur or len(cur[1]) >= 6 or cur[0] + len(cur[1]) != i:
                cur = (i, [])
                chunks.append(cur)
            cur[1].append(c)
        chunks.sort(key=lambda ch: -sum(len(c['records']) for c in ch[1]))

        def go(ch):
            off, cs = ch
            def sr(recs):
                return [{k: v for k, v in r.items() if k in ('n', 'f', 't', 'p', 'q', 'c', 's', 'ql', 'nt', 'np', 'tags')} for r in recs]
            slim = []
            for c in cs:
                d = {'contigs': c['contigs'], 'runs': c['runs'], 'records': sr(c['records'])}
                if c.get('rg_header'):
                    d['rg_header'] = c['rg_header']
                if c.get('stale'):
                    d['stale'] = {'records': sr(c['stale']['records'])}
                if c.get('retag'):
                    d['retag'] = c['retag']
                slim.append(d)
            return fw.run_impl('impl_c05.py', {'cases': slim, 'offset': off}, timeout=1500)['cases']
        with ThreadPoolExecutor(max_workers=workers) as ex:
            parts = list(ex.map(go, chunks))
        out = [None] * len(cases)
        for (off, cs), p in zip(chunks, parts):
            for k, r in enumerate(p):
                out[off + k] = r
        return out

    # ------------------------------------------------------------------ model encoding
    @staticmethod
    def enc_slice(cl):
        names = {}
        out = []
        for c, l in cl:
            if c == '*':
                out.append([[], l])
            else:
                out.append([[names.setdefault(c, len(names))], l])
        inv = {v: k for k, v in names.items()}
        return out, inv

    @staticmethod
    def dec_jobs(v, inv):
        return [['*' if c == [] else inv[c[0]] for c in j] for j in v]

    def enc_case(self, case, spec, valid_ids):
        names, rgs, mk = {}, {}, {}
        recs = []
        for r in case['records']:
            f = r['f']
            rg = rgs.setdefault(rec_rg(r, spec.get('fmt', 0)), len(rgs))
            recs.append([r['tags']['zi'], names.setdefault(r['n'], len(names)), [] if r['t'] < 0 else [r['t']], r['p'],
                         [] if r['nt'] < 0 else [r['nt']], 1 if f & PAIRED else 0, 1 if f & R1 else 0, 1 if f & R2 else 0,
                         1 if f & MUNMAP else 0, 1 if f & (SEC | SUPP) else 0, 1 if f & QCFAIL else 0, rg,
                         1 if (valid_ids is None or r['tags']['zi'] in valid_ids) else 0,
                         mk.setdefault((r.get('xrg') or r['tags'].get('SM'), r['t']), len(mk))])
        qf = spec['method'] == 'qflag'
        cfg = [1 if spec['mode'] == 'multi' else 0, 1 if qf else 0, 1 if (qf or not spec['nr']) else 0, 1, 1 if qf else 0, []]
        hdr = [[i, l] for i, (n, l) in enumerate(case['contigs'])]
        in_rgs = [rgs.setdefault(g, len(rgs)) for g in case.get('rg_header', [])]
        return [cfg, hdr, recs, in_rgs], {v: k for k, v in rgs.items()}

    # ------------------------------------------------------------------ specification on the implementation's output
    def spec_violations(self, case, spec, res, valid_ids):
        """python transcription of the property statement, evaluated on the implementation's output only.
        returns list of (key, text)"""
        tag = '%s:%s%s' % (spec['method'], spec['mode'], ':no_rejects' if spec['nr'] else '')
        if 'error' in res:
            return [('e2e:error:%s:%s' % (res['error'].split(':')[0], spec['method']),
                     'tagger raised %s (%s) for %s' % (res['error'], '/'.join(res.get('where', [])), tag))]
        out = []
        qf = spec['method'] == 'qflag'
        inp = case['records']
        exp = [r for r in inp if qf or not (r['f'] & (SEC | SUPP))]
        claim = [r for r in inp if not (r['f'] & (SEC | SUPP))]
        if spec['nr'] and not qf:
            exp = [r for r in exp if r['tags']['zi'] in valid_ids]
            claim = exp
        got = collections.Counter(payload(r) for r in res['records'])
        want_all = collections.Counter(payload(r) for r in exp)
        want_claim = collections.Counter(payload(r) for r in claim)
        missing = want_claim - got
        extra = got - want_all
        if missing:
            out.append(('e2e:missing-records:' + spec['mode'], '%d primary record(s) of the input are not in the output of %s: %r'
                        % (sum(missing.values()), tag, sorted(missing.elements())[:3])))
        if extra:
            out.append(('e2e:extra-records:' + spec['mode'], '%d record(s) occur more often in the output of %s than in the input '
                        '(or were altered / should have been rejected): %r' % (sum(extra.values()), tag, sorted(extra.elements())[:3])))
        # mate number of paired records unchanged
        byid = {r['tags']['zi']: r for r in inp}
        for o in res['records']:
            i = byid.get(o['id'])
            if i is not None and (i['f'] & PAIRED) and bool(i['f'] & R1) != bool(i['f'] & R2):
                if (o['f'] & (R1 | R2)) != (i['f'] & (R1 | R2)):
                    out.append(('e2e:mate-changed', 'mate bits of %s changed %d -> %d in %s' % (i['n'], i['f'] & 192, o['f'] & 192, tag)))
                    break
        keys = [(r['t'] if r['t'] >= 0 else 10 ** 9, r['p']) for r in res['records']]
        if res['so'] != 'coordinate' or keys != sorted(keys):
            out.append(('e2e:unsorted', 'output of %s is not coordinate sorted (SO=%s)' % (tag, res['so'])))
        if not res['bai'] or res['indexed_count'] != len(res['records']):
            out.append(('e2e:index', 'output of %s has no usable index (bai=%s, %s of %d records reachable)'
                        % (tag, res['bai'], res['indexed_count'], len(res['records']))))
        bad = [r for r in res['records'] if r['rg'] is None or r['rg'] not in res['rg_ids']]
        if bad:
            out.append(('e2e:rg', '%d record(s) of %s carry no read group or one that the header does not declare (%r; header %r)'
                        % (len(bad), tag, bad[0]['rg'], res['rg_ids'][:4])))
        if res.get('status') != 'Reached end. All ok!':
            out.append(('e2e:status', 'status file of %s says %r' % (tag, res.get('status'))))
        return out

    @staticmethod
    def pseudo_case(case, res):
        """the output of an earlier tagger run, read back, as the input library of the next run of a history"""
        recs = []
        for o in res['records']:
            tg = dict(o.get('tg', {}))
            tg['zi'] = o['id']
            if o.get('rg') is not None:
                tg['RG'] = o['rg']
            recs.append({'n': o['n'], 'f': o['f'], 't': o['t'], 'p': o['p'], 'q': o.get('q', 0), 'c': o['c'], 's': o['s'], 'ql': o['ql'],
                         'nt': o.get('nt', -1), 'np': -1, 'tags': tg, 'kind': 'retag'})
        return {'contigs': case['contigs'], 'records': recs, 'rg_header': list(res['rg_ids']), 'name_form': 'tags', 'retagged': True}

    @staticmethod
    def jobs_spec(cl, jobs):
        """C05_jobs_cover on the implementation's job list: '*' and every listed contig exactly once"""
        flat = [c for j in jobs for c in j]
        want = ['*'] + [c for c, _ in cl if c != '*']
        if collections.Counter(flat) != collections.Counter(want):
            miss = collections.Counter(want) - collections.Counter(flat)
            extra = collections.Counter(flat) - collections.Counter(want)
            if miss:
                return ('jobs:dropped-contig', 'contigs %r (with reads) get no job' % sorted(miss.elements()))
            return ('jobs:duplicate', 'contigs %r are processed more than once' % sorted(extra.elements()))
        if any(len(j) == 0 for j in jobs):
            return ('jobs:empty-job', 'an empty job is scheduled')
        return None

    @staticmethod
    def valid_from_default(res):
        if res is None or 'error' in res:
            return None
        return set(r['id'] for r in res['records'] if not (r['f'] & QCFAIL))

    # ------------------------------------------------------------------ contig selection (-contig / -skip_contig)
    SEL_OOD_NAMES = ('zz_unknown',)

    def sel_slice_cases(self):
        """job-list level: header, contigs with reads, -contig, -skip_contig, job mode"""
        quick = self.tier == 'quick'
        rng = self.rng
        cases = []
        K = 2 if quick else 3
        names, lens = ['k0', 'k1', 'k2'][:K], [700, 150000, 900][:K]
        hdr = [[n, l] for n, l in zip(names, lens)]
        for live in itertools.product((0, 1), repeat=K):
            for star in (0, 1):
                cwr = [[n, l] for n, l, v in zip(names, lens, live) if v] + ([['*', 0]] if star else [])
                for contig in [None] + names:
                    for r in range(K + 1):
                        for skip in itertools.combinations(names, r):
                            for mode in ('cpp', 'binned'):
                                cases.append({'hdr': hdr, 'cwr': cwr, 'contig': contig, 'skip': list(skip), 'mode': mode,
                                              'bp_per_job': 200000, 'bp_per_segment': 100000})
        self.n_exh_sel = len(cases)
        # corpus: selections that once showed a difference between the job modes (run first)
        d = os.path.join(fw.VERIF, 'corpus', 'C05')
        pre = []
        if os.path.isdir(d):
            for f in sorted(os.listdir(d)):
                if f.endswith('.json'):
                    j = json.load(open(os.path.join(d, f)))
                    if 'sel_slice' in j:
                        pre.append(j['sel_slice'])
        self.n_corpus_sel = len(pre)
        cases = pre + cases
        for _ in range(160 if quick else 2500):
            cl = [[n, min(l, 2 ** 31 - 2)] for n, l in gen_contig_list(rng, maxn=7)]
            live = [x for x in cl if x[0] != '*']
            used = set(n for n, _ in cl)
            extra = [[n, rng.choice([800, 99999, 100000, 4000000])] for n in rng.sample(['e1', 'e2', 'e3', 'chrUn'], rng.randint(0, 2))
                     if n not in used]
            hdr = live + extra
            rng.shuffle(hdr)
            if not hdr:
                hdr = [['chr1', 5000]]
            allnames = [n for n, _ in hdr]
            r = rng.random()
            if r < 0.35:
                contig = None
            elif r < 0.75 and live:
                contig = rng.choice(live)[0]
            elif r < 0.92:
                contig = rng.choice(allnames)
            else:
                contig = rng.choice(['*'] + list(self.SEL_OOD_NAMES))
            r = rng.random()
            if r < 0.1:
                skip = None                       # Python API default: no skip_contigs
            elif r < 0.35:
                skip = []
            else:
                skip = rng.sample(allnames, rng.randint(1, min(3, len(allnames))))
                if rng.random() < 0.15:
                    skip.append(rng.choice(['*', 'zz_unknown']))
            big = max(l for _, l in hdr)
            seg = rng.choice([10 ** 6, 50000, 3 * 10 ** 8, 999999999])
            seg = max(seg, big // 12 + 1)          # keep the number of regions per contig small
            cases.append({'hdr': hdr, 'cwr': cl, 'contig': contig, 'skip': skip, 'mode': rng.choice(['cpp', 'binned']),
                          'bp_per_job': rng.choice([10 ** 7, 100000, 1, 5 * 10 ** 8]), 'bp_per_segment': seg,
                          'fragment_size': rng.choice([0, 500, 1000])})
        return cases

    @staticmethod
    def sel_in_domain(names, contig):
        """-contig, when given, names a reference sequence of the header (C05x sc_ok)"""
        return contig is None or contig in names

    @staticmethod
    def enc_sel(names, contig, skip):
        """(sc, skip) for the model: header contigs by index, '*' = [], names the header does not know = 1000+"""
        other = {}

        def enc(n):
            if n == '*':
                return []
            if n in names:
                return [names.index(n)]
            return [other.setdefault(n, 1000 + len(other))]
        return ([] if contig is None else [enc(contig)]), [enc(n) for n in (skip or [])], enc

    def enc_sel_slice(self, case, variant):
        names = [n for n, _ in case['hdr']]
        sc, skip, enc = self.enc_sel(names, case['contig'], case['skip'])
        cwr = [[enc(n), l] for n, l in case['cwr']]
        hdr = [[i, l] for i, (n, l) in enumerate(case['hdr'])]
        inv = {'*': '*'}
        for n in set(names) | set(n for n, _ in case['cwr']) | set(case['skip'] or []) | ({case['contig']} if case['contig'] else set()):
            e = enc(n)
            inv['*' if e == [] else e[0]] = n
        return [2 if case['mode'] == 'binned' else variant, sc, skip, cwr, hdr, case['bp_per_job']], inv

    @staticmethod
    def dec_sel_jobs(v, inv):
        return [[inv['*' if c == [] else c[0]] for c in j] for j in v]

    @staticmethod
    def sel_whitelist(case):
        if case['contig'] is not None:
            return [case['contig']]
        sk = set(case['skip'] or [])
        return [c for c, _ in case['cwr'] if c not in sk]

    def sel_jobs_safety(self, case, jobs):
        """what BOTH variants of the job construction guarantee (C05_sel_jobs_as_coded / _repaired / _binned), evaluated on
        the implementation's job list: the unplaced bin exactly once; nothing scheduled twice (contig per process) /
        only header contigs (binned); every whitelisted contig with reads is scheduled.  returns (key, text) or None"""
        wl = set(self.sel_whitelist(case))
        hdrn = [n for n, _ in case['hdr']]
        reads = [c for c, _ in case['cwr'] if c != '*']
        flat = [t[0] for j in jobs for t in j]
        if flat.count('*') != 1:
            return ('seljobs:unplaced-bin', "the unplaced bin '*' is scheduled %d times" % flat.count('*'))
        if case['mode'] == 'cpp':
            cnt = collections.Counter(x for x in flat if x != '*')
            dup = sorted(c for c, k in cnt.items() if k > 1)
            if dup:
                return ('seljobs:duplicate', 'contigs %r are processed more than once' % dup)
            bad = sorted(c for c in cnt if c not in reads)
            if bad:
                return ('seljobs:no-reads', 'contigs %r without reads are scheduled' % bad)
            miss = sorted(c for c in reads if c in wl and c not in cnt)
            if miss:
                return ('seljobs:dropped-contig', 'selected contigs %r (with reads) get no job' % miss)
        else:
            sched = set(x for x in flat if x != '*')
            bad = sorted(c for c in sched if c not in hdrn or c not in wl)
            if bad:
                return ('seljobs:unselected-region', 'regions on %r, which the selection excludes, are scheduled' % bad)
            miss = sorted(c for c in reads if c in wl and c in hdrn and c not in sched)
            if miss:
                return ('seljobs:dropped-contig', 'selected contigs %r (with reads) get no region task' % miss)
        return None

    def sel_e2e_cases(self):
        """synthetic libraries tagged under a selection: single / --multiprocess / binned"""
        quick = self.tier == 'quick'
        rng = self.rng
        out = []

        def runs_for(c, sels, methods, p_binned):
            runs = []
            for sel in sels:
                for m in methods:
                    base = {'method': m, 'nr': False, 'contig': sel.get('contig'), 'skip': list(sel.get('skip') or [])}
                    if sel.get('ood'):
                        base['ood'] = True
                    runs.append(dict(base, mode='single'))
                    runs.append(dict(base, mode='multi', threads=rng.randint(1, 4)))
                    if not sel.get('ood') and rng.random() < p_binned:
                        runs.append(dict(base, mode='binned', threads=rng.randint(1, 3)))
            c['run_specs'] = runs
            c['runs'] = [spec_args(r) for r in runs]
            c['sel'] = True
            return c
        for i in range(6 if quick else 60):
            c = gen_case(rng, maxc=6, nfrag=rng.randint(3, 16))
            names = [n for n, _ in c['contigs']]
            live = sorted(set(names[r['t']] for r in c['records'] if r['t'] >= 0))
            sels = [{'contig': rng.choice(live) if live and rng.random() < 0.85 else rng.choice(names)}]
            k = rng.randint(1, min(2, len(names)))
            sels.append({'skip': rng.sample(live, min(k, len(live))) if live and rng.random() < 0.8 else rng.sample(names, k)})
            if rng.random() < 0.35:
                sels.append({'contig': rng.choice(names), 'skip': rng.sample(names, 1) + (['*'] if rng.random() < 0.3 else [])})
            if i < (1 if quick else 8):
                sels.append({'contig': rng.choice(['*', 'zz_unknown']), 'ood': True})
            methods = [rng.choice(['nla', 'chic'])] + (['qflag'] if rng.random() < (0.4 if quick else 0.6) else [])
            out.append(runs_for(c, sels, methods, 0.6 if quick else 0.8))
        # outside the hypothesis coloc: two mates that each claim the other on their own contig but lie on different contigs;
        # the whole-file iterator pairs them and the skip test keeps or drops the PAIR (model and code must still agree;
        # the statements are not evaluated on these libraries)
        for i in range(1 if quick else 12):
            c = gen_case(rng, maxc=5, nfrag=rng.randint(2, 8))
            while len(c['contigs']) < 2 or c['name_form'] != 'tags':
                c = gen_case(rng, maxc=5, nfrag=rng.randint(2, 8))
            a, b = rng.sample(range(len(c['contigs'])), 2)
            tg = {'SM': 'LIBA_2', 'BC': 'TTGCATGC', 'RX': 'GAT', 'MI': 'TTGCATGCGAT', 'LY': 'LIBA', 'Fc': 'HXXFC', 'La': '1'}
            nm = 'NS500:7:HXXFC:1:1101:777:%d' % (7000 + i)
            pa, pb = rng.randint(0, c['contigs'][a][1] - 30), rng.randint(0, c['contigs'][b][1] - 30)
            s1, s2 = 'CATG' + rand_seq(rng, 20), rand_seq(rng, 22)
            c['records'].append({'n': nm, 'f': PAIRED | MREV | R1, 't': a, 'p': pa, 'q': 60, 'c': '24M', 's': s1, 'ql': 'J' * 24,
                                 'nt': a, 'np': pa + 10, 'tags': dict(tg), 'kind': 'cross_mates'})
            c['records'].append({'n': nm, 'f': PAIRED | REV | R2, 't': b, 'p': pb, 'q': 60, 'c': '22M', 's': s2, 'ql': 'F' * 22,
                                 'nt': b, 'np': pb + 10, 'tags': dict(tg), 'kind': 'cross_mates'})
            c['records'].sort(key=lambda r: (r['t'] if r['t'] >= 0 else 10 ** 9, r['p']))
            for k, r in enumerate(c['records']):
                r['tags']['zi'] = k
            c['malformed'] = 'coloc'
            names = [n for n, _ in c['contigs']]
            sels = [{'skip': [names[b]]}, {'skip': [names[a]]}, {'contig': names[a]}]
            out.append(runs_for(c, sels if not quick else sels[:2], [rng.choice(['nla', 'chic', 'qflag'])], 0.5))
        lay = layout_cases(2 if quick else 3)
        if quick:
            lay = rng.sample(lay, 10)
        self.n_sel_layout = len(lay)
        for c in lay:
            names = [n for n, _ in c['contigs']]
            allsels = [{'contig': n} for n in names] + [{'skip': [n]} for n in names]
            sels = [rng.choice(allsels)] if quick else rng.sample(allsels, 2)
            out.append(runs_for(c, sels, ['nla'], 1.0))
        return out

    @staticmethod
    def sel_wanted(case, spec, contig_ignored=False):
        """records the selection asks for (C05x want_rec): the unplaced bin always; otherwise on the -contig contig (any
        when absent, or when the job mode ignores it) and not on a -skip_contig one"""
        names = [n for n, _ in case['contigs']]
        sk = set(spec.get('skip') or [])
        ct = None if contig_ignored else spec.get('contig')
        return [r for r in case['records'] if r['t'] < 0 or ((ct is None or names[r['t']] == ct) and names[r['t']] not in sk)]

    def sel_spec_violations(self, case, spec, res, base=None):
        """the statements of C05_sel_conserve_single / _multi_as_coded / _multi_repaired / _binned, transcribed to python
        and evaluated on the implementation's output only.  base: the single-process run with the same selection
        (tells which records belong to molecules with a cut site: only those are owed by region tasks, C08)"""
        if spec.get('ood'):
            return []
        names = [n for n, _ in case['contigs']]
        if not self.sel_in_domain(names, spec.get('contig')):
            return []
        if spec['mode'] == 'binned' and 'error' in res:
            # the binned job mode is driven through an overridden keyword of the Python API: a run that cannot be driven is a
            # broken tie (reported by the comparison with the model), not evidence of a lost record
            return []
        ignored = spec['mode'] == 'multi' and self.detect_variant() == 'as-coded'
        want = self.sel_wanted(case, spec, contig_ignored=ignored)
        pc = dict(case, records=want)
        vs = self.spec_violations(pc, spec, res, None)
        if spec['mode'] == 'binned' and 'error' not in res:
            vs = [v for v in vs if not v[0].startswith('e2e:missing-records')]
            if base is not None and 'error' not in base:
                sited = set(o['id'] for o in base['records'] if o.get('ds'))
                got = set(o['id'] for o in res['records'])
                miss = [r for r in want if not (r['f'] & (SEC | SUPP)) and r['tags']['zi'] in sited and r['tags']['zi'] not in got]
                if miss:
                    vs.append(('e2e:missing-records:binned', '%d selected record(s) of molecules with a cut site are not in the '
                               'output of the binned run: %r' % (len(miss), sorted(payload(r) for r in miss)[:3])))
        sel = ' '.join((['-contig', spec['contig']] if spec.get('contig') is not None else [])
                       + (['-skip_contig', ','.join(spec['skip'])] if spec.get('skip') else []))
        return [('sel:' + k, 'under %s: %s' % (sel or 'no selection', t)) for k, t in vs]

    def violations(self, case, spec, res, vids, base=None):
        if has_selection(spec):
            return self.sel_spec_violations(case, spec, res, base)
        return self.spec_violations(case, spec, res, vids)

    def detect_variant(self, slices=None, outs=None):
        """which one-contig-per-process job loop this tree has: 'as-coded' (the selection is not consulted) or 'repaired'
        (whitelist test, fixes/C05-D31.patch).  Decided on job lists where the two differ."""
        if getattr(self, 'sel_variant', None):
            return self.sel_variant
        probe = [{'hdr': [['k0', 700], ['k1', 150000]], 'cwr': [['k0', 700], ['k1', 150000], ['*', 0]], 'contig': 'k0', 'skip': [],
                  'mode': 'cpp', 'bp_per_job': 10 ** 7, 'bp_per_segment': 10 ** 6},
                 {'hdr': [['k0', 700], ['k1', 150000]], 'cwr': [['k0', 700], ['k1', 150000]], 'contig': None, 'skip': ['k1'],
                  'mode': 'cpp', 'bp_per_job': 10 ** 7, 'bp_per_segment': 10 ** 6}]
        r = fw.run_impl('impl_c05.py', {'sel': probe})['sel']
        self.sel_variant = 'as-coded'
        if 'outs' in r and all('jobs' in o for o in r['outs']):
            flat = [sorted(t[0] for j in o['jobs'] for t in j) for o in r['outs']]
            if flat == [['*', 'k0'], ['*', 'k0']]:
                self.sel_variant = 'repaired'
        return self.sel_variant

    def correspondence_sel(self, dis, spec_bad, sel_cases, sel_res):
        """K for the contig-selection part of the model (Model/C05x.v).  Appends to dis / spec_bad; returns the coverage dict
        and the (mode, input, output) triples available for the vm_compute cross-check"""
        cov, vm = {}, {10: [], 11: []}
        variant = self.detect_variant()
        vnum = 1 if variant == 'repaired' else 0
        cov['one_contig_per_process_variant'] = variant + (
            ' (job loop ignores contig_whitelist: -contig has no effect under --multiprocess; Props C05_sel_same_as_coded_refuted)'
            if variant == 'as-coded' else ' (job loop tests contig_whitelist)')
        # ---- job lists
        sl = self.sel_slices
        so = self.sel_sres
        if 'fatal' in so:
            raise fw.Broken('translator', 'tag_multiome_multi_processing could not be driven with a contig selection: ' + so['fatal'])
        outs = so['outs']
        if outs and all('error' in o for o in outs):
            raise fw.Broken('translator', 'tag_multiome_multi_processing could not be driven with a contig selection: '
                            + outs[0]['error'])
        hist_mode, hist_contig, hist_skip = collections.Counter(), collections.Counter(), collections.Counter()
        n_tr = n_dist = n_ood = 0
        self.sel_slice_bad = []
        menc = [self.enc_sel_slice(c, vnum) for c in sl]
        mj = fw.run_model('C05', 10, [e for e, _ in menc]) if self.model_ok else [None] * len(sl)
        mother = fw.run_model('C05', 10, [self.enc_sel_slice(c, 1 - vnum)[0] for c in sl]) if self.model_ok else [None] * len(sl)
        for c, o, (e, inv), m, m2 in zip(sl, outs, menc, mj, mother):
            names = [n for n, _ in c['hdr']]
            reads = [n for n, _ in c['cwr'] if n != '*']
            hist_mode[c['mode']] += 1
            hist_contig['absent' if c['contig'] is None else 'with-reads' if c['contig'] in reads else
                        'header-no-reads' if c['contig'] in names else 'out-of-domain'] += 1
            hist_skip['None' if c['skip'] is None else str(len(c['skip']))] += 1
            if not self.sel_in_domain(names, c['contig']):
                n_ood += 1        # -contig '*' / a name the header does not know: outside sc_ok, observed only
                continue
            if 'error' in o:
                dis.append({'level': 'sel-slice', 'input': c, 'impl_error': o['error']})
                continue
            k = self.sel_jobs_safety(c, o['jobs'])
            if k:
                self.sel_slice_bad.append((c, k, o['jobs']))
            if m is None:
                continue
            n_tr += 1
            mjobs = self.dec_sel_jobs(m, inv)
            if c['mode'] == 'cpp':
                a, b = canon_jobs([[t[0] for t in j] for j in o['jobs']]), canon_jobs(mjobs)
                if canon_jobs(self.dec_sel_jobs(m2, inv)) != b:
                    n_dist += 1
            else:
                a, b = canon_binned(o['jobs']), canon_binned([[[x] for x in j] for j in mjobs])
            if a != b:
                dis.append({'level': 'sel-slice', 'input': c, 'impl': [[t[0] for t in j] for j in o['jobs']], 'model': mjobs,
                            'model_variant': variant})
            elif len(vm[10]) < 400:
                vm[10].append((e, m))
        if self.sel_slice_bad:
            c, k, jobs = min(self.sel_slice_bad, key=lambda x: len(json.dumps(x[0])))
            spec_bad.append({'key': k[0], 'what': k[1], 'sel_slice': c})
        # ---- end to end
        n_runs = n_tr2 = n_cut = n_d31 = n_sited_only = 0
        by_mode = collections.Counter()
        ood_obs = collections.Counter()
        minputs, mmeta = [], []
        nontrivial = set()
        for ci, (c, r) in enumerate(zip(sel_cases, sel_res)):
            if 'fatal' in r:
                dis.append({'level': 'sel-e2e', 'case': ci, 'impl_error': r['fatal']})
                continue
            names = [n for n, _ in c['contigs']]
            singles = {}
            for spec, rr in zip(c['run_specs'], r['runs']):
                if spec['mode'] == 'single':
                    singles[(spec['method'], spec.get('contig'), tuple(spec.get('skip') or []))] = rr
            for si, (spec, rr) in enumerate(zip(c['run_specs'], r['runs'])):
                n_runs += 1
                by_mode[spec['mode']] += 1
                base = singles.get((spec['method'], spec.get('contig'), tuple(spec.get('skip') or [])))
                if spec.get('ood') or not self.sel_in_domain(names, spec.get('contig')):
                    if 'error' in rr:
                        ood_obs['%s -contig %s: %s' % (spec['mode'], spec.get('contig'), rr['error'].split(':')[0])] += 1
                    else:
                        ids = [o['id'] for o in rr['records']]
                        ood_obs['%s -contig %s: %s' % (spec['mode'], spec.get('contig'),
                                                        'records written twice' if len(ids) != len(set(ids)) else
                                                        'whole file' if len(ids) >= len([x for x in c['records'] if not x['f'] & (SEC | SUPP)])
                                                        else 'subset')] += 1
                    continue
                if not c.get('malformed'):
                    for k, t in self.sel_spec_violations(c, spec, rr, base):
                        spec_bad.append({'key': k, 'what': t, 'sel_case': ci, 'run': si})
                want = self.sel_wanted(c, spec)
                prim = [x for x in c['records'] if not x['f'] & (SEC | SUPP)]
                if len(want) < len(c['records']) and any(x['t'] >= 0 for x in want):
                    n_cut += 1
                    nontrivial.add(fw.canon_hash([c['contigs'], spec.get('contig'), spec.get('skip'), spec['mode'], spec['method'],
                                                  [[x['n'], x['f'], x['t'], x['p']] for x in c['records']]]))
                if spec['mode'] == 'multi' and spec.get('contig') is not None and 'error' not in rr and base and 'error' not in base:
                    if collections.Counter(o['id'] for o in rr['records']) != collections.Counter(o['id'] for o in base['records']):
                        n_d31 += 1
                minp, rginv = self.enc_case(c, spec, None)
                sc, skip, _ = self.enc_sel(names, spec.get('contig'), spec.get('skip'))
                how = {'single': 0, 'multi': 1 + vnum, 'binned': 3}[spec['mode']]
                minputs.append(minp + [[how, sc, skip, 10 ** 7]])
                mmeta.append((ci, spec, rr, rginv, base))
        pre_hits = specb_true = None
        if self.model_ok and minputs:
            mout = fw.run_model('C05', 11, minputs)
            pre = fw.run_model('C05', 13, [[m[4][1], m[1], m[2]] for m in minputs])
            pre_hits = sum(1 for p in pre if p == 1) / len(pre)
            sb_in, sb_meta = [], []
            for (ci, spec, rr, rginv, base), mi, mo, p in zip(mmeta, minputs, mout, pre):
                n_tr2 += 1
                if mo[0] == 0:
                    want = {1: 'Second read is unpaired', 2: 'Supply first R1 then R2', 3: 'invalid contig'}[mo[1]]
                    if 'error' not in rr or want not in rr['error']:
                        dis.append({'level': 'sel-e2e', 'case': ci, 'run': spec, 'model': 'Raise %d (%s)' % (mo[1], want),
                                    'impl': rr.get('error', '%d records' % len(rr.get('records', [])))})
                    continue
                if 'error' in rr:
                    dis.append({'level': 'sel-e2e', 'case': ci, 'run': spec, 'model': '%d records' % len(mo[2]),
                                'impl_error': rr['error'], 'where': rr.get('where')})
                    continue
                if spec['mode'] == 'binned':
                    # region tasks owe only the molecules that have a cut site (C08); contig selection is what is compared
                    a = collections.Counter(row[0] for row in mo[2])
                    b = collections.Counter(o['id'] for o in rr['records'])
                    sited = set(o['id'] for o in base['records'] if o.get('ds')) if base and 'error' not in base else set()
                    only_impl = sorted((b - a).elements())
                    only_model = sorted(x for x in (a - b).elements() if x in sited)
                    if (a - b):
                        n_sited_only += 1
                    if only_impl or only_model:
                        dis.append({'level': 'sel-e2e', 'case': ci, 'run': spec, 'only_model_ids_with_site': only_model[:6],
                                    'only_impl_ids': only_impl[:6], 'n_model': sum(a.values()), 'n_impl': sum(b.values())})
                    continue
                mrows = sorted([row[0], row[1], row[2], rginv[row[3]]] for row in mo[2])
                irows = sorted([o['id'], 1 if o['f'] & R1 else 0, 1 if o['f'] & R2 else 0, o['rg']] for o in rr['records'])
                mrg = sorted(set(rginv[g] for g in mo[1]))
                irg = sorted(set(rr['rg_ids']))
                if mrows != irows:
                    a, b = collections.Counter(map(tuple, mrows)), collections.Counter(map(tuple, irows))
                    dis.append({'level': 'sel-e2e', 'case': ci, 'run': spec, 'model_variant': variant,
                                'only_model': sorted((a - b).elements())[:4], 'only_impl': sorted((b - a).elements())[:4],
                                'n_model': len(mrows), 'n_impl': len(irows)})
                elif mrg != irg:
                    dis.append({'level': 'sel-e2e', 'case': ci, 'run': spec, 'header_rg_model': mrg, 'header_rg_impl': irg})
                else:
                    if len(mi[2]) <= 24 and len(vm[11]) < 300:
                        vm[11].append((mi, mo))
                    if p == 1:
                        # the boolean specification of the theorems (Model specb_sel) on the IMPLEMENTATION's rows
                        rg_id = {v: k for k, v in rginv.items()}
                        if all(o['rg'] in rg_id for o in rr['records']) and all(g in rg_id for g in rr['rg_ids']):
                            ignored = spec['mode'] == 'multi' and variant == 'as-coded'
                            sb_in.append([[[] if ignored else mi[4][1], mi[4][2], mi[0][1]], mi[2], [rg_id[g] for g in rr['rg_ids']],
                                          [[o['id'], 1 if o['f'] & R1 else 0, 1 if o['f'] & R2 else 0, rg_id[o['rg']]] for o in rr['records']]])
                            sb_meta.append((ci, spec))
            if sb_in:
                sb = fw.run_model('C05', 12, sb_in)
                specb_true = sum(1 for x in sb if x == 1)
                for x, (ci, spec) in zip(sb, sb_meta):
                    if x != 1:
                        spec_bad.append({'key': 'sel:specb', 'what': 'specb_sel (the statement of C05_sel_conserve_*) is false on the '
                                         'output of %s' % ' '.join(spec_args(spec)), 'sel_case': ci,
                                         'run': sel_cases[ci]['run_specs'].index(spec)})
        cov.update({
            'job_list_cases': len(sl), 'job_list_exhaustive': self.n_exh_sel, 'job_list_corpus': getattr(self, 'n_corpus_sel', 0),
            'job_list_exhaustive_scope': 'every subset of %d header contigs (small, LARGE%s) with reads x unplaced reads yes/no x -contig absent / each '
                                         'contig x every -skip_contig subset x {one contig per process, binned}'
                                         % ((2, '') if self.tier == 'quick' else (3, ', small')),
            'job_list_cases_where_variants_differ': n_dist, 'job_list_out_of_domain_not_compared': n_ood,
            'hist_job_mode': dict(hist_mode), 'hist_contig_option': dict(hist_contig), 'hist_skip_option_size': dict(sorted(hist_skip.items())),
            'job_list_traces': n_tr,
            'libraries': len(sel_cases), 'layout_libraries': getattr(self, 'n_sel_layout', 0),
            'libraries_outside_coloc_hypothesis': sum(1 for c in sel_cases if c.get('malformed')),
            'tagger_runs': n_runs, 'tagger_runs_by_mode': dict(by_mode),
            'runs_where_the_selection_removes_records': n_cut,
            'multiprocess_runs_with_contig_option_that_differ_from_single_process': n_d31,
            'binned_runs_missing_only_siteless_records': n_sited_only,
            'out_of_domain_runs_observed_not_compared': dict(ood_obs),
            'pre_sel_hit_rate': None if pre_hits is None else round(pre_hits, 4),
            'specb_sel_true_on_impl_outputs': specb_true,
            'e2e_traces': n_tr2,
        })
        self.sel_nontrivial = len(nontrivial) + len(set(json.dumps(c, sort_keys=True) for c in sl if (c['contig'] is not None or c['skip'])))
        self.sel_evals = len(sl) + n_runs
        self.sel_traces = n_tr + n_tr2
        return cov, vm

    # ------------------------------------------------------------------ K
    def correspondence(self):
        t0 = time.time()
        csl, ce2e = self.corpus_cases()
        for c in ce2e:
            if 'runs' not in c:
                c['run_specs'] = [{'method': m, 'mode': mo, 'threads': 2, 'nr': False} for m in METHODS for mo in ('single', 'multi')]
                c['runs'] = [spec_args(r) for r in c['run_specs']]
        slices = csl + self.slice_cases()
        cases = ce2e + self.e2e_cases()
        # contig selection (-contig / -skip_contig): generated after the default-option inputs (their stream is unchanged)
        self.sel_slices = self.sel_slice_cases()
        sel_cases = self.sel_e2e_cases()
        self.sel_cases = sel_cases
        self.slices, self.cases = slices, cases
        with ThreadPoolExecutor(max_workers=1) as ex:      # the job-list runs overlap with the tagger runs
            fut = ex.submit(fw.run_impl, 'impl_c05.py', {'slice': slices, 'sel': self.sel_slices})
            allres = self.run_impl_cases(cases + sel_cases)
            both = fut.result()
        sres = both['slice']
        self.sres = sres
        self.sel_sres = both['sel']
        cres = allres[:len(cases)]
        self.cres = cres
        self.sel_cres = allres[len(cases):]
        dis = []
        # ---- slice
        if 'fatal' in sres:
            raise fw.Broken('translator', 'job-construction block of tag_multiome_multi_processing not found / not runnable: '
                            + sres['fatal'])
        self.cov['slice_source_lines'] = sres['lines']
        n_traces = 0
        if self.model_ok:
            encs = [self.enc_slice(cl) for cl in slices]
            mj = fw.run_model('C05', 3, [e for e, _ in encs])
            for cl, (e, inv), o, m in zip(slices, encs, sres['outs'], mj):
                n_traces += 1
                if 'error' in o:
                    dis.append({'level': 'slice', 'input': cl, 'impl_error': o['error']})
                elif canon_jobs(o['jobs']) != canon_jobs(self.dec_jobs(m, inv)):
                    dis.append({'level': 'slice', 'input': cl, 'impl': o['jobs'], 'model': self.dec_jobs(m, inv)})
        # ---- end to end
        spec_bad = []
        n_runs = n_retag = 0
        hist_kind, hist_contigs, hist_layout = collections.Counter(), collections.Counter(), collections.Counter()
        minputs, mmeta = [], []
        nontrivial = set()
        for ci, (c, r) in enumerate(zip(cases, cres)):
            hist_contigs[len(c['contigs'])] += 1
            small = sum(1 for _, l in c['contigs'] if l < THR)
            hist_layout['all-small' if small == len(c['contigs']) else 'all-large' if small == 0 else 'mixed'] += 1
            for x in c['records']:
                hist_kind[x.get('kind', '?')] += 1
            if 'fatal' in r:
                dis.append({'level': 'e2e', 'case': ci, 'impl_error': r['fatal']})
                continue
            # htslib must have stored what we generated (sanity of the harness, not of the tagger)
            if 'records' in r['input'] and collections.Counter(raw_payload(x) for x in r['input']['records']) != collections.Counter(raw_payload(x) for x in c['records']):
                raise RuntimeError('harness: the synthetic BAM does not read back as generated (case %d)' % ci)
            valid = {}
            for spec, rr in zip(c['run_specs'], r['runs']):
                if spec['mode'] == 'single' and not spec['nr']:
                    valid[spec['method']] = self.valid_from_default(rr)
            for si, (spec, rr) in enumerate(zip(c['run_specs'], r['runs'])):
                n_runs += 1
                vids = valid.get(spec['method']) if spec['nr'] else None
                if spec['nr'] and vids is None:
                    continue       # the default run failed; reported there
                if not c.get('malformed'):
                    for k, t in self.spec_violations(c, spec, rr, vids):
                        spec_bad.append({'key': k, 'what': t, 'case': ci, 'run': si})
                if c.get('nomodel'):
                    continue       # large library: the specification on the output only
                minp, rginv = self.enc_case(c, spec, vids)
                minputs.append(minp)
                mmeta.append((ci, spec, rr, rginv, c))
            # histories: stage 2 of a re-tagging takes the read-back output of stage 1 as its input
            for (j, sp2), rr2 in zip(c.get('retag_specs', []), r.get('retag', [])):
                r1 = r['runs'][j]
                if 'error' in r1:
                    continue
                n_runs += 1
                n_retag += 1
                pc = self.pseudo_case(c, r1)
                sp2 = dict(sp2, history='output of %r tagged again' % (c['runs'][j],))
                for k, t in self.spec_violations(pc, sp2, rr2, None):
                    spec_bad.append({'key': k, 'what': 'history [%s, then %s]: %s' % (' '.join(c['runs'][j]), ' '.join(spec_args(sp2)), t),
                                     'case': ci, 'retag': [j, sp2]})
                minp, rginv = self.enc_case(pc, sp2, None)
                minputs.append(minp)
                mmeta.append((ci, sp2, rr2, rginv, pc))
            if len(set(t for t, _ in [(x['t'], 0) for x in c['records']])) > 1 and len(c['records']) >= 4:
                nontrivial.add(fw.canon_hash([c['contigs'], [[x['n'], x['f'], x['t'], x['p']] for x in c['records']]]))
        self.spec_bad = spec_bad
        sel_cov, sel_vm = self.correspondence_sel(dis, spec_bad, sel_cases, self.sel_cres)
        pre_hits = None
        if self.model_ok and minputs:
            mout = fw.run_model('C05', 0, minputs)
            pre = fw.run_model('C05', 1, minputs)
            pre_hits = sum(1 for p in pre if p == 1) / len(pre)
            for (ci, spec, rr, rginv, c), mi, mo, p in zip(mmeta, minputs, mout, pre):
                n_traces += 1
                if c.get('malformed') and p == 1:
                    pass
                if mo[0] == 0:      # model raises
                    want = {1: 'Second read is unpaired', 2: 'Supply first R1 then R2'}[mo[1]]
                    if 'error' not in rr or want not in rr['error']:
                        dis.append({'level': 'e2e', 'case': ci, 'run': spec, 'model': 'Raise %d (%s)' % (mo[1], want),
                                    'impl': rr.get('error', '%d records' % len(rr.get('records', [])))})
                    continue
                if 'error' in rr:
                    dis.append({'level': 'e2e', 'case': ci, 'run': spec, 'model': '%d records' % len(mo[2]), 'impl_error': rr['error'],
                                'where': rr.get('where')})
                    continue
                mrows = sorted([row[0], row[1], row[2], rginv[row[3]]] for row in mo[2])
                irows = sorted([o['id'], 1 if o['f'] & R1 else 0, 1 if o['f'] & R2 else 0, o['rg']] for o in rr['records'])
                mrg = sorted(set(rginv[g] for g in mo[1]))
                irg = sorted(set(rr['rg_ids']))
                if mrows != irows:
                    a, b = collections.Counter(map(tuple, mrows)), collections.Counter(map(tuple, irows))
                    dis.append({'level': 'e2e', 'case': ci, 'run': spec, 'only_model': sorted((a - b).elements())[:4],
                                'only_impl': sorted((b - a).elements())[:4], 'n_model': len(mrows), 'n_impl': len(irows)})
                elif mrg != irg:
                    dis.append({'level': 'e2e', 'case': ci, 'run': spec, 'header_rg_model': mrg, 'header_rg_impl': irg})
        n_inv = sum(v for k, v in hist_kind.items() if k.endswith('_qcfail') or k in ('invalid_motif', 'invalid_orient', 'qcfail', 'half', 'unmapped_pair', 'unmapped_single', 'orphan_unmapped'))
        self.cov.update({
            'evaluations': len(slices) + n_runs + self.sel_evals,
            'evaluations_default_options': len(slices) + n_runs,
            'evaluations_contig_selection': self.sel_evals,
            'distinct_nontrivial': len(set(fw.canon_hash(s) for s in slices if len(s) >= 2)) + len(nontrivial) + self.sel_nontrivial,
            'contig_selection': sel_cov,
            'rule_contig_selection': 'job lists: (header, contigs with reads, -contig, -skip_contig, job mode) through the real '
                    'tag_multiome_multi_processing (get_contigs_with_reads stubbed, generate_tasks intercepted, real header BAM); '
                    'non-trivial = a -contig or a non-empty -skip_contig is given, distinct by content. end-to-end: synthetic BAM x '
                    'selection x (single, --multiprocess, binned via one_contig_per_process=False); non-trivial = the selection '
                    'removes at least one record and keeps at least one placed record, distinct by (library, selection, mode, method)',
            'rule': 'slice: contig lists (exhaustive small/LARGE/* patterns up to length %d + random lists up to 12 contigs); non-trivial = '
                    'at least 2 entries, distinct by content. end-to-end: synthetic BAM libraries x (nla, chic, qflag) x (single, '
                    '--multiprocess with -tagthreads 1..4) + --no_rejects runs; non-trivial = records on >= 2 different contigs/bins '
                    'and >= 4 records, distinct by (header, names, flags, positions)' % (5 if self.tier == 'quick' else 7),
            'slice_cases': len(slices), 'slice_exhaustive_patterns': self.n_exh_slice,
            'libraries': len(cases), 'tagger_runs': n_runs, 'records_total': sum(len(c['records']) for c in cases),
            'hist_contigs_per_library': dict(sorted(hist_contigs.items())), 'hist_layout': dict(hist_layout),
            'hist_record_kind': dict(hist_kind), 'records_in_rejected_kinds': n_inv,
            'malformed_libraries': sum(1 for c in cases if c.get('malformed')),
            'query_name_encoded_libraries': sum(1 for c in cases if c.get('name_form') == 'qname'),
            'multi_lane_molecule_libraries': sum(1 for c in cases if c.get('lanes')),
            'libraries_with_input_RG_tags': dict(collections.Counter(c['rg_mode'] for c in cases if c.get('rg_mode'))),
            'libraries_with_input_RG_header': sum(1 for c in cases if c.get('rg_header')),
            'stale_index_histories': sum(1 for c in cases if c.get('stale')),
            'retag_histories': n_retag,
            'runs_with_read_group_format_1': sum(1 for c in cases for sp in c['run_specs'] if sp.get('fmt')),
            'large_libraries': [{'records': len(c['records']), 'runs': len(c['runs'])} for c in cases if c.get('large')],
            'read_groups_per_library_hist': dict(sorted(collections.Counter(
                len(set(rec_rg(x) for x in c['records'])) for c in cases if not c.get('large')).items())),
            'precondition_hit_rate': None if pre_hits is None else round(pre_hits, 4),
            'traces_validated_against_impl': n_traces + self.sel_traces,
            'spec_violations_on_impl': len(spec_bad), 'disagreements': len(dis),
            'exhaustive': False,
            'exhaustive_scope': 'slice: all small/LARGE/* patterns up to length %d; end-to-end: all %d layouts of 1..%d contigs over '
                                '{small, LARGE} x non-empty subsets carrying one pair x with/without an unplaced read'
                                % (5 if self.tier == 'quick' else 7, getattr(self, 'n_layout', 0), 2 if self.tier == 'quick' else 4),
            'layout_libraries': getattr(self, 'n_layout', 0),
            'samples': [{'slice_input': slices[len(csl) + 40], 'impl_jobs': sres['outs'][len(csl) + 40].get('jobs')},
                        {'library': {'contigs': cases[len(ce2e)]['contigs'], 'n_records': len(cases[len(ce2e)]['records']),
                                     'first_records': [[x['n'], x['f'], x['t'], x['p'], x['c']] for x in cases[len(ce2e)]['records'][:4]]},
                         'runs': [{'args': a, 'n_out': len(rr.get('records', [])), 'error': rr.get('error')}
                                  for a, rr in zip(cases[len(ce2e)]['runs'], cres[len(ce2e)].get('runs', []))][:4]}],
            'impl_wall_s': round(time.time() - t0, 1),
        })
        if self.model_ok:
            # vm_compute cross-check of the extracted binary
            idx = self.rng.sample(range(len(slices)), 35)
            encs = [self.enc_slice(slices[i])[0] for i in idx]
            outs = fw.run_model('C05', 3, encs)
            small = [i for i, m in enumerate(minputs) if len(m[2]) <= 24][:400]
            idx2 = self.rng.sample(small, min(25, len(small)))
            g10 = self.rng.sample(sel_vm[10], min(25, len(sel_vm[10])))
            g11 = self.rng.sample(sel_vm[11], min(15, len(sel_vm[11])))
            groups = [(3, list(zip(encs, outs))), (0, [(minputs[i], mout[i]) for i in idx2]), (10, g10), (11, g11)]
            groups = [g for g in groups if g[1]]
            ok, nm, ncases, log = vm_crosscheck_multi(groups)
            self.cov['vm_compute_crosscheck'] = {'cases': ncases, 'mismatches': max(nm, 0),
                                                 'by_mode': {str(m): len(pp) for m, pp in groups}}
            if not ok:
                raise fw.Broken('extraction', 'vm_compute and extracted model disagree: ' + log[-800:])
        if dis:
            self.dis = dis
            hint = ''
            sd = [d for d in dis if d['level'] == 'slice' and 'impl' in d]
            if sd and self.model_ok:
                encs = [self.enc_slice(d['input']) for d in sd]
                old = fw.run_model('C05', 4, [e for e, _ in encs])
                if all(self.dec_jobs(o, inv) == d['impl'] for d, (e, inv), o in zip(sd, encs, old)):
                    hint = ' [the job block of this tree behaves exactly like the unrepaired D8 block (Model contig_jobs_old)]'
            raise fw.Broken('correspondence', 'model and implementation disagree on %d cases%s; first: %s'
                            % (len(dis), hint, json.dumps(dis[0], default=str)[:1500]))
        if spec_bad:
            raise fw.Broken('correspondence', 'the implementation violates the specification on %d runs; first: %s'
                            % (len(spec_bad), spec_bad[0]['what'][:800]))

    # ------------------------------------------------------------------ search
    def shrink_slice(self, cl):
        def bad(x):
            o = fw.run_impl('impl_c05.py', {'slice': [x]})['slice']
            if 'fatal' in o or 'error' in o['outs'][0]:
                return None
            return self.jobs_spec(x, o['outs'][0]['jobs'])
        cur, v = cl, bad(cl)
        changed = True
        while changed and len(cur) > 1:
            changed = False
            for i in range(len(cur)):
                t = cur[:i] + cur[i + 1:]
                w = bad(t)
                if w and w[0] == v[0]:
                    cur, v, changed = t, w, True
                    break
        return cur, v

    def shrink_case(self, case, spec, key):
        """greedy removal of whole fragments (by query name) and of empty contigs while the same violation persists"""
        def run(c):
            c2 = dict(c)
            runs = [{'method': spec['method'], 'mode': 'single', 'nr': False}]
            if has_selection(spec) and spec['mode'] != 'single':
                runs.append(dict(spec, mode='single'))      # the same selection in a single process (site oracle for binned)
            if spec['nr'] or spec['mode'] != 'single' or has_selection(spec):
                runs.append(spec)
            c2['run_specs'] = runs
            c2['runs'] = [spec_args(r) for r in runs]
            r = self.run_impl_cases([c2], workers=1)[0]
            if 'fatal' in r:
                return None
            vids = self.valid_from_default(r['runs'][0]) if spec['nr'] else None
            if spec['nr'] and vids is None:
                return None
            base = r['runs'][1] if len(runs) == 3 else None
            v = [x for x in self.violations(c2, spec, r['runs'][-1], vids, base) if x[0] == key]
            return (v[0], r['runs'][-1]) if v else None
        cur = {k: case[k] for k in ('contigs', 'records', 'rg_header', 'stale') if k in case}
        best = run(cur)
        if not best:
            return cur, None
        budget = 0 if len(case['records']) > 2000 else 60
        changed = True
        while changed and budget > 0:
            changed = False
            names = []
            for r in cur['records']:
                if r['n'] not in names:
                    names.append(r['n'])
            for n in names:
                if len(names) <= 1 or budget <= 0:
                    break
                budget -= 1
                recs = [json.loads(json.dumps(r)) for r in cur['records'] if r['n'] != n]
                t = dict(cur, records=recs)
                w = run(t)
                if w:
                    cur, best, changed = t, w, True
                    break
        # drop contigs that carry no record (one at a time; indices of the others shift)
        changed = True
        while changed and budget > 0 and len(cur['contigs']) > 1 and 'stale' not in cur:
            changed = False
            used = set(r['t'] for r in cur['records']) | set(r['nt'] for r in cur['records'])
            for i in range(len(cur['contigs'])):
                if i in used or budget <= 0:
                    continue
                budget -= 1
                recs = [json.loads(json.dumps(r)) for r in cur['records']]
                for r in recs:
                    for k in ('t', 'nt'):
                        if r[k] > i:
                            r[k] -= 1
                t = dict(cur, contigs=cur['contigs'][:i] + cur['contigs'][i + 1:], records=recs)
                w = run(t)
                if w:
                    cur, best, changed = t, w, True
                    break
        return cur, best

    def search(self):
        if not hasattr(self, 'sres'):
            csl, ce2e = self.corpus_cases()
            self.slices = csl + self.slice_cases()
            self.sres = fw.run_impl('impl_c05.py', {'slice': self.slices})['slice']
            self.cases, self.cres, self.spec_bad = [], [], []
        # job list
        if 'fatal' not in self.sres:
            worst = {}
            for cl, o in zip(self.slices, self.sres['outs']):
                if 'error' in o:
                    k = ('jobs:error', 'job construction raised ' + o['error'])
                else:
                    k = self.jobs_spec(cl, o['jobs'])
                if k and (k[0] not in worst or len(cl) < len(worst[k[0]][0])):
                    worst[k[0]] = (cl, k, o)
            for key, (cl, k, o) in sorted(worst.items()):
                if key != 'jobs:error':
                    try:
                        cl, k2 = self.shrink_slice(cl)
                        k = k2 or k
                        o = fw.run_impl('impl_c05.py', {'slice': [cl]})['slice']['outs'][0]
                    except Exception:
                        pass
                self.witnesses.append({'key': key, 'what': 'one_contig_per_process job list for contigs-with-reads %r: %s' % (cl, k[1]),
                                       'input': cl, 'impl': o.get('jobs', o.get('error')),
                                       'expected': "each of '*' and the listed contigs in exactly one job"})
        # contig selection: job lists (the safety conditions both variants of the job loop guarantee)
        self.detect_variant()
        if not hasattr(self, 'sel_sres'):
            self.sel_slices = self.sel_slice_cases()
            self.sel_sres = fw.run_impl('impl_c05.py', {'sel': self.sel_slices})['sel']
            self.sel_slice_bad = []
            for c, o in zip(self.sel_slices, self.sel_sres.get('outs', [])):
                if 'jobs' in o and self.sel_in_domain([n for n, _ in c['hdr']], c['contig']):
                    k = self.sel_jobs_safety(c, o['jobs'])
                    if k:
                        self.sel_slice_bad.append((c, k, o['jobs']))
        worst = {}
        for c, k, jobs in getattr(self, 'sel_slice_bad', []):
            if k[0] not in worst or len(json.dumps(c)) < len(json.dumps(worst[k[0]][0])):
                worst[k[0]] = (c, k, jobs)
        for key, (c, k, jobs) in sorted(worst.items()):
            try:
                c, k, jobs = self.shrink_sel_slice(c, k, jobs)
            except Exception as e:
                self.notes.append('shrinking failed: %r' % (e,))
            self.witnesses.append({'key': key, 'what': 'tag_multiome_multi_processing(one_contig_per_process=%s) with -contig %r, '
                                   '-skip_contig %r, contigs with reads %r: %s' % (c['mode'] == 'cpp', c['contig'], c['skip'], c['cwr'], k[1]),
                                   'input': c, 'impl': [[t[0] for t in j] for j in jobs],
                                   'expected': "the unplaced bin once; every selected contig with reads scheduled, none twice; "
                                               "binned: no region on an unselected contig"})
        # end to end: the specification on the implementation's output
        seen = set()

        def case_of(b):
            return self.sel_cases[b['sel_case']] if 'sel_case' in b else self.cases[b['case']]
        for b in sorted([b for b in getattr(self, 'spec_bad', []) if 'sel_slice' not in b], key=lambda b: len(case_of(b)['records'])):
            if b['key'] in seen or len(seen) >= 4:
                continue
            seen.add(b['key'])
            c = case_of(b)
            if 'retag' in b:      # a history of two tagger runs: reported with the whole library
                j, sp2 = b['retag']
                self.witnesses.append({'key': b['key'], 'what': b['what'], 'history': [c['runs'][j], spec_args(sp2)], 'run2': sp2,
                                       'input': {k: c[k] for k in ('contigs', 'records', 'rg_header', 'stale') if k in c},
                                       'expected': 'every record of the first output exactly once in the second, RG declared'})
                continue
            spec = c['run_specs'][b['run']]
            what, small, impl = b['what'], {k: c[k] for k in ('contigs', 'records', 'rg_header', 'stale') if k in c}, None
            try:
                small, best = self.shrink_case(c, spec, b['key'])
                if best:
                    what, impl = best[0][1], {'n_out': len(best[1].get('records', [])), 'error': best[1].get('error')}
            except Exception as e:
                self.notes.append('shrinking failed: %r' % (e,))
            self.witnesses.append({'key': b['key'], 'what': what, 'run': spec,
                                   'args': spec_args(spec),
                                   'input': small,
                                   'history': ('the input file was regenerated in place; the index of its earlier version (records '
                                               'input.stale) is still next to it, older than the BAM') if 'stale' in small else None,
                                   'impl': impl,
                                   'expected': ('exactly the records the selection asks for (unplaced bin + selected contigs), each once, '
                                                'unchanged; sorted, indexed, RG declared') if has_selection(spec) else
                                               'every primary input record exactly once, unchanged; sorted, indexed, RG declared'})

    def shrink_sel_slice(self, c, k, jobs):
        def bad(x):
            o = fw.run_impl('impl_c05.py', {'sel': [x]})['sel']
            if 'fatal' in o or 'jobs' not in o['outs'][0]:
                return None
            w = self.sel_jobs_safety(x, o['outs'][0]['jobs'])
            return (w, o['outs'][0]['jobs']) if w and w[0] == k[0] else None
        cur = dict(c)
        changed, budget = True, 40
        while changed and budget > 0:
            changed = False
            cands = []
            for i in range(len(cur['cwr'])):
                cands.append(dict(cur, cwr=cur['cwr'][:i] + cur['cwr'][i + 1:]))
            for i in range(len(cur['hdr'])):
                if len(cur['hdr']) > 1 and cur['hdr'][i][0] != cur['contig']:
                    n = cur['hdr'][i][0]
                    cands.append(dict(cur, hdr=cur['hdr'][:i] + cur['hdr'][i + 1:], cwr=[x for x in cur['cwr'] if x[0] != n]))
            for i in range(len(cur['skip'] or [])):
                cands.append(dict(cur, skip=cur['skip'][:i] + cur['skip'][i + 1:]))
            for t in cands:
                budget -= 1
                w = bad(t)
                if w:
                    cur, (k, jobs), changed = t, w, True
                    break
                if budget <= 0:
                    break
        return cur, k, jobs

    def replay(self, data):
        w = data.get('witness') or {}
        print(json.dumps({k: w.get(k) for k in ('key', 'what', 'args', 'run')}, indent=1, default=str))
        if w.get('key', '').startswith('jobs:'):
            o = fw.run_impl('impl_c05.py', {'slice': [w['input']]})['slice']
            print('job list on the current tree:', json.dumps(o.get('outs', o)))
            if 'outs' in o and 'jobs' in o['outs'][0]:
                k = self.jobs_spec(w['input'], o['outs'][0]['jobs'])
                print('VIOLATES' if k else 'ok', k or '')
                return 1 if k else 0
            return 1
        if w.get('key', '').startswith('seljobs:'):
            o = fw.run_impl('impl_c05.py', {'sel': [w['input']]})['sel']
            print('job list on the current tree:', json.dumps(o.get('outs', o))[:2000])
            if 'outs' in o and 'jobs' in o['outs'][0]:
                k = self.sel_jobs_safety(w['input'], o['outs'][0]['jobs'])
                print('VIOLATES' if k else 'ok', k or '')
                return 1 if k else 0
            return 1
        if w.get('input') and w.get('history') and w.get('run2'):
            c, sp2 = w['input'], w['run2']
            c['run_specs'], c['runs'] = [], [w['history'][0]]
            c['retag'] = [[0, w['history'][1]]]
            r = self.run_impl_cases([c], workers=1)[0]
            v = self.spec_violations(self.pseudo_case(c, r['runs'][0]), sp2, r['retag'][0], None)
            print('VIOLATES' if v else 'ok', v)
            return 1 if v else 0
        if w.get('input') and w.get('run'):
            c, spec = w['input'], w['run']
            self.detect_variant()
            runs = [{'method': spec['method'], 'mode': 'single', 'nr': False}, dict(spec, mode='single'), spec]
            c['run_specs'] = runs
            c['runs'] = [spec_args(r) for r in runs]
            r = self.run_impl_cases([c], workers=1)[0]
            vids = self.valid_from_default(r['runs'][0]) if spec['nr'] else None
            v = self.violations(c, spec, r['runs'][2], vids, r['runs'][1])
            print('VIOLATES' if v else 'ok', v)
            return 1 if v else 0
        return self.run()
