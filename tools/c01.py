"""C01 - demultiplexing conserves every read pair (demultiplexed XOR rejected), mate synchronisation, counters.

K end to end: generated gzip FASTQ libraries go through the real DemultiplexingStrategyLoader.demultiplex
(real FastqIterator, real FastqHandle output files, read back with gzip).  The Coq model of the loader is
parametric in the strategies; the abstraction (tools/impl_c01.py) gives it, per pair and strategy, the outcome
class of the real strategy.demultiplex (Accept with its serialised records / NonMultiplexable reason / other
exception) and the reject header of the loader's base demultiplexer.  The model then predicts the BYTES of every
output file, the returned counters and the counters in the log.

T: LoaderTranslator (below) regenerates the SHAPE of the loader loop (sinks / guards / fall-through of the three arms,
position of the counters relative to the maxReadPairs test) into coq/Gen/GenLoader.v; the model's step function is defined
from it and the theorems hold for every well-formed shape (Props/C01.v).

The specification itself (spec_C01 <-> specb_C01, Props/C01.v C01_specb_iff) is evaluated by the extracted binary
(run_C01 mode 2) on the implementation's real output files: on every case of every run, and in search().  The Python
transcription spec_violations() is kept as a cross-check that has to agree with specb on every case (and is the
fall-back when the extracted binary cannot be built)."""
import ast, hashlib, json, os, re, glob
import fw
from py2coq import Untranslatable, find_function

# ====================================================================== T: the shape of the loader loop
LOADER_REL = 'singlecellmultiomics/modularDemultiplexer/demultiplexingStrategyLoader.py'
GEN_LOADER = os.path.join(fw.COQ, 'Gen', 'GenLoader.v')
RAW_REJECT = ("['\\n'.join(({v}.header + f';RR:{{{reason}}};Rr:{{{why}}}', {v}.sequence, {v}.plus, {v}.qual)) + '\\n' "
              "for {v} in {reads}]")
RAW_GENERIC = ("['\\n'.join(({v}.header + f';RR:{{type({e}).__name__}}', {v}.sequence, {v}.plus, {v}.qual)) + '\\n' "
               "for {v} in {reads}]")


class LoaderTranslator:
    """Fail-closed reader of DemultiplexingStrategyLoader.demultiplex: recognises the statements the C01 proofs hinge on
    BY ROLE (which object a write() is called on and with what, which counter an increment touches, what a test compares)
    and emits them as a value of Lib/C01Shape.shape.  Every statement of the function that touches an output handle, a
    counter or the control flow of the two loops has to be one of the recognised ones; anything else is refused
    (Untranslatable) - the check then falls back to the pinned translation and the correspondence check (fw)."""
    HANDLES = {'targetFile': 'STarget', 'rejectHandle': 'SReject'}

    def __init__(self, repo):
        self.repo = repo
        self.path = os.path.join(repo, LOADER_REL)
        self.src = open(self.path).read()
        self.fn = find_function(ast.parse(self.src), 'DemultiplexingStrategyLoader.demultiplex')
        if not isinstance(self.fn, ast.FunctionDef):
            raise Untranslatable('DemultiplexingStrategyLoader.demultiplex is not a function')
        self.accounted = []     # ast nodes whose role was recognised
        self.where = {}         # role -> line (evidence)

    def fail(self, node, why):
        raise Untranslatable('%s line %s: %s' % (LOADER_REL, getattr(node, 'lineno', '?'), why))

    # ---- small matchers
    @staticmethod
    def same(node, src):
        # (compared through ast.unparse: identical up to layout, parentheses and the Load/Store context)
        return ast.unparse(node) == ast.unparse(ast.parse(src, mode='eval').body)

    @staticmethod
    def is_name(n, name=None):
        return isinstance(n, ast.Name) and (name is None or n.id == name)

    def is_not_none(self, test, name):
        return self.same(test, '%s is not None' % name)

    @staticmethod
    def strip(stmts):
        """statements without `pass` and bare string expressions"""
        return [s for s in stmts if not isinstance(s, ast.Pass) and
                not (isinstance(s, ast.Expr) and isinstance(s.value, ast.Constant) and isinstance(s.value.value, str))]

    def names_in(self, node):
        return {n.id for n in ast.walk(node) if isinstance(n, ast.Name)}

    # ---- the function
    def run(self):
        fn = self.fn
        a = fn.args
        if a.vararg or a.kwarg or a.posonlyargs or a.kwonlyargs:
            self.fail(fn, 'argument form outside the subset')
        params = [x.arg for x in a.args]
        for need in ('fastqfiles', 'maxReadPairs', 'strategies', 'targetFile', 'rejectHandle'):
            if need not in params:
                self.fail(fn, 'parameter %s is missing' % need)
        self.params = params
        body = self.strip(fn.body)
        loops = [s for s in body if isinstance(s, ast.For)]
        if len(loops) != 1:
            self.fail(fn, '%d top-level for loops (expected the pair loop only)' % len(loops))
        loop = loops[0]
        k = body.index(loop)
        self.pre(body[:k])
        self.pair_loop(loop)
        self.post(body[k + 1:])
        self.escape_check()
        return self.shape

    def pre(self, stmts):
        """before the loop: fresh per-call counters, the strategies to use, the base demultiplexer"""
        self.Y = self.P = self.U = self.B = None
        tracked = set(self.HANDLES)
        for s in stmts:
            if not (isinstance(s, ast.Assign) and len(s.targets) == 1 and self.is_name(s.targets[0])):
                self.fail(s, 'statement before the pair loop is not a simple assignment')
            t, v = s.targets[0].id, s.value
            if t in self.params:
                self.fail(s, 'a parameter is re-assigned before the pair loop')
            if self.same(v, 'collections.Counter()') and self.Y is None:
                self.Y = t; self.accounted.append(s); self.where['yields_init'] = s.lineno
            elif self.same(v, '0') and self.P is None:
                self.P = t; self.accounted.append(s); self.where['processed_init'] = s.lineno
            elif self.same(v, 'strategies if strategies is not None else self.getAutodetectStrategies()'):
                self.U = t
            elif isinstance(v, ast.Call) and ast.unparse(v.func).split('.')[-1] == 'IlluminaBaseDemultiplexer':
                self.B = t
            elif self.names_in(v) & (tracked | {x for x in (self.Y, self.P) if x}):
                self.fail(s, 'assignment before the pair loop uses an output handle or a counter')
        if self.Y is None or self.P is None:
            self.fail(self.fn, 'the per-call initialisation  <yields> = collections.Counter() / <processed> = 0  was not found')
        if self.Y in self.params or self.P in self.params:
            self.fail(self.fn, 'a counter is a parameter of the function')

    def pair_loop(self, loop):
        self.loop = loop
        if loop.orelse:
            self.fail(loop, 'pair loop has an else clause')
        it, self.pvar = loop.iter, None
        if isinstance(it, ast.Call) and self.is_name(it.func, 'enumerate'):
            if len(it.args) != 1 or it.keywords:
                self.fail(loop, 'enumerate() with a start value')
            it = it.args[0]
            tg = loop.target
            if not (isinstance(tg, ast.Tuple) and len(tg.elts) == 2 and all(self.is_name(e) for e in tg.elts)):
                self.fail(loop, 'target of the enumerate() loop')
            self.pvar, self.reads = tg.elts[0].id, tg.elts[1].id
        else:
            if not self.is_name(loop.target):
                self.fail(loop, 'target of the pair loop')
            self.reads = loop.target.id
        if not (isinstance(it, ast.Call) and ast.unparse(it.func).split('.')[-1] == 'FastqIterator' and not it.keywords
                and len(it.args) == 1 and isinstance(it.args[0], ast.Starred) and self.is_name(it.args[0].value, 'fastqfiles')):
            self.fail(loop, 'the pair loop does not iterate FastqIterator(*fastqfiles)')
        self.where['pair_loop'] = loop.lineno
        items = {}
        for k, s in enumerate(self.strip(loop.body)):
            kind = self.body_item(s)
            if kind is None:
                self.fail(s, 'statement in the body of the pair loop with no recognised role: %s' % ast.unparse(s)[:80])
            if kind in items:
                self.fail(s, 'second %s statement in the body of the pair loop' % kind)
            items[kind] = (k, s)
        for kind in ('incr', 'strat', 'test'):
            if kind not in items:
                self.fail(loop, 'the body of the pair loop has no %s statement' % kind)
        self.where.update({'processed_incr': items['incr'][1].lineno, 'max_test': items['test'][1].lineno,
                           'strategy_loop': items['strat'][1].lineno})
        self.incr_before_test = items['incr'][0] < items['test'][0]
        self.strat_before_test = items['strat'][0] < items['test'][0]
        self.strategy_loop(items['strat'][1])

    def body_item(self, s):
        P = self.P
        if isinstance(s, ast.Assign) and len(s.targets) == 1 and self.is_name(s.targets[0], P):
            if self.pvar and (self.same(s.value, '%s + 1' % self.pvar) or self.same(s.value, '1 + %s' % self.pvar)):
                self.accounted.append(s)
                return 'incr'
            if self.same(s.value, '%s + 1' % P) or self.same(s.value, '1 + %s' % P):
                self.accounted.append(s)
                return 'incr'
            return None
        if isinstance(s, ast.AugAssign) and self.is_name(s.target, P) and isinstance(s.op, ast.Add) and self.same(s.value, '1'):
            self.accounted.append(s)
            return 'incr'
        if isinstance(s, ast.For):
            return 'strat'
        if isinstance(s, ast.If):
            forms = ['maxReadPairs is not None and %s >= maxReadPairs' % P, 'maxReadPairs is not None and maxReadPairs <= %s' % P]
            if any(self.same(s.test, f) for f in forms) and len(s.body) == 1 and isinstance(s.body[0], ast.Break) and not s.orelse:
                self.accounted.append(s)
                return 'test'
        return None

    # ---- for strategy in useStrategies: try ... except NonMultiplexable ... except Exception ...
    def is_count(self, s):
        return (isinstance(s, ast.AugAssign) and isinstance(s.op, ast.Add) and self.same(s.value, '1')
                and self.same(s.target, '%s[%s.shortName]' % (self.Y, self.strat)))

    def strategy_loop(self, loop):
        if loop.orelse or not self.is_name(loop.target):
            self.fail(loop, 'form of the strategy loop')
        self.strat = loop.target.id
        if not (self.is_name(loop.iter, 'strategies') or (self.U and self.is_name(loop.iter, self.U))):
            self.fail(loop, 'the strategy loop does not iterate the selected strategies')
        body = self.strip(loop.body)
        if not body or not isinstance(body[0], ast.Try):
            self.fail(loop, 'the strategy loop does not start with the try statement')
        tr, rest = body[0], body[1:]
        counts = []          # (position, node)
        if len(rest) > 1 or (rest and not self.is_count(rest[0])):
            self.fail(rest[0], 'statement after the try statement that is not the yield increment')
        if rest:
            counts.append(('after', rest[0]))
        if tr.finalbody or len(tr.handlers) != 2:
            self.fail(tr, 'try statement: expected exactly the handlers NonMultiplexable and Exception, no finally')
        h1, h2 = tr.handlers
        if not (self.is_name(h1.type, 'NonMultiplexable') and h1.name and self.is_name(h2.type, 'Exception')):
            self.fail(tr, 'handlers are not  except NonMultiplexable as <reason> / except Exception [as <e>]')
        els = self.strip(tr.orelse)
        if els:
            if len(els) != 1 or not self.is_count(els[0]):
                self.fail(els[0], 'else clause of the try statement holds something other than the yield increment')
            counts.append(('else', els[0]))
        # try body
        tb = self.strip(tr.body)
        if not tb:
            self.fail(tr, 'empty try body')
        A = tb[0]
        if not (isinstance(A, ast.Assign) and len(A.targets) == 1 and self.is_name(A.targets[0]) and isinstance(A.value, ast.Call)
                and self.same(A.value.func, '%s.demultiplex' % self.strat) and A.value.args and self.is_name(A.value.args[0], self.reads)):
            self.fail(A, 'the try body does not start with  <records> = strategy.demultiplex(<reads>, ...)')
        self.R = A.targets[0].id
        self.where['strategy_call'] = A.lineno
        wpos, sink, guarded = None, 'SNone', False
        for k, s in enumerate(tb[1:]):
            if self.is_count(s):
                counts.append(('try', s, k))
                continue
            w = self.write_stmt(s, lambda arg: self.is_name(arg, self.R))
            if w is None or wpos is not None:
                self.fail(s, 'statement in the try body with no recognised role: %s' % ast.unparse(s)[:80])
            wpos, (sink, guarded) = k, w
            self.where['accept_write'] = s.lineno
        if len(counts) > 1:
            self.fail(counts[1][1], 'more than one yield increment')
        early = False
        cpos = counts[0][0] if counts else None
        if cpos == 'try' and wpos is not None and counts[0][2] < wpos:
            early = True
        if counts:
            self.accounted.append(counts[0][1])
            self.where['yield_incr'] = counts[0][1].lineno
        self.where['yield_incr_position'] = {None: 'absent', 'after': 'after the try statement', 'else': 'else clause of the try',
                                             'try': 'in the try body, %s the write' % ('BEFORE' if early else 'after')}[cpos]
        accept = (sink, guarded, bool(counts))
        rsink, rguard, rcont = self.handler(h1, 'reject')
        gsink, gguard, gcont = self.handler(h2, 'generic')
        self.shape = {'accept': accept,
                      'reject': (rsink, rguard, cpos == 'after' and not rcont),
                      'generic': (gsink, gguard, cpos == 'after' and not gcont),
                      'count_early': early, 'incr_before_test': self.incr_before_test,
                      'strat_before_test': self.strat_before_test}

    def write_stmt(self, s, arg_ok):
        """<H>.write(<arg>)  or  if <H> is not None: <H>.write(<arg>)   -> (sink, guarded) ; role: arg_ok(arg)"""
        guarded = None
        if isinstance(s, ast.If):
            inner = self.strip(s.body)
            if s.orelse or len(inner) != 1:
                return None
            for h in self.HANDLES:
                if self.is_not_none(s.test, h):
                    guarded = h
            if guarded is None:
                return None
            call = inner[0]
        else:
            call = s
        if not (isinstance(call, ast.Expr) and isinstance(call.value, ast.Call)):
            return None
        c = call.value
        if not (isinstance(c.func, ast.Attribute) and c.func.attr == 'write' and isinstance(c.func.value, ast.Name)
                and c.func.value.id in self.HANDLES and len(c.args) == 1 and not c.keywords and arg_ok(c.args[0])):
            return None
        h = c.func.value.id
        if guarded is not None and guarded != h:
            return None      # guarded by the OTHER handle: not the handle-is-None guard of this write
        self.accounted.append(s)
        return self.HANDLES[h], guarded is not None

    def reporting(self, s):
        """statements of an except arm that touch no sink, counter or control flow: console / log messages"""
        bad = set(self.HANDLES) | {self.Y, self.P}
        if self.names_in(s) & bad:
            return False
        if any(isinstance(n, (ast.Continue, ast.Break, ast.Return, ast.Raise, ast.Yield, ast.YieldFrom, ast.Lambda, ast.FunctionDef,
                              ast.Await, ast.NamedExpr)) for n in ast.walk(s)):
            return False
        if isinstance(s, (ast.Import, ast.ImportFrom)):
            return True
        if isinstance(s, ast.Expr) and isinstance(s.value, ast.Call) and self.is_name(s.value.func, 'print'):
            return True
        fixed = {self.reads, self.strat, self.R, self.pvar, self.U, self.B} | set(self.params)
        if isinstance(s, ast.Assign) and len(s.targets) == 1 and self.is_name(s.targets[0]) and s.targets[0].id not in fixed:
            return True
        if isinstance(s, ast.For) and self.is_name(s.target) and s.target.id not in fixed and self.is_name(s.iter, self.reads) and not s.orelse:
            return all(self.reporting(x) for x in s.body)
        if isinstance(s, ast.If) and self.is_not_none(s.test, 'log_handle') and not s.orelse:
            return all(isinstance(x, ast.Expr) and isinstance(x.value, ast.Call) and self.same(x.value.func, 'log_handle.write')
                       for x in s.body)
        return False

    def handler(self, h, kind):
        """-> (sink, guarded, ends in continue)"""
        body = self.strip(h.body)
        cont = bool(body) and isinstance(body[-1], ast.Continue)
        if cont:
            self.accounted.append(body[-1])
            body = body[:-1]
        if kind == 'generic' and body and isinstance(body[0], ast.If) and self.is_name(body[0].test, 'probe') and 'probe' in self.params \
                and len(body[0].body) == 1 and isinstance(body[0].body[0], ast.Continue) and not body[0].orelse:
            self.accounted.append(body[0])        # probing mode (auto-detection): outside the model (probe is falsy)
            self.where['generic_probe_skip'] = body[0].lineno
            body = body[1:]
        sink, guarded, seen = 'SNone', False, False
        for s in body:
            if self.reporting(s):
                continue
            w = self.reject_block(s, h) if kind == 'reject' else self.write_stmt(
                s, lambda arg: h.name is not None and self.raw_ok(arg, RAW_GENERIC, e=h.name))
            if w is None or seen:
                self.fail(s, 'statement in the %s arm with no recognised role: %s' % (kind, ast.unparse(s)[:80]))
            sink, guarded = w
            seen = True
            self.where[kind + '_write'] = s.lineno
        self.where[kind + '_ends_in_continue'] = cont
        return sink, guarded, cont

    def raw_ok(self, arg, template, **names):
        if not (isinstance(arg, ast.ListComp) and len(arg.generators) == 1 and self.is_name(arg.generators[0].target)):
            return False
        return self.same(arg, template.format(v=arg.generators[0].target.id, reads=self.reads, **names))

    def reject_block(self, s, h):
        """[if H is not None:] try: tw = baseDemux.demultiplex(reads, ..., reason=reason); H.write(tw)
                               except NonMultiplexable as e: H.write(<raw records with ;RR:reason;Rr:e>)"""
        guarded = None
        if isinstance(s, ast.If):
            inner = self.strip(s.body)
            for hd in self.HANDLES:
                if self.is_not_none(s.test, hd):
                    guarded = hd
            if guarded is None or s.orelse or len(inner) != 1:
                return None
            t = inner[0]
        else:
            t = s
        if not (isinstance(t, ast.Try) and not t.orelse and not t.finalbody and len(t.handlers) == 1):
            return None
        tb = self.strip(t.body)
        if len(tb) != 2:
            return None
        A, W = tb
        if not (isinstance(A, ast.Assign) and len(A.targets) == 1 and self.is_name(A.targets[0]) and isinstance(A.value, ast.Call)
                and self.B and self.same(A.value.func, '%s.demultiplex' % self.B) and A.value.args
                and self.is_name(A.value.args[0], self.reads)
                and any(k.arg == 'reason' and self.is_name(k.value, h.name) for k in A.value.keywords)):
            return None
        tw = A.targets[0].id
        hh = t.handlers[0]
        if not (self.is_name(hh.type, 'NonMultiplexable') and hh.name):
            return None
        hb = self.strip(hh.body)
        if len(hb) != 1:
            return None
        keep = list(self.accounted)
        w1 = self.write_stmt(W, lambda arg: self.is_name(arg, tw))
        w2 = self.write_stmt(hb[0], lambda arg: self.raw_ok(arg, RAW_REJECT, reason=h.name, why=hh.name))
        if w1 is None or w2 is None or w1 != (w1[0], False) or w2 != (w1[0], False):
            self.accounted = keep
            return None
        sink = w1[0]
        if guarded is not None and self.HANDLES[guarded] != sink:
            self.accounted = keep
            return None
        self.accounted.append(s)
        return sink, guarded is not None

    def post(self, stmts):
        """after the loop: log lines, and the two counters are what is returned"""
        if not stmts or not isinstance(stmts[-1], ast.Return) or not self.same(stmts[-1].value, '(%s, %s)' % (self.P, self.Y)):
            self.fail(self.fn, 'the function does not end with  return <processed>, <yields>')
        self.accounted.append(stmts[-1])
        self.where['return'] = stmts[-1].lineno
        for s in stmts[:-1]:
            ok = isinstance(s, ast.If) and self.is_not_none(s.test, 'log_handle') and not s.orelse
            if ok:
                for n in ast.walk(s):
                    if isinstance(n, ast.Name) and n.id in (self.Y, self.P) and not isinstance(n.ctx, ast.Load):
                        ok = False
                    if isinstance(n, (ast.Return, ast.Raise, ast.Yield, ast.YieldFrom)):
                        ok = False
                    if isinstance(n, ast.Call) and isinstance(n.func, ast.Attribute) and self.is_name(n.func.value, self.Y) \
                            and n.func.attr not in ('items', 'most_common', 'keys', 'values', 'get'):
                        ok = False
                if self.names_in(s) & set(self.HANDLES):
                    ok = False
            if not ok:
                self.fail(s, 'statement after the pair loop with no recognised role: %s' % ast.unparse(s)[:80])
            self.accounted.append(s)

    def escape_check(self):
        """nothing outside the recognised statements may touch a handle, a counter, a loop variable or the control flow"""
        inside = set()
        for a in self.accounted:
            for n in ast.walk(a):
                inside.add(id(n))
        role_vars = {x for x in (self.reads, self.strat, self.pvar, self.R, self.U, self.B) if x}
        for n in ast.walk(self.fn):
            if id(n) in inside:
                continue
            if isinstance(n, ast.Name):
                if n.id in self.HANDLES:
                    self.fail(n, 'output handle %s is used outside the recognised write statements' % n.id)
                if n.id in (self.Y, self.P):
                    self.fail(n, 'counter %s is used outside the recognised statements' % n.id)
            if isinstance(n, (ast.Continue, ast.Break, ast.Return, ast.Raise, ast.Yield, ast.YieldFrom, ast.Global, ast.Nonlocal)):
                self.fail(n, '%s outside the recognised statements' % type(n).__name__)
            if isinstance(n, (ast.While, ast.With, ast.FunctionDef, ast.ClassDef, ast.Lambda, ast.Delete)) and n is not self.fn:
                self.fail(n, '%s statement inside demultiplex' % type(n).__name__)
        # inside the pair loop its variables are bound exactly once (loop targets, the strategy call)
        stores = {}
        for n in ast.walk(self.loop):
            if isinstance(n, ast.Name) and isinstance(n.ctx, ast.Store) and n.id in role_vars:
                stores[n.id] = stores.get(n.id, 0) + 1
        for v, c in stores.items():
            if c != 1:
                self.fail(self.fn, 'variable %s is assigned %d times' % (v, c))

    # ---- output
    def coq(self):
        seg = '\n'.join(self.src.splitlines()[self.fn.lineno - 1:self.fn.end_lineno])
        self.sha = hashlib.sha256(seg.encode()).hexdigest()
        b = lambda x: 'true' if x else 'false'
        arm = lambda t: '(mkArm %s %s %s)' % (t[0], b(t[1]), b(t[2]))
        sh = self.shape
        w = self.where
        lines = [
            '(* GENERATED by tools/c01.py (LoaderTranslator) from the working tree of the repository on every run. Do not edit.',
            '   source: %s lines %d-%d (DemultiplexingStrategyLoader.demultiplex) sha256 %s' % (LOADER_REL, self.fn.lineno, self.fn.end_lineno, self.sha),
            '   pair loop line %s: increment of processedReadPairs line %s, strategy loop line %s, maxReadPairs test line %s'
            % (w.get('pair_loop'), w.get('processed_incr'), w.get('strategy_loop'), w.get('max_test')),
            '   accept arm : write line %s; yield increment line %s (%s)' % (w.get('accept_write'), w.get('yield_incr'), w.get('yield_incr_position')),
            '   reject arm : write block line %s; ends in continue: %s' % (w.get('reject_write'), w.get('reject_ends_in_continue')),
            '   generic arm: write line %s; ends in continue: %s; leading `if probe: continue` line %s (probing mode, outside the model) *)'
            % (w.get('generic_write'), w.get('generic_ends_in_continue'), w.get('generic_probe_skip')),
            'From SCMO Require Import Lib.C01Shape.',
            '',
            'Definition loader_shape : shape :=',
            '  mkShape %s   (* accept : sink, guarded by `is not None`, reaches the yield increment *)' % arm(sh['accept']),
            '          %s   (* reject  (except NonMultiplexable) *)' % arm(sh['reject']),
            '          %s   (* generic (except Exception) *)' % arm(sh['generic']),
            '          %s   (* yield increment before the write of the accepted records *)' % b(sh['count_early']),
            '          %s   (* processedReadPairs incremented before the maxReadPairs test *)' % b(sh['incr_before_test']),
            '          %s.  (* strategy loop before the maxReadPairs test *)' % b(sh['strat_before_test']),
            '']
        return '\n'.join(lines)


def regen_loader(repo=None, out=None):
    out = out or GEN_LOADER
    try:
        t = LoaderTranslator(repo or fw.REPO)
        t.run()
        text = t.coq()
    except BaseException as e:
        for ext in ('.v', '.vo', '.vos', '.vok', '.glob'):      # fail closed: no stale generated file stays behind
            if os.path.exists(out[:-2] + ext):
                os.remove(out[:-2] + ext)
        if isinstance(e, (Untranslatable, KeyboardInterrupt)):
            raise
        raise Untranslatable('LoaderTranslator could not read %s: %r' % (LOADER_REL, e))
    os.makedirs(os.path.dirname(out), exist_ok=True)
    old = open(out).read() if os.path.exists(out) else None
    if old != text:
        tmp = out + '.tmp%d' % os.getpid()
        with open(tmp, 'w') as f:
            f.write(text)
        os.replace(tmp, out)
    sh = t.shape
    wf = (sh['accept'][0] == 'STarget' and sh['accept'][2] and sh['reject'] == ('SReject', True, False)
          and sh['generic'] == ('SReject', True, False) and not sh['count_early']
          and sh['incr_before_test'] == sh['strat_before_test'])
    return [{'file': 'coq/Gen/GenLoader.v', 'source': LOADER_REL, 'lines': [t.fn.lineno, t.fn.end_lineno], 'sha256': t.sha,
             'coq': 'loader_shape', 'shape': {k: (list(v) if isinstance(v, tuple) else v) for k, v in sh.items()},
             'located': t.where, 'well_formed_expected': wf}]

ALPH = 'ACGT'
Q_MAIN = ''.join(chr(c) for c in range(33, 85))      # '!'..'T'  (phred 0..51): below the header clamp of C04
Q_FULL = ''.join(chr(c) for c in range(33, 127))     # every Sanger quality 0..93
UID0 = 10000
STALE = 8000      # ids 18000.. belong to the earlier run of a run history (libraries with a history are small)
UID_RE = re.compile(r'(?<!\d)(1\d{4})(?!\d)')
SPACES = [' ', '\t', '\x0b', '\x0c', '\x1c', '\x1d', '\x1e', '\x1f']
WS = set(' \t\n\x0b\x0c\r\x1c\x1d\x1e\x1f')


def revcomp(s):
    return ''.join({'A': 'T', 'C': 'G', 'G': 'C', 'T': 'A'}.get(c, c) for c in reversed(s))


# read prefixes the composite strategies accept (taken from tests/test_demultiplexing.py)
_TCHIC = 'TAT' + 'TAAGTGCT' + 'TATC' + 'CTGTTG' + 'ACAGAAGC' + 'T' * 21 + 'TGAGAGAGAGAGAGAGAGAGAGAGC'
_DAM = 'ACT' + 'TGCA' + 'CTC' + 'TATG'
SEEDS = {'TCHIC': _TCHIC, 'CHICTV': _TCHIC, 'DamID2andT_3u4b3u4b': _DAM, 'DamID2andT_3u4b3u6b': _DAM, 'DamAndT': _DAM,
         'DamID2_3u4b3u6b': _DAM}


def rstrip_ascii(s):
    while s and s[-1] in WS:
        s = s[:-1]
    return s


def norm_reject_reasons(text):
    lines = text.split('\n')
    for i in range(0, len(lines), 4):
        lines[i] = re.sub(r';(RR|Rr):[^;\n]+', r';\1:*', lines[i])
    return '\n'.join(lines)


class Prop(fw.PropBase):
    ID = 'C01'
    PROPS = 'Props/C01.v'
    TRUSTED = [
        'modelled not verified: gzip (de)compression, text decoding and readline() line splitting of the input, '
        'the OS file system, HandleLimiter in one-file-per-cell mode (C19); the model starts from the list of lines '
        'of every mate file and ends at the sequence of write() calls per output file',
        'the strategies are PARAMETERS of the model: what a strategy extracts (C02), barcode correction (C03) and the '
        'header codec incl. the phred clamp and the 255 limit (C04) are not re-verified here; their outcome class '
        '(accept / NonMultiplexable / other exception) per pair is measured by calling the real strategy.demultiplex',
        'T (tools/c01.py LoaderTranslator, hand-written, fail-closed): regenerates only the SHAPE of the loader loop (sink, '
        'handle guard and fall-through of the three arms of the try statement, increment-before-write, position of the '
        'processedReadPairs increment and of the strategy loop relative to the maxReadPairs test) and checks by role that the '
        'accept arm writes the records strategy.demultiplex returned, the reject arm the formatted record with the raw '
        'fall-back, the generic arm the raw record (header + ;RR:..., sequence, plus, qualities); the CONTENT of those writes '
        'is the hand-written part of the model, tied by K.  The leading `if probe: continue` of the generic arm is recognised '
        'and left out: probe is falsy and a target handle is given in every modelled run (auto-detection is outside the property)',
        'a restructured loop the translator refuses falls back to coq/Gen.pinned/GenLoader.v (the shape of the pinned tree) '
        'as a hand-held model, tied by K with extra passes (fw, DESIGN 12)',
        'a partial write (first mate written, serialising a later mate raises) is modelled literally, excluded from the '
        'theorems by the hypothesis step_ok, and that hypothesis is CHECKED on the real code: any partial write is a violation',
        'K only, no theorem: the command line driver demux.py __main__ (library listing, pairing of R1/R2 chunk files by sorted '
        'name incl. list-of-files input, shared -n budget over lanes and chunks) - its runs are compared with the model of the '
        'concatenated library in sorted-name order; run histories (an earlier run into the same directory / prefix, joint and '
        'per-cell) - the later run must leave exactly its own records in every file it writes',
        'libraries large enough to cross HandleLimiter.prune (stream percell_prune, > 10000 record writes) are not run '
        'through the model of the loader; the specification (specb_C01) is evaluated on their real output files',
        'specb_C01 is proved equivalent to spec_C01 and the model is proved to satisfy it (C01_specb_iff, '
        'C01_model_satisfies_spec); what stays trusted when it is evaluated on the implementation: the glue of run_C01 mode 2 '
        '(Model/C01Spec.v run_spec: cutting an output file into 4-line records; attribution of a record to its input pair by '
        'the unique 5-digit id the generator puts into every header, and of a demultiplexed record to a strategy by its MX tag), '
        'the Python side that reads the gzip files back and hands over texts and counters, and the Python-only pre-checks '
        '(loader crashed although every reject record can be formatted; strategy registration / selection; unexpected output file)',
    ]
    ASSUMPTIONS = [
        'at least one input file; ASCII input; mates of one pair carry the same header apart from the read number',
        'exactly-once with a rejects handle; without one (--norejects) a rejected pair is dropped by request and the '
        'theorem states: demultiplexed at most once, rejects output empty',
        'the reject record can be formatted: library name short enough that header + ;RR:reason stays within the '
        'header limit; otherwise the loader aborts with ValueError (loud; reported as stream longlib, finding D4)',
        'selected strategies have distinct short names (the yield counter is keyed by short name)',
        'a target handle is given and probe is falsy (targetFile=None / probe=True is the auto-detection pass, outside the property)',
        'processedReadPairs: with a cut-off maxReadPairs <= 0 the statement leaves free whether one pair or none is consumed '
        '(the specification accepts both; the model follows the regenerated position of the test: one pair on the current tree)',
        'C01_model_satisfies_spec: reject reasons, exception names and formatted reject headers contain no newline (contracts of '
        'the strategy / header-builder parameters; input lines are newline-free by construction of the reader)',
    ]

    # ------------------------------------------------------------------ T
    def regen(self):
        return regen_loader()

    # ------------------------------------------------------------------ generators
    def describe(self):
        if not hasattr(self, '_desc'):
            self._desc = fw.run_impl('impl_c01.py', {'cmd': 'describe'})
        return self._desc

    def header(self, form, uid, mate, idx):
        if form == 'full':
            return '@NS500414:628:H7YVNBGXC:1:2101:%d:1046 %d:N:0:%s' % (uid, mate, idx)
        if form == 'noindex':
            return '@NS500414:628:H7YVNBGXC:1:2101:%d:1046 %d:N:0::' % (uid, mate)
        if form == 'short7':
            return '@NS500414:628:H7YVNBGXC:1:2101:%d:1046' % uid
        if form == 'scmo':
            return '@Is:NS500414;RN:628;Fc:H7YVNBGXC;La:1;Ti:2101;CX:%d;CY:1046' % uid
        if form == '3dec':
            return '@Cluster_s_1_%d_%d' % (uid, mate)
        return '@garbage%d/%d' % (uid, mate)

    @staticmethod
    def make_prior(files):
        """the library of an EARLIER run into the same output location: the same reads under other ids (+5000)"""
        out = []
        for f in files:
            lines = [UID_RE.sub(lambda m: str(int(m.group(1)) + STALE), l) if k % 4 in (0, 2) else l for k, l in enumerate(f['lines'])]
            out.append({'lines': lines, 'final_eol': True})
        return out

    def make_library(self, stream, strategies=None):
        rng = self.rng
        desc = self.describe()
        by_name = {s['name']: s for s in desc['strategies']}
        names = [s['name'] for s in desc['strategies']]
        quick = self.tier == 'quick'
        if strategies is None:
            k = rng.choice([1, 1, 2, 2, 3])
            strategies = rng.sample(names, k)
        nm = rng.choice([2, 2, 2, 1])
        if stream == 'malformed' and rng.random() < 0.1:
            nm = 3
        se_names = [n for n in strategies if by_name[n].get('barcodeRead') == 0 and by_name[n].get('random_primer_read') in (None, 0)]
        if nm == 1 and not se_names and rng.random() < 0.5:
            nm = 2
        if any(n_.lower().endswith('se') for n_ in strategies) and rng.random() < 0.8:
            nm = 1      # the *_SINGLE_END strategies refuse tuples of two
        n = rng.choice([0, 1, 2, 3, 4, 5, 6, 8, 10, 12] if quick else [0, 1, 2, 3, 5, 8, 12, 16, 24, 30])
        qalph = Q_FULL if stream == 'phred' or rng.random() < 0.4 else Q_MAIN   # D2 (clamp) is repaired: every phred 0..93
        known_idx = desc['indices']
        forms = ['full'] * 6 + ['noindex', 'short7', 'scmo', '3dec']
        if stream == 'malformed':
            forms += ['garbage'] * 3
        lib_form = rng.choice(forms) if rng.random() < 0.5 else None
        files = [[] for _ in range(nm)]
        meta = []
        for p in range(n):
            uid = UID0 + p
            form = lib_form or rng.choice(forms)
            r = rng.random()
            idx = rng.choice(known_idx) if r < 0.85 else rng.choice(['GGGGGG', 'TTTTTTTT', '1', '12', 'NNNNNN', 'ACAGTC'])
            kind = rng.choice(['valid'] * 5 + ['mm1', 'unknown', 'short', 'empty', 'N', 'trunc_bc'])
            tgt = by_name[rng.choice(strategies)]
            seqs = [''.join(rng.choice(ALPH) for _ in range(rng.randint(24, 44))) for _ in range(nm)]
            bl, bs, br = tgt.get('barcodeLength'), tgt.get('barcodeStart'), tgt.get('barcodeRead')
            if tgt['barcodes'] and bl is not None and br is not None and br < nm:
                bc = rng.choice(tgt['barcodes'])
                if kind == 'mm1':
                    i = rng.randrange(len(bc))
                    bc = bc[:i] + rng.choice([c for c in 'ACGTN' if c != bc[i]]) + bc[i + 1:]
                elif kind == 'unknown':
                    bc = ''.join(rng.choice(ALPH) for _ in bc)
                s = seqs[br]
                seqs[br] = s[:bs] + bc + s[bs + len(bc):]
                if kind == 'trunc_bc':
                    seqs[br] = seqs[br][:bs + rng.randint(0, len(bc) - 1)]
            if nm == 2 and kind in ('valid', 'N') and tgt['name'] in SEEDS and rng.random() < 0.7:
                s1 = SEEDS[tgt['name']] + ''.join(rng.choice(ALPH) for _ in range(rng.randint(6, 20)))
                seqs = [s1, revcomp(s1)]
            if kind == 'short':
                k = rng.randrange(nm)
                seqs[k] = seqs[k][:rng.randint(0, 9)]
            elif kind == 'empty':
                k = rng.randrange(nm)
                seqs[k] = ''
                if rng.random() < 0.3:
                    seqs = ['' for _ in seqs]
            elif kind == 'N':
                seqs = [''.join('N' if rng.random() < 0.25 else c for c in s) for s in seqs]
            quals = [''.join(rng.choice(qalph) for _ in s) for s in seqs]
            if stream == 'malformed' and rng.random() < 0.15:
                k = rng.randrange(nm)
                quals[k] = quals[k][:rng.randint(0, len(quals[k]))] + rng.choice(['', 'II', 'IIIIIIIIIIII'])
            plus = '+' if rng.random() < 0.9 else '+' + self.header(form, uid, 1, idx)[1:]
            for m in range(nm):
                files[m] += [self.header(form, uid, m + 1, idx), seqs[m], plus, quals[m]]
            meta.append({'uid': uid, 'form': form, 'kind': kind, 'seqs': seqs, 'quals': quals})
        fdesc = [{'lines': f, 'final_eol': True} for f in files]
        if stream == 'malformed' and n > 0:
            r = rng.random()
            if r < 0.25:      # one mate file shorter (whole records)
                k = rng.randrange(nm)
                fdesc[k]['lines'] = fdesc[k]['lines'][:4 * rng.randint(0, n - 1)]
            elif r < 0.5:     # truncated in the middle of a record
                k = rng.randrange(nm)
                fdesc[k]['lines'] = fdesc[k]['lines'][:rng.randint(0, 4 * n - 1)]
            elif r < 0.6:     # blank line where a header is expected
                k = rng.randrange(nm)
                fdesc[k]['lines'][4 * rng.randrange(n)] = rng.choice(['', ' ', '\t'])
            elif r < 0.7:
                fdesc[rng.randrange(nm)]['final_eol'] = False
        maxp = None
        if rng.random() < 0.5:
            maxp = rng.choice([0, 1, 1, 2, 3, max(1, n - 1), n, n + 1, n + 3])
            if stream == 'malformed' and rng.random() < 0.2:
                maxp = -1
        pe_handle = nm >= 2
        if stream == 'malformed' and rng.random() < 0.15:
            pe_handle = not pe_handle
        lib = rng.choice(['LIB', 'lib-a_b', 'X', 'APKS-P-H'])
        if stream == 'longlib':
            lib = 'L' * rng.choice([120, 150, 160, 170, 185, 200, 240])
        c = {'stream': stream, 'files': fdesc, 'eol': '\r\n' if rng.random() < 0.1 else '\n', 'use': strategies,
             'rejects': rng.random() < 0.75, 'sc': rng.random() < 0.25, 'maxp': maxp, 'lib': lib,
             'pe_handle': pe_handle, 'meta': meta}
        c['log'] = rng.random() < 0.5      # log_handle: the API default is None, demux.py always passes one
        if rng.random() < 0.3:
            # other constructions of the loader (DemultiplexingStrategyLoader.__init__ options)
            opts = {}
            r = rng.random()
            if r < 0.6:
                opts['only_detect_methods'] = sorted(set(strategies + rng.sample(names, rng.randint(0, 2))), key=lambda _: rng.random())
            if rng.random() < 0.3:
                opts['index_alias'] = rng.choice([None, 'illumina_merged_iPCR_RP', 'illumina_RP_indices'])
            if rng.random() < 0.1:
                opts['no_index_parser'] = True
            if opts:
                c['loader_opts'] = opts
        if stream == 'main' and n > 0 and rng.random() < 0.2:
            # run history: an earlier run wrote into the same directory / prefix (re-run of a library)
            c['prior_files'] = self.make_prior(fdesc)
            c['sc'] = rng.random() < 0.5
        return c

    def make_main_case(self, history=False):
        """several lanes of one library through the command line driver (demux.py __main__): the lanes are processed in
        order with one shared budget -n, so the expected outcome is that of the concatenated library with maxReadPairs = n"""
        rng = self.rng
        while True:
            c = self.make_library('main')
            if len(c['files']) <= 2 and len(c['meta']) >= 2:
                break
        n = len(c['meta'])
        k = rng.choice([1, 2, 2, 2, 3, 3, 4])
        cuts = sorted(rng.randint(0, n) for _ in range(k - 1))
        sizes = [b - a for a, b in zip([0] + cuts, cuts + [n])]
        sizes = [x for x in sizes if x > 0] or [n]
        # the pieces are lanes (L001, L002 ...) and chunks of a lane (_001, _002 ...), in sorted-name = processing order
        pieces, lane, chunk = [], 1, 0
        for x in sizes:
            if pieces and rng.random() < 0.5:
                chunk += 1
            else:
                lane, chunk = (lane + 1 if pieces else 1), 1
            pieces.append([lane, chunk, x])
        c.pop('prior_files', None)
        c.pop('log', None)
        c['loader_opts'] = {'only_detect_methods': list(c['use'])} if rng.random() < 0.4 else None
        c.update({'stream': 'main_script', 'main_script': True, 'lane_sizes': sizes, 'pieces': pieces, 'lib': 'LIBA', 'eol': '\n',
                  'pe_handle': len(c['files']) == 2,
                  'list_seed': rng.randint(0, 10 ** 6) if rng.random() < 0.5 else None,
                  'maxp': rng.choice([None, 1, max(1, n - 1), n, n + 2, max(1, sizes[0]), sizes[0] + 1, sizes[0] + 1,
                                      rng.randint(1, n)])})
        if history:
            c['prior_files'] = self.make_prior(c['files'])
        return c

    def make_prune_case(self):
        """one-file-per-cell output with more cell files than open handles (-fh 2) and more than 10000 record writes, so that
        FastqHandle's HandleLimiter prunes (pruneEvery = 10000) and pruned cell files are re-opened afterwards.  Too large for
        the model's table look-up: the specification is evaluated on the real files directly (spec_only)."""
        rng = self.rng
        d = {s['name']: s for s in self.describe()['strategies']}['NLAIII384C8U3']
        cells = rng.sample(d['barcodes'], 6)
        idx = self.describe()['indices'][0]
        n = 5000 + rng.randint(8, 40)
        f1, f2, meta = [], [], []
        for p in range(n):
            uid = UID0 + p
            s1 = ''.join(rng.choice(ALPH) for _ in range(3)) + cells[(p + (p // 7)) % 6] + 'CATG' + ''.join(rng.choice(ALPH) for _ in range(6))
            s2 = ''.join(rng.choice(ALPH) for _ in range(10))
            if p % 997 == 5:
                s1 = s1[:3] + 'GGGGGGGG' + s1[11:]      # a few rejected pairs
            f1 += [self.header('full', uid, 1, idx), s1, '+', 'E' * len(s1)]
            f2 += [self.header('full', uid, 2, idx), s2, '+', 'E' * len(s2)]
            meta.append({'uid': uid, 'form': 'full', 'kind': 'valid', 'seqs': [s1, s2], 'quals': ['E' * len(s1), 'E' * len(s2)]})
        return {'stream': 'percell_prune', 'spec_only': True, 'max_handles': 2, 'eol': '\n', 'use': ['NLAIII384C8U3'], 'rejects': True,
                'sc': True, 'maxp': None, 'lib': 'LIB', 'pe_handle': True, 'meta': meta,
                'files': [{'lines': f1, 'final_eol': True}, {'lines': f2, 'final_eol': True}]}

    def make_reader_case(self):
        rng = self.rng
        nm = rng.choice([1, 2, 2, 3])
        n = rng.randint(0, 5)
        files = []
        for m in range(nm):
            lines = []
            k = n if rng.random() < 0.6 else rng.randint(0, n + 1)
            for p in range(k):
                for field in range(4):
                    body = ''.join(rng.choice('@ACGT+I:; x') for _ in range(rng.randint(0, 6)))
                    if field == 0 and rng.random() < 0.9:
                        body = '@r%d' % p + body
                    if rng.random() < 0.12:
                        body = ''.join(rng.choice(SPACES) for _ in range(rng.randint(0, 3)))
                    if rng.random() < 0.3:
                        body += ''.join(rng.choice(SPACES) for _ in range(rng.randint(1, 3)))
                    if rng.random() < 0.1:
                        body = ' ' + body
                    lines.append(body)
            if rng.random() < 0.3 and lines:
                lines = lines[:rng.randint(0, len(lines))]
            files.append({'lines': lines, 'final_eol': rng.random() < 0.8})
        return {'stream': 'reader', 'reader_only': True, 'files': files, 'eol': rng.choice(['\n', '\n', '\r\n'])}

    def gen_cases(self):
        quick = self.tier == 'quick'
        names = [s['name'] for s in self.describe()['strategies']]
        cases = []
        per = 5 if quick else 40
        for nme in names:                       # every registered strategy alone
            for _ in range(per):
                cases.append(self.make_library('main', [nme]))
        for _ in range(40 if quick else 600):   # several strategies at once
            cases.append(self.make_library('main'))
        for _ in range(30 if quick else 300):
            cases.append(self.make_library('phred'))
        for _ in range(40 if quick else 400):
            cases.append(self.make_library('malformed'))
        for _ in range(10 if quick else 80):
            cases.append(self.make_library('longlib'))
        for _ in range(80 if quick else 800):
            cases.append(self.make_reader_case())
        for i in range(8 if quick else 60):
            cases.append(self.make_main_case(history=(i % 4 == 1)))
        for _ in range(1 if quick else 2):
            cases.append(self.make_prune_case())
        return cases

    def exhaustive_cases(self):
        """thorough tier: every pair list of length <= 3 over an alphabet of pair shapes, for three configurations"""
        import itertools
        desc = self.describe()
        by_name = {s['name']: s for s in desc['strategies']}
        bc = by_name['NLAIII384C8U3']['barcodes'][0]
        idx = desc['indices'][0]
        tail = 'TAGTCATTCAGGAGCAGGTTCTT'
        shapes = [
            ('ATC' + bc + tail, 'full', idx), ('ATC' + 'GGGGGGGG' + tail, 'full', idx), ('ATC' + bc + tail, 'full', 'GGGGGG'),
            ('ATC' + bc[:5], 'full', idx), ('', 'full', idx), ('ATC' + bc + tail, '3dec', idx), ('ATC' + bc + tail, 'garbage', idx),
            ('ATC' + bc + tail, 'scmo', idx), ('NNN' + bc + tail, 'short7', idx), ('ATC' + bc + tail, 'noindex', idx),
            ('ATCN' + bc[1:] + tail, 'full', idx), ('ATC' + bc + 'A', 'full', idx),
        ]
        out = []
        for L in range(0, 4):
            for combo in itertools.product(range(len(shapes)), repeat=L):
                for (use, nm, rejects, maxp) in ((['NLAIII384C8U3'], 2, True, None), (['CS2C8U6', 'NLAIII384C8U3'], 2, True, 2),
                                                 (['NLAIII384C8U3SE'], 1, False, None)):
                    files = [[] for _ in range(nm)]
                    meta = []
                    for p, si in enumerate(combo):
                        seq, form, ix = shapes[si]
                        uid = UID0 + p
                        seqs = [seq, 'ACGTACGTACGTAAAACC'][:nm]
                        quals = ['E' * len(s) for s in seqs]
                        for m in range(nm):
                            files[m] += [self.header(form, uid, m + 1, ix), seqs[m], '+', quals[m]]
                        meta.append({'uid': uid, 'form': form, 'kind': 'shape%d' % si, 'seqs': seqs, 'quals': quals})
                    out.append({'stream': 'exhaustive', 'files': [{'lines': f, 'final_eol': True} for f in files], 'eol': '\n',
                                'use': use, 'rejects': rejects, 'sc': False, 'maxp': maxp, 'lib': 'LIB', 'pe_handle': nm == 2,
                                'meta': meta})
        return out

    # ------------------------------------------------------------------ model I/O
    @staticmethod
    def model_input(c, r):
        cfg = [[c['maxp']] if c.get('maxp') is not None else [], 1 if c.get('rejects') else 0, 1 if c.get('sc') else 0,
               2 if c.get('pe_handle') else 1, 1 if c.get('log', True) else 0]
        files = [f['lines'] for f in c['files']]
        strategies, rejhdr = [], []
        if not c.get('reader_only'):
            for col in r.get('outcomes', []):
                tbl = []
                for pair, o in zip(r['pairs'], col):
                    if o[0] == 0:
                        ov = [0, [[ok, cell, text] for ok, cell, text in o[1]]]
                    else:
                        ov = [o[0], o[1]]
                    tbl.append([pair, ov])
                strategies.append(tbl)
            rejhdr = [[rd, reason, ([h[0], h[1]] if h[0] < 2 else [2])] for rd, reason, h in r.get('rejhdr', [])]
        return [cfg, files, strategies, rejhdr]

    @staticmethod
    def impl_files(c, r):
        """real output files -> {(target, cell, mate): text}; empty files are dropped (the model lists written files)"""
        out = {}
        for fn, txt in r['out_files'].items():
            m = re.match(r'^(demultiplexed|rejects)R([12])\.fastq\.gz$', fn)
            if m:
                key = (1 if m.group(1) == 'demultiplexed' else 0, '', int(m.group(2)) - 1)
            else:
                m = re.match(r'^demultiplexed\.(.*)\.R([12])\.fastq\.gz$', fn)
                if not m:
                    key = (9, fn, 0)
                else:
                    key = (1, m.group(1), int(m.group(2)) - 1)
            prior = (r.get('prior_out_files') or {}).get(fn)
            if prior is not None and prior == txt and key[1] != '':
                continue     # per-cell file of the earlier run that this run never opened
            if txt != '':
                out[key] = txt
        return out

    @staticmethod
    def model_files(mv):
        return {(t, fw.as_str(cell), m): fw.as_str(b) for t, cell, m, b, _labels in mv[3]}

    @staticmethod
    def is_partial(o):
        """accepted, a first mate written, serialising a later one raised (hypothesis step_ok of the theorems fails)"""
        return o[0] == 0 and any(rec[0] == 0 for rec in o[1])

    def compare(self, c, r, mv):
        """-> list of differences between the model's prediction and the implementation"""
        dif = []
        crashed = 'crash' in r['result']
        if bool(mv[0]) != crashed:
            dif.append('loader %s, model says %s' % ('raised ' + r['result'].get('crash', '') if crashed else 'completed',
                                                     'crashes' if mv[0] else 'completes'))
        if not crashed and not mv[0]:
            if r['result']['processed'] != mv[1]:
                dif.append('processedReadPairs %r, model %r' % (r['result']['processed'], mv[1]))
            ym = {n: y for n, y in zip(r['order'], mv[2])}
            yi = {n: r['result']['yields'].get(n, 0) for n in r['order']}
            if ym != yi:
                dif.append('strategyYields %r, model %r' % (yi, ym))
            extra = set(r['result']['yields']) - set(r['order'])
            if extra:
                dif.append('yield counter for unselected strategies %r' % sorted(extra))
            lg = r.get('log')
            if lg is not None and (lg['processed'] != r['result']['processed'] or {k: v for k, v in lg['yields'].items() if v} !=
                                   {k: v for k, v in r['result']['yields'].items() if v}):
                dif.append('log counters %r differ from the returned ones %r' % (lg, r['result']))
        fi, fm = self.impl_files(c, r), self.model_files(mv)
        # the statement asks for "a rejection reason", not for its wording: reject headers are compared modulo the text
        # of a non-empty RR / Rr value (an empty or missing reason still differs, and is a specification violation)
        fi, fm = ({k: (norm_reject_reasons(t) if k[0] == 0 else t) for k, t in f.items()} for f in (fi, fm))
        if fi != fm:
            for k in sorted(set(fi) | set(fm), key=str):
                if fi.get(k) != fm.get(k):
                    dif.append('file %r: written %r..., model %r...' % (k, (fi.get(k) or '')[:300], (fm.get(k) or '')[:300]))
                    break
        return dif

    # ------------------------------------------------------------------ K
    def load_corpus(self):
        out = []
        for p in sorted(glob.glob(os.path.join(fw.VERIF, 'corpus', 'C01', '*.json'))):
            c = json.load(open(p))
            c.setdefault('stream', 'corpus')
            out.append(c)
        return out

    def run_impl_cases(self, cases):
        slim = [{k: v for k, v in c.items() if k != 'meta'} for c in cases]
        res = []
        B = 400
        for i in range(0, len(slim), B):
            res += fw.run_impl('impl_c01.py', {'cmd': 'run', 'cases': slim[i:i + B]})['cases']
        return res

    def correspondence(self):
        cases = self.load_corpus() + self.gen_cases()
        if self.tier == 'thorough':
            cases += self.exhaustive_cases()
        res = self.run_impl_cases(cases)
        self.cases, self.res = cases, res
        errs = [(c, r) for c, r in zip(cases, res) if 'error' in r]
        # ---- measured coverage
        hist = {'stream': {}, 'outcome': {}, 'form': {}, 'kind': {}, 'config': {}, 'strategy_accepts': {}, 'reject_path': {},
                'result': {}}

        def bump(h, k, n=1):
            hist[h][k] = hist[h].get(k, 0) + n
        seen, nontriv, partial, first_partial = set(), set(), 0, None
        for c, r in zip(cases, res):
            bump('stream', c['stream'])
            if 'error' in r:
                continue
            h = fw.canon_hash(json.dumps([c['files'], c['eol'], c.get('use'), c.get('rejects'), c.get('sc'), c.get('maxp'), c.get('lib')], sort_keys=True))
            seen.add(h)
            if c.get('reader_only'):
                if any(len(f['lines']) % 4 or any(not rstrip_ascii(l) for l in f['lines']) for f in c['files']) or \
                        len(set(len(f['lines']) for f in c['files'])) > 1:
                    nontriv.add(h)
                continue
            for m in c.get('meta', []):
                bump('form', m['form'])
                bump('kind', m['kind'])
            bump('config', 'mates=%d rejects=%d percell=%d max=%s' % (len(c['files']), c['rejects'], c['sc'],
                                                                     'none' if c['maxp'] is None else 'set'))
            hist.setdefault('loader', {})
            bump('loader', 'log=%d options=%s' % (c.get('log', True), ','.join(sorted(k for k, x in (c.get('loader_opts') or {}).items() if x is not None or k == 'index_alias')) or 'default'))
            bump('result', 'crash:' + r['result']['crash'] if 'crash' in r['result'] else 'completed')
            hist.setdefault('max_vs_pairs', {})
            np_, mp_ = len(r['pairs']), c['maxp']
            bump('max_vs_pairs', 'none' if mp_ is None else '<=0' if mp_ <= 0 else 'cuts inside (1..n-1)' if mp_ < np_ else
                 '= n' if mp_ == np_ else '> n')
            classes = set()
            npairs = len(r['pairs'])
            consumed = npairs if c['maxp'] is None else min(npairs, max(1, c['maxp']))
            for name, col in zip(r['order'], r.get('outcomes', [])):
                for o in col[:consumed]:
                    cls = {0: 'accept', 1: 'reject:', 2: 'raise:'}[o[0]]
                    if self.is_partial(o):
                        cls = 'partial_write:' + next(rec[2] for rec in o[1] if rec[0] == 0)
                        partial += 1
                        first_partial = first_partial or (len(seen), name)
                    elif o[0] == 1:
                        cls += 'index' if 'index' in o[1] else ('barcode' if o[1].startswith('bc:') else 'other')
                    elif o[0] >= 2:
                        cls += o[1]
                    bump('outcome', cls)
                    classes.add(cls.split(':')[0])
                    if o[0] == 0 and not self.is_partial(o):
                        bump('strategy_accepts', name)
            for _rd, _reason, h2 in r.get('rejhdr', []):
                bump('reject_path', {0: 'formatted', 1: 'raw_fallback', 2: 'raise'}[h2[0]])
            if len(classes) >= 2 or consumed < npairs:
                nontriv.add(h)
        nlib = sum(1 for c in cases if not c.get('reader_only'))
        self.cov.update({
            'evaluations': len(cases),
            'distinct_nontrivial': len(nontriv),
            'rule': 'one evaluation = one generated library (gzip FASTQ files x strategies x configuration) through the real '
                    'loader, or one reader-only file set through the real FastqIterator. distinct by hash of (files, strategies, '
                    'configuration); non-trivial = the consumed pairs show at least two outcome classes (accept / reject / raise) '
                    'or maxReadPairs cuts inside the library; reader cases: some file truncated / blank or whitespace line / '
                    'unequal lengths',
            'libraries': nlib, 'reader_only_cases': len(cases) - nlib, 'distinct': len(seen),
            'pair_strategy_steps': sum(hist['outcome'].values()),
            'histograms': hist, 'partial_write_steps': partial,
            'strategies_with_an_accept': len(hist['strategy_accepts']),
            'strategies_registered': len(self.describe()['strategies']),
            'harness_errors': len(errs),
            'exhaustive': False,
            'exhaustive_scope': ('all pair lists of length <= 3 over 12 pair shapes x 3 configurations (%d libraries), besides the '
                                 'random streams' % sum(1 for c in cases if c['stream'] == 'exhaustive')) if self.tier == 'thorough' else None,
        })
        if errs:
            raise fw.Broken('correspondence', 'harness could not run %d cases; first: %s' % (len(errs), errs[0][1]['error']))
        if not self.model_ok:
            return
        # ---- model
        lib_idx = [i for i, c in enumerate(cases) if not c.get('reader_only')]
        rd_idx = [i for i, c in enumerate(cases) if c.get('reader_only')]
        usable = [i for i in lib_idx if 'outcomes' in res[i]]
        minputs = {i: self.model_input(cases[i], res[i]) for i in usable}
        mout = dict(zip(usable, fw.run_model('C01', 0, [minputs[i] for i in usable])))
        mpre = dict(zip(usable, fw.run_model('C01', 1, [minputs[i] for i in usable])))
        rinputs = [self.model_input(cases[i], res[i]) for i in lib_idx + rd_idx]
        mread = dict(zip(lib_idx + rd_idx, fw.run_model('C01', 3, rinputs)))
        dis = []
        for i in lib_idx + rd_idx:     # the reader alone
            exp = [[[fw.as_str(f) for f in rec] for rec in pair] for pair in mread[i]]
            if exp != res[i]['pairs']:
                dis.append({'case': i, 'what': 'FastqIterator yields %d records, model %d; first difference: %r'
                            % (len(res[i]['pairs']), len(exp), next(((a, b) for a, b in zip(res[i]['pairs'] + [None], exp + [None]) if a != b), None))})
        for i in usable:               # the loader
            d = self.compare(cases[i], res[i], mout[i])
            if d:
                dis.append({'case': i, 'what': '; '.join(d)[:1500]})
        self.mout = mout
        shp = fw.run_model('C01', 4, [[]])[0]
        self.cov['loader_shape_in_model'] = {'accept': shp[0], 'reject': shp[1], 'generic': shp[2], 'count_early': shp[3],
                                             'incr_before_test': shp[4], 'strat_before_test': shp[5], 'wf_shape': shp[6],
                                             'encoding': 'arm = (sink 0 none / 1 target / 2 rejects, guarded, reaches the yield increment)'}
        gen = [g for g in self.cov.get('generated', []) if g.get('shape')]
        if gen:
            sk = {'SNone': 0, 'STarget': 1, 'SReject': 2}
            want = [[sk[gen[0]['shape'][a][0]], int(gen[0]['shape'][a][1]), int(gen[0]['shape'][a][2])] for a in ('accept', 'reject', 'generic')] + \
                   [int(gen[0]['shape'][k]) for k in ('count_early', 'incr_before_test', 'strat_before_test')]
            if want != shp[:6]:
                raise fw.Broken('model', 'the extracted model was not built from the regenerated loader shape: binary %r, Gen %r' % (shp[:6], want))
        self.cov['traces_validated_against_impl'] = len(usable) + len(rd_idx)
        self.cov['precondition_hit_rate'] = round(sum(1 for i in usable if mpre[i] == 1) / max(1, len(usable)), 4)
        self.cov['disagreements'] = len(dis)
        self.cov['samples'] = [self.sample(i) for i in (usable[:1] + usable[len(usable) // 2:len(usable) // 2 + 1] + usable[-1:])]
        # ---- vm_compute cross-check of the extracted binary on the smallest cases
        def size(v):
            return 1 if isinstance(v, int) else 1 + sum(size(e) for e in v)
        small = sorted(usable, key=lambda i: size(fw.to_val(minputs[i])))
        small = [i for i in small if res[i]['pairs']][:70] + small[:10]
        pairs_vm = [(minputs[i], mout[i]) for i in small]
        ok, nm, log = fw.vm_crosscheck('C01', 0, pairs_vm, require='Model.C01x')
        rsmall = sorted(rd_idx, key=lambda i: sum(len(f['lines']) for f in cases[i]['files']))[-20:]
        ok2, nm2, log2 = fw.vm_crosscheck('C01', 3, [(self.model_input(cases[i], res[i]), mread[i]) for i in rsmall], require='Model.C01x') if rsmall else (True, 0, '')
        self.cov['vm_compute_crosscheck'] = {'cases': len(pairs_vm) + len(rsmall), 'mismatches': max(nm, 0) + max(nm2, 0)}
        if not (ok and ok2):
            raise fw.Broken('extraction', 'vm_compute and extracted model disagree: ' + (log if not ok else log2)[-800:])
        # ---- the specification itself (specb_C01, extracted binary, mode 2) on the real output files of EVERY case,
        #      cross-checked against the Python transcription
        big = [i for i in lib_idx if 'outcomes' not in res[i]]
        self.cov['spec_only_libraries'] = [{'stream': cases[i]['stream'], 'pairs': len(res[i]['pairs']), 'result': res[i]['result'],
                                            'output_files': len(res[i]['out_files']),
                                            'records_written': sum(v.count('\n') // 4 for v in res[i]['out_files'].values())} for i in big]
        viol, disagree, souts = self.evaluate_spec(cases, res)
        self.viol = viol
        full = [i for i in lib_idx if 'crash' not in res[i]['result']]
        self.cov['specification_on_impl_outputs'] = {
            'evaluated_by': self.spec_by, 'cases': len(cases), 'libraries_all_clauses': len(full),
            'records_checked': sum(v.count('\n') // 4 for i in full for v in res[i]['out_files'].values()),
            'violations': sum(1 for v in viol if v), 'transcription_disagreements': len(disagree)}
        if souts:
            ssmall = sorted(full, key=lambda i: size(fw.to_val(self.spec_input(cases[i], res[i]))))
            ssmall = [i for i in ssmall if res[i]['pairs'] and res[i]['out_files']][:16] + ssmall[:4]
            ok3, nm3, log3 = fw.vm_crosscheck('C01', 2, [(self.spec_input(cases[i], res[i]), souts[i]) for i in ssmall], require='Model.C01x')
            self.cov['vm_compute_crosscheck']['cases'] += len(ssmall)
            self.cov['vm_compute_crosscheck']['mismatches'] += max(nm3, 0)
            self.cov['vm_compute_crosscheck']['of_which_specb'] = len(ssmall)
            if not ok3:
                raise fw.Broken('extraction', 'vm_compute and extracted specb_C01 disagree: ' + log3[-800:])
        if disagree:
            i, pk, ck = disagree[0]
            raise fw.Broken('correspondence', 'specb_C01 (extracted) and its Python transcription disagree on %d cases; first: case %d (%s): '
                            'specb violates %r, transcription %r' % (len(disagree), i, cases[i]['stream'], sorted(ck), sorted(pk)))
        for i, sv in enumerate(viol):
            if sv:
                c = cases[i]
                raise fw.Broken('correspondence', 'specification (specb_C01) violated on the real output of case %d (%s, %d records read, use=%r, '
                                'rejects=%r, percell=%r, max=%r): %s' % (i, c['stream'], len(res[i]['pairs']), c.get('use'), c.get('rejects'),
                                                                          c.get('sc'), c.get('maxp'), sv[0][1]))
        # ---- hypothesis 'every selected strategy once, short names distinct', checked on the real loader constructions
        for i in lib_idx:
            sel = self.selection_problem(cases[i], res[i])
            if sel:
                raise fw.Broken('correspondence', 'strategy registration / selection (loader options %r): %s' % (cases[i].get('loader_opts'), sel))
        # ---- hypothesis step_ok of the theorems, checked on the real code: FastqHandle.write never writes part of a pair
        if partial:
            raise fw.Broken('correspondence', 'hypothesis step_ok (no partial write) fails on the real code: %d (pair, strategy) steps wrote '
                            'a first mate to the demultiplexed output and then raised while serialising a later mate; first: library '
                            '#%s strategy %s' % ((partial,) + tuple(first_partial)))
        if dis:
            self.dis = dis
            i = dis[0]['case']
            raise fw.Broken('correspondence', 'model and implementation disagree on %d of %d cases; first (case %d, %s, use=%r, '
                            'rejects=%r, percell=%r, max=%r): %s' % (len(dis), len(cases), i, cases[i]['stream'], cases[i].get('use'),
                                                                      cases[i].get('rejects'), cases[i].get('sc'), cases[i].get('maxp'),
                                                                      dis[0]['what']))

    def sample(self, i):
        c, r = self.cases[i], self.res[i]
        return {'use': c['use'], 'mates': len(c['files']), 'rejects': c['rejects'], 'percell': c['sc'], 'maxReadPairs': c['maxp'],
                'input_pairs': len(r['pairs']), 'result': r['result'],
                'output_records': {k: v.count('\n') // 4 for k, v in r['out_files'].items()},
                'outcome_classes': [[o[0] for o in col] for col in r['outcomes']]}

    # ------------------------------------------------------------------ specification on the real files
    @staticmethod
    def expected_pairs(c):
        """C01_stop_rule transcribed: number of records the reader must yield"""
        n = 0
        while True:
            for f in c['files']:
                ls = f['lines']
                if 4 * n >= len(ls) or rstrip_ascii(ls[4 * n]) == '':
                    return n
            n += 1

    @staticmethod
    def parse_records(txt):
        """-> list of (header, seq, plus, qual) or None when the text is not a sequence of 4-line records"""
        if txt == '':
            return []
        if not txt.endswith('\n'):
            return None
        lines = txt[:-1].split('\n')
        if len(lines) % 4:
            return None
        recs = [tuple(lines[k:k + 4]) for k in range(0, len(lines), 4)]
        if any(not r[0].startswith('@') for r in recs):
            return None
        return recs

    def selection_problem(self, c, r):
        """the loader must register every strategy once (short names unique; with only_detect_methods exactly the named ones)
        and selecting by short name must give each requested strategy once - the hypothesis 'distinct short names'"""
        reg = r.get('registered')
        if reg is not None:
            if len(set(reg)) != len(reg):
                return 'the loader registered strategies twice: %r' % sorted(n for n in set(reg) if reg.count(n) > 1)
            odm = (c.get('loader_opts') or {}).get('only_detect_methods')
            allnames = [s['name'] for s in self.describe()['strategies']]
            want = [n for n in allnames if odm is None or n in odm]
            if reg != want:
                return 'registered strategies %r, expected %r (only_detect_methods=%r)' % (reg, want, odm)
        if 'order' in r and sorted(r['order']) != sorted(set(c['use'])):
            return 'selecting %r by short name gave the strategies %r' % (c['use'], r['order'])
        return None

    # ---- the specification as decided by the extracted binary
    CLAUSE_KEYS = ['stop_rule', 'reader_record', 'processed', 'order', 'sync', 'beyond_stop', 'partition', 'twice', 'reject', 'reject',
                   'yields', 'log']
    KEY_MAP = {'sync_count': 'sync', 'sync_index': 'sync', 'stale': 'beyond_stop', 'reject_content': 'reject', 'reject_reason': 'reject'}
    PY_ONLY = ('selection', 'crash', 'files')     # about the run as a whole, not about a returned run's outputs
    spec_by = 'not evaluated'

    MX_RE = re.compile(r'(?:^@|;)MX:([^;\n]*)')

    def attribution(self, c, r):
        """which strategy wrote a demultiplexed record: with one selected strategy, that one.  With several: by the MX tag, for
        the tag values only ONE of the selected strategies emits on this library (measured on the real strategy objects: the
        texts of the accepted records in r['outcomes']).  A composite strategy tags its records with the short name of the
        component it delegates to, so the MX value alone does not name the strategy.  -> (single, [names only j emits])"""
        order = r.get('order', [])
        if len(order) <= 1:
            return True, [[] for _ in order]
        emits = []
        for col in (r.get('outcomes') or [[] for _ in order]):
            names = set()
            for o in col:
                if o[0] == 0:
                    for rec in o[1]:
                        m = self.MX_RE.search(rec[2].split('\n', 1)[0]) if rec[0] else None
                        if m:
                            names.add(m.group(1))
            emits.append(names)
        emits += [set() for _ in range(len(order) - len(emits))]
        return False, [sorted(e - set().union(*(emits[:j] + emits[j + 1:]))) for j, e in enumerate(emits)]

    def strategy_of(self, header, single, own):
        if single:
            return 0
        m = self.MX_RE.search(header)
        if not m:
            return None
        for j, names in enumerate(own):
            if m.group(1) in names:
                return j
        return None

    def spec_input(self, c, r):
        """observation of one run of the implementation -> input of run_C01 mode 2 (Model/C01Spec.v run_spec)"""
        files_in = [f['lines'] for f in c['files']]
        if c.get('reader_only') or 'crash' in r.get('result', {'crash': 1}):
            return [[0, 0, 0, []], files_in, r['pairs'], [], 0, [], [], [], 1]
        order = r.get('order', [])
        ys, lg = r['result']['yields'], r.get('log')
        keys = list(order) + sorted((set(ys) | set((lg or {}).get('yields') or {})) - set(order))
        nh = 2 if c['pe_handle'] else 1
        sconf = [len(c['use']), 1 if c['rejects'] else 0, min(nh, len(c['files'])), [c['maxp']] if c['maxp'] is not None else []]
        out = [[k[0], k[1], k[2], txt] for k, txt in sorted(self.impl_files(c, r).items(), key=str) if k[0] != 9]
        log = [] if lg is None else [(-1 if lg['processed'] is None else lg['processed']), [lg['yields'].get(k, 0) for k in keys]]
        single, own = self.attribution(c, r)
        return [sconf, files_in, r['pairs'], out, r['result']['processed'], [ys.get(k, 0) for k in keys], log, own, 1 if single else 0]

    def spec_keys(self, c, r, out):
        """verdict of specb_C01 (clause booleans) -> violated clause keys, staged like the transcription"""
        (fmt_ok, attr_ok), cl = out
        bad = [k for k, b in zip(self.CLAUSE_KEYS, cl) if not b]
        v = set(k for k in bad if k in ('stop_rule', 'reader_record'))
        if c.get('reader_only') or 'crash' in r['result']:
            return v
        if 'processed' in bad:
            v.add('processed')
        if not fmt_ok:
            return v | {'format'}
        if any(k[0] == 9 for k in self.impl_files(c, r)):
            return v
        if not attr_ok:
            return v | {'attribution'}
        return v | set(bad)

    def evaluate_spec(self, cases, res):
        """the specification on the implementation's outputs: specb_C01 through the extracted binary, the Python transcription
        as cross-check.  -> (per case [(key, text)], [(case, transcription keys, specb keys)] where they differ, raw outputs)"""
        py = [self.spec_violations(c, r) if 'error' not in r else [] for c, r in zip(cases, res)]
        exe = os.path.join(fw.BUILD, 'ext', 'C01', 'model')
        if not (getattr(self, 'model_ok', False) and os.path.exists(exe)):
            self.spec_by = 'Python transcription of spec_C01 (the extracted binary is not available)'
            return py, [], {}
        idx = [i for i, r in enumerate(res) if 'error' not in r]
        outs = dict(zip(idx, fw.run_model('C01', 2, [self.spec_input(cases[i], res[i]) for i in idx])))
        self.spec_by = 'specb_C01 (Model/C01Spec.v) through the extracted binary, run_C01 mode 2'
        viol, disagree = [], []
        for i, (c, r) in enumerate(zip(cases, res)):
            if i not in outs:
                viol.append([])
                continue
            ck = self.spec_keys(c, r, outs[i])
            texts = {}
            for k, t in py[i]:
                texts.setdefault(self.KEY_MAP.get(k, k), t)
            pk = set(texts) - set(self.PY_ONLY)
            if pk != ck and not any(k in pk and k in ck for k in ('format', 'attribution')):
                disagree.append((i, pk, ck))
            keys = sorted(ck) + [k for k in self.PY_ONLY if k in texts]
            viol.append([(k, texts.get(k, 'clause %s of specb_C01 is false on the observed run' % k)) for k in keys])
        return viol, disagree, outs

    def spec_violations(self, c, r):
        """Python transcription of spec_C01 (Proofs/C01Spec.v), kept as the cross-check of specb_C01: evaluated on what the
        implementation wrote and returned.  -> list of (key, text)"""
        v = []
        n = self.expected_pairs(c)
        if len(r['pairs']) != n:
            v.append(('stop_rule', 'FastqIterator yielded %d records; every mate file has a record with a non-empty header up to '
                      'index %d' % (len(r['pairs']), n)))
        for k in range(len(r['pairs'])):
            exp = [[rstrip_ascii(f['lines'][4 * k + j]) if 4 * k + j < len(f['lines']) else '' for j in range(4)] for f in c['files']]
            if r['pairs'][k] != exp:
                v.append(('reader_record', 'record %d read as %r, the files hold %r' % (k, r['pairs'][k], exp)))
                break
        if c.get('reader_only'):
            return v
        sel = self.selection_problem(c, r)
        if sel:
            v.append(('selection', sel))
        if 'crash' in r['result']:
            if all(h[0] != 2 for _a, _b, h in r.get('rejhdr', [])):
                v.append(('crash', 'the loader raised %s and left the library unfinished although every reject record can be formatted'
                          % r['result']['crash']))
            return v
        ns = len(c['use'])
        nh = 2 if c['pe_handle'] else 1
        nm = len(c['files'])
        width = min(nh, nm)
        n = len(r['pairs'])
        # processedReadPairs: all pairs, or fewer at a maxReadPairs cut-off that was reached; never beyond max(1, cut-off).
        # (whether a cut-off <= 0 consumes one pair or none is left free: the statement does not say)
        consumed = r['result']['processed']
        mp = c['maxp']
        if not (isinstance(consumed, int) and 0 <= consumed <= n and (consumed == n or (mp is not None and mp <= consumed))
                and (mp is None or consumed <= max(1, mp))):
            v.append(('processed', 'processedReadPairs = %r for %d input pairs, maxReadPairs=%r' % (consumed, n, mp)))
            if not isinstance(consumed, int):
                return v
        files = {}
        for key, txt in self.impl_files(c, r).items():
            recs = self.parse_records(txt)
            if recs is None:
                v.append(('format', 'output file %r is not a sequence of 4-line FASTQ records: %r' % (key, txt[:400])))
                return v
            files[key] = recs
        if any(k[0] == 9 for k in files):
            v.append(('files', 'unexpected output file %r' % [k[1] for k in files if k[0] == 9]))
            return v

        def uid_of(rec):
            m = UID_RE.findall(rec[0])
            return int(m[0]) - UID0 if len(set(m)) == 1 else None
        # mate synchronisation and order, per (sink, cell)
        per_sink = {1: [], 0: []}
        for (t, cell) in sorted(set((k[0], k[1]) for k in files)):
            f0 = files.get((t, cell, 0), [])
            ids0 = [uid_of(x) for x in f0]
            if None in ids0:
                v.append(('attribution', 'a record in %r carries no unique pair id: %r' % ((t, cell), f0[ids0.index(None)][0])))
                return v
            if ids0 != sorted(ids0):
                v.append(('order', 'records of %s file %r are not in input order: pair indices %r' % ('target' if t else 'reject', cell, ids0)))
            if width == 2:
                f1 = files.get((t, cell, 1), [])
                ids1 = [uid_of(x) for x in f1]
                if len(f0) != len(f1):
                    v.append(('sync_count', '%s R1 has %d records, R2 has %d (cell %r)' % ('target' if t else 'reject', len(f0), len(f1), cell)))
                elif ids0 != ids1:
                    k = next(i for i in range(len(ids0)) if ids0[i] != ids1[i])
                    v.append(('sync_index', '%s record %d: R1 stems from pair %r, R2 from pair %r' % ('target' if t else 'reject', k, ids0[k], ids1[k])))
            per_sink[t].append((cell, f0, ids0))
        # partition: every consumed pair exactly once per strategy, unconsumed pairs nowhere
        tcount, rcount, tmx = {}, {}, {}
        single, own = self.attribution(c, r)
        for cell, f0, ids0 in per_sink[1]:
            for rec, u in zip(f0, ids0):
                tcount[u] = tcount.get(u, 0) + 1
                tmx.setdefault(u, []).append(self.strategy_of(rec[0], single, own))
        for cell, f0, ids0 in per_sink[0]:
            for u in ids0:
                rcount[u] = rcount.get(u, 0) + 1
        for u in sorted(set(tcount) | set(rcount) | set(range(consumed))):
            a, b = tcount.get(u, 0), rcount.get(u, 0)
            if u >= STALE:
                v.append(('stale', 'a file written by this run still holds a record of the EARLIER run into the same output '
                          'location (pair %d of the earlier library; %d demultiplexed, %d rejected records)' % (u - STALE, a, b)))
            elif u >= consumed or u < 0:
                v.append(('beyond_stop', 'pair %d was written (%d demultiplexed, %d rejected) although only %d pairs are consumed'
                          % (u, a, b, consumed)))
            elif c['rejects'] and a + b != ns:
                v.append(('partition', 'pair %d (%s) with %d selected strategies: %d demultiplexed + %d rejected records (must be %d in total: '
                          'exactly once per strategy)' % (u, c['meta'][u]['kind'] if u < len(c.get('meta', [])) else '?', ns, a, b, ns)))
            elif not c['rejects'] and (b != 0 or a > ns):
                v.append(('partition', 'pair %d without a rejects handle: %d demultiplexed, %d rejected records, %d strategies' % (u, a, b, ns)))
            mxs = [m for m in tmx.get(u, []) if m is not None]
            if len(mxs) != len(set(mxs)):
                v.append(('twice', 'pair %d was demultiplexed twice by the same strategy: strategy indices %r of %r' % (u, mxs, r.get('order'))))
        # rejects carry a reason and the original bases and qualities
        for (t, cell, m), recs in files.items():
            if t != 0:
                continue
            for rec in recs:
                u = uid_of(rec)
                if u is None or u >= len(r['pairs']):
                    continue
                orig = r['pairs'][u][m] if m < len(r['pairs'][u]) else None
                if orig is None or rec[1] != orig[1] or rec[3] != orig[3]:
                    v.append(('reject_content', 'rejected pair %d mate %d written with bases/qualities %r / %r, input has %r'
                              % (u, m + 1, rec[1], rec[3], orig and (orig[1], orig[3]))))
                    break
                if 'RR:' not in rec[0]:
                    v.append(('reject_reason', 'rejected pair %d mate %d has no rejection reason in its header: %r' % (u, m + 1, rec[0])))
                    break
        # counters equal the number of records written
        nt = sum(len(f0) for _c, f0, _i in per_sink[1])
        ys = r['result']['yields']
        if sum(ys.values()) != nt:
            v.append(('yields', 'strategyYields %r sum to %d, the demultiplexed R1 output holds %d records' % (ys, sum(ys.values()), nt)))
        else:
            bymx = {}
            for ms in tmx.values():
                for m in ms:
                    if m is not None:
                        bymx[m] = bymx.get(m, 0) + 1
            for j, cnt in bymx.items():
                name = r['order'][j] if j < len(r.get('order', [])) else None
                if j < ns and ys.get(name, 0) != cnt:
                    v.append(('yields', 'strategyYields[%s] = %d, %d demultiplexed R1 records of that strategy were written' % (name, ys.get(name, 0), cnt)))
        lg = r.get('log')
        if lg is not None and (lg['processed'] != r['result']['processed'] or
                               {k: x for k, x in lg['yields'].items() if x} != {k: x for k, x in ys.items() if x}):
            v.append(('log', 'demultiplexing.log reports %r, returned %r' % (lg, r['result'])))
        return v

    def search(self):
        if not hasattr(self, 'res'):
            self.cases = self.load_corpus() + self.gen_cases() + (self.exhaustive_cases() if self.tier == 'thorough' else [])
            self.res = self.run_impl_cases(self.cases)
        import time
        self.t_search = time.time()
        best = {}
        viol, _dis, _outs = self.evaluate_spec(self.cases, self.res)
        for c, r, sv in zip(self.cases, self.res, viol):
            for key, text in sv:
                size = sum(len(f['lines']) for f in c['files']) * 10 + len(c.get('use', [])) + (0 if c.get('maxp') is None else 1)
                if key not in best or size < best[key][0]:
                    best[key] = (size, c, r, text)
        for key, (size, c, r, text) in sorted(best.items(), key=lambda kv: kv[1][0]):
            c2, r2, text2 = self.shrink(c, key) or (c, r, text)
            self.witnesses.append({
                'key': key, 'what': text2,
                'input': {k: v for k, v in c2.items() if k != 'meta'},
                'impl': {'result': r2.get('result'), 'out_files': r2.get('out_files'), 'log': r2.get('log'), 'records_read': len(r2['pairs'])},
                'decided_by': self.spec_by,
                'expected': 'every consumed pair exactly once per strategy (demultiplexed XOR rejected with reason, original bases and '
                            'qualities), R1/R2 in step and in input order, counters = records written'})

    def shrink(self, c, key):
        """keep one pair / drop pairs / drop strategies while the same violation remains (a few batched rounds)"""
        import time
        if c.get('reader_only') or not c.get('meta') or c.get('spec_only') or len(c['meta']) > 64:
            return None      # (a library that has to cross the prune threshold cannot be made smaller)
        cur, cur_r, cur_t = c, None, None
        for _round in range(5):
            if time.time() - self.t_search > 90:
                break
            n = len(cur['meta'])
            whole = all(len(f['lines']) == 4 * n for f in cur['files'])
            cands = []

            def keep(idx):
                d = dict(cur)
                d['files'] = [{'lines': [l for p in idx for l in f['lines'][4 * p:4 * p + 4]], 'final_eol': f['final_eol']}
                              for f in cur['files']]
                d['meta'] = [cur['meta'][p] for p in idx]
                d = self.renumber(d)
                if cur.get('prior_files'):
                    d['prior_files'] = cur['prior_files']
                return d
            if whole and n > 1 and not cur.get('main_script'):
                cands += [keep([p]) for p in range(n)]
                cands += [keep(list(range(p + 1))) for p in range(n - 1)]
                if n <= 8:
                    cands += [keep([q for q in range(n) if q != p]) for p in range(n)]
            for s in range(len(cur['use'])):
                if len(cur['use']) > 1:
                    d = dict(cur)
                    d['use'] = cur['use'][:s] + cur['use'][s + 1:]
                    cands.append(d)
            if cur.get('maxp') is not None:
                d = dict(cur)
                d['maxp'] = None
                cands.append(d)
            if not cands:
                break
            rs = self.run_impl_cases(cands)
            hits = []
            vs, _d, _o = self.evaluate_spec(cands, rs)
            for d, r, sv in zip(cands, rs, vs):
                if 'error' in r:
                    continue
                hit = [t for k, t in sv if k == key]
                if hit:
                    hits.append((sum(len(f['lines']) for f in d['files']) * 10 + len(d['use']) + (d.get('maxp') is not None), d, r, hit[0]))
            if not hits:
                break
            hits.sort(key=lambda h: h[0])
            _, cur, cur_r, cur_t = hits[0]
        return (cur, cur_r, cur_t) if cur_r is not None else None

    @staticmethod
    def renumber(d):
        files = []
        for f in d['files']:
            lines = list(f['lines'])
            for k in range(0, len(lines), 4):
                for j in (0, 2):
                    if k + j < len(lines):
                        lines[k + j] = UID_RE.sub(str(UID0 + k // 4), lines[k + j])
            files.append({'lines': lines, 'final_eol': f['final_eol']})
        d['files'] = files
        d['meta'] = [dict(m, uid=UID0 + i) for i, m in enumerate(d['meta'])]
        return d

    # ------------------------------------------------------------------ known findings
    D4_CASE = {'stream': 'known', 'eol': '\n', 'use': ['NLAIII384C8U3'], 'rejects': True, 'sc': False, 'maxp': None,
               'lib': 'L' * 200, 'pe_handle': True,
               'files': [{'lines': ['@NS500414:628:H7YVNBGXC:1:2101:10000:1046 1:N:0:ACAGTG', 'ATCGGGGGGGGTAGTCATTCAGGAGC', '+', 'E' * 26], 'final_eol': True},
                         {'lines': ['@NS500414:628:H7YVNBGXC:1:2101:10000:1046 2:N:0:ACAGTG', 'ACGTACGTACGTAAAACC', '+', 'E' * 18], 'final_eol': True}]}

    def replay_known(self, finding):
        if finding.get('key') == 'crash:reject-header-overflow':
            r = self.run_impl_cases([self.D4_CASE])[0]
            return 'crash' in r.get('result', {})
        return False

    def matches(self, finding, witness):
        # the recorded finding (abort on a reject header that cannot be formatted) lies outside the theorems' precondition
        # (res_crashed = false) and never yields a witness; every witness search() produces is a new violation
        return False
