"""C01 - demultiplexing conserves every read pair (demultiplexed XOR rejected), mate synchronisation, counters.

K end to end: generated gzip FASTQ libraries go through the real DemultiplexingStrategyLoader.demultiplex
(real FastqIterator, real FastqHandle output files, read back with gzip).  The Coq model of the loader is
parametric in the strategies; the abstraction (tools/impl_c01.py) gives it, per pair and strategy, the outcome
class of the real strategy.demultiplex (Accept with its serialised records / NonMultiplexable reason / other
exception) and the reject header of the loader's base demultiplexer.  The model then predicts the BYTES of every
output file, the returned counters and the counters in the log.  search() evaluates the specification the
theorems state (partition / mate sync / counters / reject content) directly on the real output files (Python
transcription of Props/C01.v; no model needed)."""
import json, os, re, glob
import fw

ALPH = 'ACGT'
Q_MAIN = ''.join(chr(c) for c in range(33, 85))      # '!'..'T'  (phred 0..51): below the header clamp of C04
Q_FULL = ''.join(chr(c) for c in range(33, 127))     # every Sanger quality 0..93
UID0 = 10000
STALE = 8000      # ids 18000.. belong to the earlier run of a run history (libraries with a history are small)
UID_RE = re.compile(r'(?<!\d)(1\d{4})(?!\d)')
SPACES = [' ', '\t', '\x0b', '\x0c', '\x1c', '\x1d', '\x1e', '\x1f']
WS = set(' \t\n\x0b\x0c\r\x1c\x1d\x1e\x1f')


def revcomp(s):
    return ''.join({'A': 'T', 'C': 'G', 'G': 'C', 'T': 'A'}.get(c, c) for c in reversed(s))


# read prefixes the composite strategies accept (taken from tests/test_demultiplexing.py)
_TCHIC = 'TAT' + 'TAAGTGCT' + 'TATC' + 'CTGTTG' + 'ACAGAAGC' + 'T' * 21 + 'TGAGAGAGAGAGAGAGAGAGAGAGC'
_DAM = 'ACT' + 'TGCA' + 'CTC' + 'TATG'
SEEDS = {'TCHIC': _TCHIC, 'CHICTV': _TCHIC, 'DamID2andT_3u4b3u4b': _DAM, 'DamID2andT_3u4b3u6b': _DAM, 'DamAndT': _DAM,
         'DamID2_3u4b3u6b': _DAM}


def rstrip_ascii(s):
    while s and s[-1] in WS:
        s = s[:-1]
    return s


def norm_reject_reasons(text):
    lines = text.split('\n')
    for i in range(0, len(lines), 4):
        lines[i] = re.sub(r';(RR|Rr):[^;\n]+', r';\1:*', lines[i])
    return '\n'.join(lines)


class Prop(fw.PropBase):
    ID = 'C01'
    PROPS = 'Props/C01.v'
    TRUSTED = [
        'modelled not verified: gzip (de)compression, text decoding and readline() line splitting of the input, '
        'the OS file system, HandleLimiter in one-file-per-cell mode (C19); the model starts from the list of lines '
        'of every mate file and ends at the sequence of write() calls per output file',
        'the strategies are PARAMETERS of the model: what a strategy extracts (C02), barcode correction (C03) and the '
        'header codec incl. the phred clamp and the 255 limit (C04) are not re-verified here; their outcome class '
        '(accept / NonMultiplexable / other exception) per pair is measured by calling the real strategy.demultiplex',
        'a partial write (first mate written, serialising a later mate raises) is modelled literally, excluded from the '
        'theorems by the hypothesis step_ok, and that hypothesis is CHECKED on the real code: any partial write is a violation',
        'K only, no theorem: the command line driver demux.py __main__ (library listing, pairing of R1/R2 chunk files by sorted '
        'name incl. list-of-files input, shared -n budget over lanes and chunks) - its runs are compared with the model of the '
        'concatenated library in sorted-name order; run histories (an earlier run into the same directory / prefix, joint and '
        'per-cell) - the later run must leave exactly its own records in every file it writes',
        'libraries large enough to cross HandleLimiter.prune (stream percell_prune, > 10000 record writes) are not run '
        'through the model; the specification is evaluated on their real output files directly',
        'attribution of an output record to its input pair in search() uses a unique 5-digit id the generator puts '
        'into every header',
    ]
    ASSUMPTIONS = [
        'at least one input file; ASCII input; mates of one pair carry the same header apart from the read number',
        'exactly-once with a rejects handle; without one (--norejects) a rejected pair is dropped by request and the '
        'theorem states: demultiplexed at most once, rejects output empty',
        'the reject record can be formatted: library name short enough that header + ;RR:reason stays within the '
        'header limit; otherwise the loader aborts with ValueError (loud; reported as stream longlib, finding D4)',
        'selected strategies have distinct short names (the yield counter is keyed by short name)',
    ]

    # ------------------------------------------------------------------ generators
    def describe(self):
        if not hasattr(self, '_desc'):
            self._desc = fw.run_impl('impl_c01.py', {'cmd': 'describe'})
        return self._desc

    def header(self, form, uid, mate, idx):
        if form == 'full':
            return '@NS500414:628:H7YVNBGXC:1:2101:%d:1046 %d:N:0:%s' % (uid, mate, idx)
        if form == 'noindex':
            return '@NS500414:628:H7YVNBGXC:1:2101:%d:1046 %d:N:0::' % (uid, mate)
        if form == 'short7':
            return '@NS500414:628:H7YVNBGXC:1:2101:%d:1046' % uid
        if form == 'scmo':
            return '@Is:NS500414;RN:628;Fc:H7YVNBGXC;La:1;Ti:2101;CX:%d;CY:1046' % uid
        if form == '3dec':
            return '@Cluster_s_1_%d_%d' % (uid, mate)
        return '@garbage%d/%d' % (uid, mate)

    @staticmethod
    def make_prior(files):
        """the library of an EARLIER run into the same output location: the same reads under other ids (+5000)"""
        out = []
        for f in files:
            lines = [UID_RE.sub(lambda m: str(int(m.group(1)) + STALE), l) if k % 4 in (0, 2) else l for k, l in enumerate(f['lines'])]
            out.append({'lines': lines, 'final_eol': True})
        return out

    def make_library(self, stream, strategies=None):
        rng = self.rng
        desc = self.describe()
        by_name = {s['name']: s for s in desc['strategies']}
        names = [s['name'] for s in desc['strategies']]
        quick = self.tier == 'quick'
        if strategies is None:
            k = rng.choice([1, 1, 2, 2, 3])
            strategies = rng.sample(names, k)
        nm = rng.choice([2, 2, 2, 1])
        if stream == 'malformed' and rng.random() < 0.1:
            nm = 3
        se_names = [n for n in strategies if by_name[n].get('barcodeRead') == 0 and by_name[n].get('random_primer_read') in (None, 0)]
        if nm == 1 and not se_names and rng.random() < 0.5:
            nm = 2
        if any(n_.lower().endswith('se') for n_ in strategies) and rng.random() < 0.8:
            nm = 1      # the *_SINGLE_END strategies refuse tuples of two
        n = rng.choice([0, 1, 2, 3, 4, 5, 6, 8, 10, 12] if quick else [0, 1, 2, 3, 5, 8, 12, 16, 24, 30])
        qalph = Q_FULL if stream == 'phred' or rng.random() < 0.4 else Q_MAIN   # D2 (clamp) is repaired: every phred 0..93
        known_idx = desc['indices']
        forms = ['full'] * 6 + ['noindex', 'short7', 'scmo', '3dec']
        if stream == 'malformed':
            forms += ['garbage'] * 3
        lib_form = rng.choice(forms) if rng.random() < 0.5 else None
        files = [[] for _ in range(nm)]
        meta = []
        for p in range(n):
            uid = UID0 + p
            form = lib_form or rng.choice(forms)
            r = rng.random()
            idx = rng.choice(known_idx) if r < 0.85 else rng.choice(['GGGGGG', 'TTTTTTTT', '1', '12', 'NNNNNN', 'ACAGTC'])
            kind = rng.choice(['valid'] * 5 + ['mm1', 'unknown', 'short', 'empty', 'N', 'trunc_bc'])
            tgt = by_name[rng.choice(strategies)]
            seqs = [''.join(rng.choice(ALPH) for _ in range(rng.randint(24, 44))) for _ in range(nm)]
            bl, bs, br = tgt.get('barcodeLength'), tgt.get('barcodeStart'), tgt.get('barcodeRead')
            if tgt['barcodes'] and bl is not None and br is not None and br < nm:
                bc = rng.choice(tgt['barcodes'])
                if kind == 'mm1':
                    i = rng.randrange(len(bc))
                    bc = bc[:i] + rng.choice([c for c in 'ACGTN' if c != bc[i]]) + bc[i + 1:]
                elif kind == 'unknown':
                    bc = ''.join(rng.choice(ALPH) for _ in bc)
                s = seqs[br]
                seqs[br] = s[:bs] + bc + s[bs + len(bc):]
                if kind == 'trunc_bc':
                    seqs[br] = seqs[br][:bs + rng.randint(0, len(bc) - 1)]
            if nm == 2 and kind in ('valid', 'N') and tgt['name'] in SEEDS and rng.random() < 0.7:
                s1 = SEEDS[tgt['name']] + ''.join(rng.choice(ALPH) for _ in range(rng.randint(6, 20)))
                seqs = [s1, revcomp(s1)]
            if kind == 'short':
                k = rng.randrange(nm)
                seqs[k] = seqs[k][:rng.randint(0, 9)]
            elif kind == 'empty':
                k = rng.randrange(nm)
                seqs[k] = ''
                if rng.random() < 0.3:
                    seqs = ['' for _ in seqs]
            elif kind == 'N':
                seqs = [''.join('N' if rng.random() < 0.25 else c for c in s) for s in seqs]
            quals = [''.join(rng.choice(qalph) for _ in s) for s in seqs]
            if stream == 'malformed' and rng.random() < 0.15:
                k = rng.randrange(nm)
                quals[k] = quals[k][:rng.randint(0, len(quals[k]))] + rng.choice(['', 'II', 'IIIIIIIIIIII'])
            plus = '+' if rng.random() < 0.9 else '+' + self.header(form, uid, 1, idx)[1:]
            for m in range(nm):
                files[m] += [self.header(form, uid, m + 1, idx), seqs[m], plus, quals[m]]
            meta.append({'uid': uid, 'form': form, 'kind': kind, 'seqs': seqs, 'quals': quals})
        fdesc = [{'lines': f, 'final_eol': True} for f in files]
        if stream == 'malformed' and n > 0:
            r = rng.random()
            if r < 0.25:      # one mate file shorter (whole records)
                k = rng.randrange(nm)
                fdesc[k]['lines'] = fdesc[k]['lines'][:4 * rng.randint(0, n - 1)]
            elif r < 0.5:     # truncated in the middle of a record
                k = rng.randrange(nm)
                fdesc[k]['lines'] = fdesc[k]['lines'][:rng.randint(0, 4 * n - 1)]
            elif r < 0.6:     # blank line where a header is expected
                k = rng.randrange(nm)
                fdesc[k]['lines'][4 * rng.randrange(n)] = rng.choice(['', ' ', '\t'])
            elif r < 0.7:
                fdesc[rng.randrange(nm)]['final_eol'] = False
        maxp = None
        if rng.random() < 0.5:
            maxp = rng.choice([0, 1, 1, 2, 3, max(1, n - 1), n, n + 1, n + 3])
            if stream == 'malformed' and rng.random() < 0.2:
                maxp = -1
        pe_handle = nm >= 2
        if stream == 'malformed' and rng.random() < 0.15:
            pe_handle = not pe_handle
        lib = rng.choice(['LIB', 'lib-a_b', 'X', 'APKS-P-H'])
        if stream == 'longlib':
            lib = 'L' * rng.choice([120, 150, 160, 170, 185, 200, 240])
        c = {'stream': stream, 'files': fdesc, 'eol': '\r\n' if rng.random() < 0.1 else '\n', 'use': strategies,
             'rejects': rng.random() < 0.75, 'sc': rng.random() < 0.25, 'maxp': maxp, 'lib': lib,
             'pe_handle': pe_handle, 'meta': meta}
        c['log'] = rng.random() < 0.5      # log_handle: the API default is None, demux.py always passes one
        if rng.random() < 0.3:
            # other constructions of the loader (DemultiplexingStrategyLoader.__init__ options)
            opts = {}
            r = rng.random()
            if r < 0.6:
                opts['only_detect_methods'] = sorted(set(strategies + rng.sample(names, rng.randint(0, 2))), key=lambda _: rng.random())
            if rng.random() < 0.3:
                opts['index_alias'] = rng.choice([None, 'illumina_merged_iPCR_RP', 'illumina_RP_indices'])
            if rng.random() < 0.1:
                opts['no_index_parser'] = True
            if opts:
                c['loader_opts'] = opts
        if stream == 'main' and n > 0 and rng.random() < 0.2:
            # run history: an earlier run wrote into the same directory / prefix (re-run of a library)
            c['prior_files'] = self.make_prior(fdesc)
            c['sc'] = rng.random() < 0.5
        return c

    def make_main_case(self, history=False):
        """several lanes of one library through the command line driver (demux.py __main__): the lanes are processed in
        order with one shared budget -n, so the expected outcome is that of the concatenated library with maxReadPairs = n"""
        rng = self.rng
        while True:
            c = self.make_library('main')
            if len(c['files']) <= 2 and len(c['meta']) >= 2:
                break
        n = len(c['meta'])
        k = rng.choice([1, 2, 2, 2, 3, 3, 4])
        cuts = sorted(rng.randint(0, n) for _ in range(k - 1))
        sizes = [b - a for a, b in zip([0] + cuts, cuts + [n])]
        sizes = [x for x in sizes if x > 0] or [n]
        # the pieces are lanes (L001, L002 ...) and chunks of a lane (_001, _002 ...), in sorted-name = processing order
        pieces, lane, chunk = [], 1, 0
        for x in sizes:
            if pieces and rng.random() < 0.5:
                chunk += 1
            else:
                lane, chunk = (lane + 1 if pieces else 1), 1
            pieces.append([lane, chunk, x])
        c.pop('prior_files', None)
        c.pop('log', None)
        c['loader_opts'] = {'only_detect_methods': list(c['use'])} if rng.random() < 0.4 else None
        c.update({'stream': 'main_script', 'main_script': True, 'lane_sizes': sizes, 'pieces': pieces, 'lib': 'LIBA', 'eol': '\n',
                  'pe_handle': len(c['files']) == 2,
                  'list_seed': rng.randint(0, 10 ** 6) if rng.random() < 0.5 else None,
                  'maxp': rng.choice([None, 1, max(1, n - 1), n, n + 2, max(1, sizes[0]), sizes[0] + 1, sizes[0] + 1,
                                      rng.randint(1, n)])})
        if history:
            c['prior_files'] = self.make_prior(c['files'])
        return c

    def make_prune_case(self):
        """one-file-per-cell output with more cell files than open handles (-fh 2) and more than 10000 record writes, so that
        FastqHandle's HandleLimiter prunes (pruneEvery = 10000) and pruned cell files are re-opened afterwards.  Too large for
        the model's table look-up: the specification is evaluated on the real files directly (spec_only)."""
        rng = self.rng
        d = {s['name']: s for s in self.describe()['strategies']}['NLAIII384C8U3']
        cells = rng.sample(d['barcodes'], 6)
        idx = self.describe()['indices'][0]
        n = 5000 + rng.randint(8, 40)
        f1, f2, meta = [], [], []
        for p in range(n):
            uid = UID0 + p
            s1 = ''.join(rng.choice(ALPH) for _ in range(3)) + cells[(p + (p // 7)) % 6] + 'CATG' + ''.join(rng.choice(ALPH) for _ in range(6))
            s2 = ''.join(rng.choice(ALPH) for _ in range(10))
            if p % 997 == 5:
                s1 = s1[:3] + 'GGGGGGGG' + s1[11:]      # a few rejected pairs
            f1 += [self.header('full', uid, 1, idx), s1, '+', 'E' * len(s1)]
            f2 += [self.header('full', uid, 2, idx), s2, '+', 'E' * len(s2)]
            meta.append({'uid': uid, 'form': 'full', 'kind': 'valid', 'seqs': [s1, s2], 'quals': ['E' * len(s1), 'E' * len(s2)]})
        return {'stream': 'percell_prune', 'spec_only': True, 'max_handles': 2, 'eol': '\n', 'use': ['NLAIII384C8U3'], 'rejects': True,
                'sc': True, 'maxp': None, 'lib': 'LIB', 'pe_handle': True, 'meta': meta,
                'files': [{'lines': f1, 'final_eol': True}, {'lines': f2, 'final_eol': True}]}

    def make_reader_case(self):
        rng = self.rng
        nm = rng.choice([1, 2, 2, 3])
        n = rng.randint(0, 5)
        files = []
        for m in range(nm):
            lines = []
            k = n if rng.random() < 0.6 else rng.randint(0, n + 1)
            for p in range(k):
                for field in range(4):
                    body = ''.join(rng.choice('@ACGT+I:; x') for _ in range(rng.randint(0, 6)))
                    if field == 0 and rng.random() < 0.9:
                        body = '@r%d' % p + body
                    if rng.random() < 0.12:
                        body = ''.join(rng.choice(SPACES) for _ in range(rng.randint(0, 3)))
                    if rng.random() < 0.3:
                        body += ''.join(rng.choice(SPACES) for _ in range(rng.randint(1, 3)))
                    if rng.random() < 0.1:
                        body = ' ' + body
                    lines.append(body)
            if rng.random() < 0.3 and lines:
                lines = lines[:rng.randint(0, len(lines))]
            files.append({'lines': lines, 'final_eol': rng.random() < 0.8})
        return {'stream': 'reader', 'reader_only': True, 'files': files, 'eol': rng.choice(['\n', '\n', '\r\n'])}

    def gen_cases(self):
        quick = self.tier == 'quick'
        names = [s['name'] for s in self.describe()['strategies']]
        cases = []
        per = 5 if quick else 40
        for nme in names:                       # every registered strategy alone
            for _ in range(per):
                cases.append(self.make_library('main', [nme]))
        for _ in range(40 if quick else 600):   # several strategies at once
            cases.append(self.make_library('main'))
        for _ in range(30 if quick else 300):
            cases.append(self.make_library('phred'))
        for _ in range(40 if quick else 400):
            cases.append(self.make_library('malformed'))
        for _ in range(10 if quick else 80):
            cases.append(self.make_library('longlib'))
        for _ in range(80 if quick else 800):
            cases.append(self.make_reader_case())
        for i in range(8 if quick else 60):
            cases.append(self.make_main_case(history=(i % 4 == 1)))
        for _ in range(1 if quick else 2):
            cases.append(self.make_prune_case())
        return cases

    def exhaustive_cases(self):
        """thorough tier: every pair list of length <= 3 over an alphabet of pair shapes, for three configurations"""
        import itertools
        desc = self.describe()
        by_name = {s['name']: s for s in desc['strategies']}
        bc = by_name['NLAIII384C8U3']['barcodes'][0]
        idx = desc['indices'][0]
        tail = 'TAGTCATTCAGGAGCAGGTTCTT'
        shapes = [
            ('ATC' + bc + tail, 'full', idx), ('ATC' + 'GGGGGGGG' + tail, 'full', idx), ('ATC' + bc + tail, 'full', 'GGGGGG'),
            ('ATC' + bc[:5], 'full', idx), ('', 'full', idx), ('ATC' + bc + tail, '3dec', idx), ('ATC' + bc + tail, 'garbage', idx),
            ('ATC' + bc + tail, 'scmo', idx), ('NNN' + bc + tail, 'short7', idx), ('ATC' + bc + tail, 'noindex', idx),
            ('ATCN' + bc[1:] + tail, 'full', idx), ('ATC' + bc + 'A', 'full', idx),
        ]
        out = []
        for L in range(0, 4):
            for combo in itertools.product(range(len(shapes)), repeat=L):
                for (use, nm, rejects, maxp) in ((['NLAIII384C8U3'], 2, True, None), (['CS2C8U6', 'NLAIII384C8U3'], 2, True, 2),
                                                 (['NLAIII384C8U3SE'], 1, False, None)):
                    files = [[] for _ in range(nm)]
                    meta = []
                    for p, si in enumerate(combo):
                        seq, form, ix = shapes[si]
                        uid = UID0 + p
                        seqs = [seq, 'ACGTACGTACGTAAAACC'][:nm]
                        quals = ['E' * len(s) for s in seqs]
                        for m in range(nm):
                            files[m] += [self.header(form, uid, m + 1, ix), seqs[m], '+', quals[m]]
                        meta.append({'uid': uid, 'form': form, 'kind': 'shape%d' % si, 'seqs': seqs, 'quals': quals})
                    out.append({'stream': 'exhaustive', 'files': [{'lines': f, 'final_eol': True} for f in files], 'eol': '\n',
                                'use': use, 'rejects': rejects, 'sc': False, 'maxp': maxp, 'lib': 'LIB', 'pe_handle': nm == 2,
                                'meta': meta})
        return out

    # ------------------------------------------------------------------ model I/O
    @staticmethod
    def model_input(c, r, legacy=0):
        cfg = [[c['maxp']] if c.get('maxp') is not None else [], 1 if c.get('rejects') else 0, 1 if c.get('sc') else 0,
               2 if c.get('pe_handle') else 1, legacy, 1 if c.get('log', True) else 0]
        files = [f['lines'] for f in c['files']]
        strategies, rejhdr = [], []
        if not c.get('reader_only'):
            for col in r.get('outcomes', []):
                tbl = []
                for pair, o in zip(r['pairs'], col):
                    if o[0] == 0:
                        ov = [0, [[ok, cell, text] for ok, cell, text in o[1]]]
                    else:
                        ov = [o[0], o[1]]
                    tbl.append([pair, ov])
                strategies.append(tbl)
            rejhdr = [[rd, reason, ([h[0], h[1]] if h[0] < 2 else [2])] for rd, reason, h in r.get('rejhdr', [])]
        return [cfg, files, strategies, rejhdr]

    @staticmethod
    def impl_files(c, r):
        """real output files -> {(target, cell, mate): text}; empty files are dropped (the model lists written files)"""
        out = {}
        for fn, txt in r['out_files'].items():
            m = re.match(r'^(demultiplexed|rejects)R([12])\.fastq\.gz$', fn)
            if m:
                key = (1 if m.group(1) == 'demultiplexed' else 0, '', int(m.group(2)) - 1)
            else:
                m = re.match(r'^demultiplexed\.(.*)\.R([12])\.fastq\.gz$', fn)
                if not m:
                    key = (9, fn, 0)
                else:
                    key = (1, m.group(1), int(m.group(2)) - 1)
            prior = (r.get('prior_out_files') or {}).get(fn)
            if prior is not None and prior == txt and key[1] != '':
                continue     # per-cell file of the earlier run that this run never opened
            if txt != '':
                out[key] = txt
        return out

    @staticmethod
    def model_files(mv):
        return {(t, fw.as_str(cell), m): fw.as_str(b) for t, cell, m, b, _labels in mv[3]}

    @staticmethod
    def is_partial(o):
        """accepted, a first mate written, serialising a later one raised (hypothesis step_ok of the theorems fails)"""
        return o[0] == 0 and any(rec[0] == 0 for rec in o[1])

    def compare(self, c, r, mv):
        """-> list of differences between the model's prediction and the implementation"""
        dif = []
        crashed = 'crash' in r['result']
        if bool(mv[0]) != crashed:
            dif.append('loader %s, model says %s' % ('raised ' + r['result'].get('crash', '') if crashed else 'completed',
                                                     'crashes' if mv[0] else 'completes'))
        if not crashed and not mv[0]:
            if r['result']['processed'] != mv[1]:
                dif.append('processedReadPairs %r, model %r' % (r['result']['processed'], mv[1]))
            ym = {n: y for n, y in zip(r['order'], mv[2])}
            yi = {n: r['result']['yields'].get(n, 0) for n in r['order']}
            if ym != yi:
                dif.append('strategyYields %r, model %r' % (yi, ym))
            extra = set(r['result']['yields']) - set(r['order'])
            if extra:
                dif.append('yield counter for unselected strategies %r' % sorted(extra))
            lg = r.get('log')
            if lg is not None and (lg['processed'] != r['result']['processed'] or {k: v for k, v in lg['yields'].items() if v} !=
                                   {k: v for k, v in r['result']['yields'].items() if v}):
                dif.append('log counters %r differ from the returned ones %r' % (lg, r['result']))
        fi, fm = self.impl_files(c, r), self.model_files(mv)
        # the statement asks for "a rejection reason", not for its wording: reject headers are compared modulo the text
        # of a non-empty RR / Rr value (an empty or missing reason still differs, and is a specification violation)
        fi, fm = ({k: (norm_reject_reasons(t) if k[0] == 0 else t) for k, t in f.items()} for f in (fi, fm))
        if fi != fm:
            for k in sorted(set(fi) | set(fm), key=str):
                if fi.get(k) != fm.get(k):
                    dif.append('file %r: written %r..., model %r...' % (k, (fi.get(k) or '')[:300], (fm.get(k) or '')[:300]))
                    break
        return dif

    # ------------------------------------------------------------------ K
    def load_corpus(self):
        out = []
        for p in sorted(glob.glob(os.path.join(fw.VERIF, 'corpus', 'C01', '*.json'))):
            c = json.load(open(p))
            c.setdefault('stream', 'corpus')
            out.append(c)
        return out

    def run_impl_cases(self, cases):
        slim = [{k: v for k, v in c.items() if k != 'meta'} for c in cases]
        res = []
        B = 400
        for i in range(0, len(slim), B):
            res += fw.run_impl('impl_c01.py', {'cmd': 'run', 'cases': slim[i:i + B]})['cases']
        return res

    def correspondence(self):
        cases = self.load_corpus() + self.gen_cases()
        if self.tier == 'thorough':
            cases += self.exhaustive_cases()
        res = self.run_impl_cases(cases)
        self.cases, self.res = cases, res
        errs = [(c, r) for c, r in zip(cases, res) if 'error' in r]
        # ---- measured coverage
        hist = {'stream': {}, 'outcome': {}, 'form': {}, 'kind': {}, 'config': {}, 'strategy_accepts': {}, 'reject_path': {},
                'result': {}}

        def bump(h, k, n=1):
            hist[h][k] = hist[h].get(k, 0) + n
        seen, nontriv, partial, first_partial = set(), set(), 0, None
        for c, r in zip(cases, res):
            bump('stream', c['stream'])
            if 'error' in r:
                continue
            h = fw.canon_hash(json.dumps([c['files'], c['eol'], c.get('use'), c.get('rejects'), c.get('sc'), c.get('maxp'), c.get('lib')], sort_keys=True))
            seen.add(h)
            if c.get('reader_only'):
                if any(len(f['lines']) % 4 or any(not rstrip_ascii(l) for l in f['lines']) for f in c['files']) or \
                        len(set(len(f['lines']) for f in c['files'])) > 1:
                    nontriv.add(h)
                continue
            for m in c.get('meta', []):
                bump('form', m['form'])
                bump('kind', m['kind'])
            bump('config', 'mates=%d rejects=%d percell=%d max=%s' % (len(c['files']), c['rejects'], c['sc'],
                                                                     'none' if c['maxp'] is None else 'set'))
            hist.setdefault('loader', {})
            bump('loader', 'log=%d options=%s' % (c.get('log', True), ','.join(sorted(k for k, x in (c.get('loader_opts') or {}).items() if x is not None or k == 'index_alias')) or 'default'))
            bump('result', 'crash:' + r['result']['crash'] if 'crash' in r['result'] else 'completed')
            classes = set()
            npairs = len(r['pairs'])
            consumed = npairs if c['maxp'] is None else min(npairs, max(1, c['maxp']))
            for name, col in zip(r['order'], r.get('outcomes', [])):
                for o in col[:consumed]:
                    cls = {0: 'accept', 1: 'reject:', 2: 'raise:'}[o[0]]
                    if self.is_partial(o):
                        cls = 'partial_write:' + next(rec[2] for rec in o[1] if rec[0] == 0)
                        partial += 1
                        first_partial = first_partial or (len(seen), name)
                    elif o[0] == 1:
                        cls += 'index' if 'index' in o[1] else ('barcode' if o[1].startswith('bc:') else 'other')
                    elif o[0] >= 2:
                        cls += o[1]
                    bump('outcome', cls)
                    classes.add(cls.split(':')[0])
                    if o[0] == 0 and not self.is_partial(o):
                        bump('strategy_accepts', name)
            for _rd, _reason, h2 in r.get('rejhdr', []):
                bump('reject_path', {0: 'formatted', 1: 'raw_fallback', 2: 'raise'}[h2[0]])
            if len(classes) >= 2 or consumed < npairs:
                nontriv.add(h)
        nlib = sum(1 for c in cases if not c.get('reader_only'))
        self.cov.update({
            'evaluations': len(cases),
            'distinct_nontrivial': len(nontriv),
            'rule': 'one evaluation = one generated library (gzip FASTQ files x strategies x configuration) through the real '
                    'loader, or one reader-only file set through the real FastqIterator. distinct by hash of (files, strategies, '
                    'configuration); non-trivial = the consumed pairs show at least two outcome classes (accept / reject / raise) '
                    'or maxReadPairs cuts inside the library; reader cases: some file truncated / blank or whitespace line / '
                    'unequal lengths',
            'libraries': nlib, 'reader_only_cases': len(cases) - nlib, 'distinct': len(seen),
            'pair_strategy_steps': sum(hist['outcome'].values()),
            'histograms': hist, 'partial_write_steps': partial,
            'strategies_with_an_accept': len(hist['strategy_accepts']),
            'strategies_registered': len(self.describe()['strategies']),
            'harness_errors': len(errs),
            'exhaustive': False,
            'exhaustive_scope': ('all pair lists of length <= 3 over 12 pair shapes x 3 configurations (%d libraries), besides the '
                                 'random streams' % sum(1 for c in cases if c['stream'] == 'exhaustive')) if self.tier == 'thorough' else None,
        })
        if errs:
            raise fw.Broken('correspondence', 'harness could not run %d cases; first: %s' % (len(errs), errs[0][1]['error']))
        if not self.model_ok:
            return
        # ---- model
        lib_idx = [i for i, c in enumerate(cases) if not c.get('reader_only')]
        rd_idx = [i for i, c in enumerate(cases) if c.get('reader_only')]
        usable = [i for i in lib_idx if 'outcomes' in res[i]]
        minputs = {i: self.model_input(cases[i], res[i]) for i in usable}
        mout = dict(zip(usable, fw.run_model('C01', 0, [minputs[i] for i in usable])))
        mpre = dict(zip(usable, fw.run_model('C01', 1, [minputs[i] for i in usable])))
        rinputs = [self.model_input(cases[i], res[i]) for i in lib_idx + rd_idx]
        mread = dict(zip(lib_idx + rd_idx, fw.run_model('C01', 3, rinputs)))
        dis = []
        for i in lib_idx + rd_idx:     # the reader alone
            exp = [[[fw.as_str(f) for f in rec] for rec in pair] for pair in mread[i]]
            if exp != res[i]['pairs']:
                dis.append({'case': i, 'what': 'FastqIterator yields %d records, model %d; first difference: %r'
                            % (len(res[i]['pairs']), len(exp), next(((a, b) for a, b in zip(res[i]['pairs'] + [None], exp + [None]) if a != b), None))})
        for i in usable:               # the loader
            d = self.compare(cases[i], res[i], mout[i])
            if d:
                dis.append({'case': i, 'what': '; '.join(d)[:1500]})
        self.mout = mout
        self.cov['traces_validated_against_impl'] = len(usable) + len(rd_idx)
        self.cov['precondition_hit_rate'] = round(sum(1 for i in usable if mpre[i] == 1) / max(1, len(usable)), 4)
        self.cov['disagreements'] = len(dis)
        self.cov['samples'] = [self.sample(i) for i in (usable[:1] + usable[len(usable) // 2:len(usable) // 2 + 1] + usable[-1:])]
        # ---- vm_compute cross-check of the extracted binary on the smallest cases
        def size(v):
            return 1 if isinstance(v, int) else 1 + sum(size(e) for e in v)
        small = sorted(usable, key=lambda i: size(fw.to_val(minputs[i])))
        small = [i for i in small if res[i]['pairs']][:70] + small[:10]
        pairs_vm = [(minputs[i], mout[i]) for i in small]
        ok, nm, log = fw.vm_crosscheck('C01', 0, pairs_vm)
        rsmall = sorted(rd_idx, key=lambda i: sum(len(f['lines']) for f in cases[i]['files']))[-20:]
        ok2, nm2, log2 = fw.vm_crosscheck('C01', 3, [(self.model_input(cases[i], res[i]), mread[i]) for i in rsmall]) if rsmall else (True, 0, '')
        self.cov['vm_compute_crosscheck'] = {'cases': len(pairs_vm) + len(rsmall), 'mismatches': max(nm, 0) + max(nm2, 0)}
        if not (ok and ok2):
            raise fw.Broken('extraction', 'vm_compute and extracted model disagree: ' + (log if not ok else log2)[-800:])
        # ---- libraries too large for the model: the specification itself, on the real files
        big = [i for i in lib_idx if 'outcomes' not in res[i]]
        self.cov['spec_only_libraries'] = [{'stream': cases[i]['stream'], 'pairs': len(res[i]['pairs']), 'result': res[i]['result'],
                                            'output_files': len(res[i]['out_files']),
                                            'records_written': sum(v.count('\n') // 4 for v in res[i]['out_files'].values())} for i in big]
        for i in big:
            sv = self.spec_violations(cases[i], res[i])
            if sv:
                raise fw.Broken('correspondence', 'specification violated on the real output files of a %s library (%d pairs, one file per '
                                'cell, -fh %s): %s' % (cases[i]['stream'], len(res[i]['pairs']), cases[i].get('max_handles'), sv[0][1]))
        # ---- hypothesis 'every selected strategy once, short names distinct', checked on the real loader constructions
        for i in lib_idx:
            sel = self.selection_problem(cases[i], res[i])
            if sel:
                raise fw.Broken('correspondence', 'strategy registration / selection (loader options %r): %s' % (cases[i].get('loader_opts'), sel))
        # ---- hypothesis step_ok of the theorems, checked on the real code: FastqHandle.write never writes part of a pair
        if partial:
            raise fw.Broken('correspondence', 'hypothesis step_ok (no partial write) fails on the real code: %d (pair, strategy) steps wrote '
                            'a first mate to the demultiplexed output and then raised while serialising a later mate; first: library '
                            '#%s strategy %s' % ((partial,) + tuple(first_partial)))
        if dis:
            self.dis = dis
            i = dis[0]['case']
            raise fw.Broken('correspondence', 'model and implementation disagree on %d of %d cases; first (case %d, %s, use=%r, '
                            'rejects=%r, percell=%r, max=%r): %s' % (len(dis), len(cases), i, cases[i]['stream'], cases[i].get('use'),
                                                                      cases[i].get('rejects'), cases[i].get('sc'), cases[i].get('maxp'),
                                                                      dis[0]['what']))

    def sample(self, i):
        c, r = self.cases[i], self.res[i]
        return {'use': c['use'], 'mates': len(c['files']), 'rejects': c['rejects'], 'percell': c['sc'], 'maxReadPairs': c['maxp'],
                'input_pairs': len(r['pairs']), 'result': r['result'],
                'output_records': {k: v.count('\n') // 4 for k, v in r['out_files'].items()},
                'outcome_classes': [[o[0] for o in col] for col in r['outcomes']]}

    # ------------------------------------------------------------------ specification on the real files
    @staticmethod
    def expected_pairs(c):
        """C01_stop_rule transcribed: number of records the reader must yield"""
        n = 0
        while True:
            for f in c['files']:
                ls = f['lines']
                if 4 * n >= len(ls) or rstrip_ascii(ls[4 * n]) == '':
                    return n
            n += 1

    @staticmethod
    def parse_records(txt):
        """-> list of (header, seq, plus, qual) or None when the text is not a sequence of 4-line records"""
        if txt == '':
            return []
        if not txt.endswith('\n'):
            return None
        lines = txt[:-1].split('\n')
        if len(lines) % 4:
            return None
        recs = [tuple(lines[k:k + 4]) for k in range(0, len(lines), 4)]
        if any(not r[0].startswith('@') for r in recs):
            return None
        return recs

    def selection_problem(self, c, r):
        """the loader must register every strategy once (short names unique; with only_detect_methods exactly the named ones)
        and selecting by short name must give each requested strategy once - the hypothesis 'distinct short names'"""
        reg = r.get('registered')
        if reg is not None:
            if len(set(reg)) != len(reg):
                return 'the loader registered strategies twice: %r' % sorted(n for n in set(reg) if reg.count(n) > 1)
            odm = (c.get('loader_opts') or {}).get('only_detect_methods')
            allnames = [s['name'] for s in self.describe()['strategies']]
            want = [n for n in allnames if odm is None or n in odm]
            if reg != want:
                return 'registered strategies %r, expected %r (only_detect_methods=%r)' % (reg, want, odm)
        if 'order' in r and sorted(r['order']) != sorted(set(c['use'])):
            return 'selecting %r by short name gave the strategies %r' % (c['use'], r['order'])
        return None

    def spec_violations(self, c, r):
        """Python transcription of C01_partition / C01_mate_sync / C01_counters / C01_stop_rule evaluated on what the
        implementation wrote and returned.  -> list of (key, text)"""
        v = []
        n = self.expected_pairs(c)
        if len(r['pairs']) != n:
            v.append(('stop_rule', 'FastqIterator yielded %d records; every mate file has a record with a non-empty header up to '
                      'index %d' % (len(r['pairs']), n)))
        if c.get('reader_only'):
            for k in range(min(n, len(r['pairs']))):
                exp = [[rstrip_ascii(f['lines'][4 * k + j]) if 4 * k + j < len(f['lines']) else '' for j in range(4)] for f in c['files']]
                if r['pairs'][k] != exp:
                    v.append(('reader_record', 'record %d read as %r, the files hold %r' % (k, r['pairs'][k], exp)))
                    break
            return v
        sel = self.selection_problem(c, r)
        if sel:
            v.append(('selection', sel))
        if 'crash' in r['result']:
            if all(h[0] != 2 for _a, _b, h in r.get('rejhdr', [])):
                v.append(('crash', 'the loader raised %s and left the library unfinished although every reject record can be formatted'
                          % r['result']['crash']))
            return v
        ns = len(c['use'])
        nh = 2 if c['pe_handle'] else 1
        nm = len(c['files'])
        width = min(nh, nm)
        consumed = 0 if n == 0 else (n if c['maxp'] is None else min(n, max(1, c['maxp'])))
        if r['result']['processed'] != consumed:
            v.append(('processed', 'processedReadPairs = %r for %d input pairs, maxReadPairs=%r (expected %d)'
                      % (r['result']['processed'], n, c['maxp'], consumed)))
        files = {}
        for key, txt in self.impl_files(c, r).items():
            recs = self.parse_records(txt)
            if recs is None:
                v.append(('format', 'output file %r is not a sequence of 4-line FASTQ records: %r' % (key, txt[:400])))
                return v
            files[key] = recs
        if any(k[0] == 9 for k in files):
            v.append(('files', 'unexpected output file %r' % [k[1] for k in files if k[0] == 9]))
            return v

        def uid_of(rec):
            m = UID_RE.findall(rec[0])
            return int(m[0]) - UID0 if len(set(m)) == 1 else None
        # mate synchronisation and order, per (sink, cell)
        per_sink = {1: [], 0: []}
        for (t, cell) in sorted(set((k[0], k[1]) for k in files)):
            f0 = files.get((t, cell, 0), [])
            ids0 = [uid_of(x) for x in f0]
            if None in ids0:
                v.append(('attribution', 'a record in %r carries no unique pair id: %r' % ((t, cell), f0[ids0.index(None)][0])))
                return v
            if ids0 != sorted(ids0):
                v.append(('order', 'records of %s file %r are not in input order: pair indices %r' % ('target' if t else 'reject', cell, ids0)))
            if width == 2:
                f1 = files.get((t, cell, 1), [])
                ids1 = [uid_of(x) for x in f1]
                if len(f0) != len(f1):
                    v.append(('sync_count', '%s R1 has %d records, R2 has %d (cell %r)' % ('target' if t else 'reject', len(f0), len(f1), cell)))
                elif ids0 != ids1:
                    k = next(i for i in range(len(ids0)) if ids0[i] != ids1[i])
                    v.append(('sync_index', '%s record %d: R1 stems from pair %r, R2 from pair %r' % ('target' if t else 'reject', k, ids0[k], ids1[k])))
            per_sink[t].append((cell, f0, ids0))
        # partition: every consumed pair exactly once per strategy, unconsumed pairs nowhere
        tcount, rcount, tmx = {}, {}, {}
        for cell, f0, ids0 in per_sink[1]:
            for rec, u in zip(f0, ids0):
                tcount[u] = tcount.get(u, 0) + 1
                mx = re.search(r'(?:^@|;)MX:([^;]*)', rec[0])
                tmx.setdefault(u, []).append(mx.group(1) if mx else None)
        for cell, f0, ids0 in per_sink[0]:
            for u in ids0:
                rcount[u] = rcount.get(u, 0) + 1
        for u in sorted(set(tcount) | set(rcount) | set(range(consumed))):
            a, b = tcount.get(u, 0), rcount.get(u, 0)
            if u >= STALE:
                v.append(('stale', 'a file written by this run still holds a record of the EARLIER run into the same output '
                          'location (pair %d of the earlier library; %d demultiplexed, %d rejected records)' % (u - STALE, a, b)))
            elif u >= consumed or u < 0:
                v.append(('beyond_stop', 'pair %d was written (%d demultiplexed, %d rejected) although only %d pairs are consumed'
                          % (u, a, b, consumed)))
            elif c['rejects'] and a + b != ns:
                v.append(('partition', 'pair %d (%s) with %d selected strategies: %d demultiplexed + %d rejected records (must be %d in total: '
                          'exactly once per strategy)' % (u, c['meta'][u]['kind'] if u < len(c.get('meta', [])) else '?', ns, a, b, ns)))
            elif not c['rejects'] and (b != 0 or a > ns):
                v.append(('partition', 'pair %d without a rejects handle: %d demultiplexed, %d rejected records, %d strategies' % (u, a, b, ns)))
            mxs = [m for m in tmx.get(u, []) if m is not None]
            if len(mxs) != len(set(mxs)):
                v.append(('twice', 'pair %d was demultiplexed twice by the same strategy: %r' % (u, mxs)))
        # rejects carry a reason and the original bases and qualities
        for (t, cell, m), recs in files.items():
            if t != 0:
                continue
            for rec in recs:
                u = uid_of(rec)
                if u is None or u >= len(r['pairs']):
                    continue
                orig = r['pairs'][u][m] if m < len(r['pairs'][u]) else None
                if orig is None or rec[1] != orig[1] or rec[3] != orig[3]:
                    v.append(('reject_content', 'rejected pair %d mate %d written with bases/qualities %r / %r, input has %r'
                              % (u, m + 1, rec[1], rec[3], orig and (orig[1], orig[3]))))
                    break
                if 'RR:' not in rec[0]:
                    v.append(('reject_reason', 'rejected pair %d mate %d has no rejection reason in its header: %r' % (u, m + 1, rec[0])))
                    break
        # counters equal the number of records written
        nt = sum(len(f0) for _c, f0, _i in per_sink[1])
        ys = r['result']['yields']
        if sum(ys.values()) != nt:
            v.append(('yields', 'strategyYields %r sum to %d, the demultiplexed R1 output holds %d records' % (ys, sum(ys.values()), nt)))
        else:
            bymx = {}
            for ms in tmx.values():
                for m in ms:
                    if m is not None:
                        bymx[m] = bymx.get(m, 0) + 1
            for name, cnt in bymx.items():
                if name in c['use'] and ys.get(name, 0) != cnt:
                    v.append(('yields', 'strategyYields[%s] = %d, %d records with MX:%s were written' % (name, ys.get(name, 0), cnt, name)))
        lg = r.get('log')
        if lg is not None and (lg['processed'] != r['result']['processed'] or
                               {k: x for k, x in lg['yields'].items() if x} != {k: x for k, x in ys.items() if x}):
            v.append(('log', 'demultiplexing.log reports %r, returned %r' % (lg, r['result'])))
        return v

    def search(self):
        if not hasattr(self, 'res'):
            self.cases = self.load_corpus() + self.gen_cases() + (self.exhaustive_cases() if self.tier == 'thorough' else [])
            self.res = self.run_impl_cases(self.cases)
        import time
        self.t_search = time.time()
        best = {}
        for c, r in zip(self.cases, self.res):
            if 'error' in r:
                continue
            for key, text in self.spec_violations(c, r):
                size = sum(len(f['lines']) for f in c['files']) * 10 + len(c.get('use', [])) + (0 if c.get('maxp') is None else 1)
                if key not in best or size < best[key][0]:
                    best[key] = (size, c, r, text)
        for key, (size, c, r, text) in sorted(best.items(), key=lambda kv: kv[1][0]):
            c2, r2, text2 = self.shrink(c, key) or (c, r, text)
            self.witnesses.append({
                'key': key, 'what': text2,
                'input': {k: v for k, v in c2.items() if k != 'meta'},
                'impl': {'result': r2.get('result'), 'out_files': r2.get('out_files'), 'log': r2.get('log'), 'records_read': len(r2['pairs'])},
                'expected': 'every consumed pair exactly once per strategy (demultiplexed XOR rejected with reason, original bases and '
                            'qualities), R1/R2 in step and in input order, counters = records written'})

    def shrink(self, c, key):
        """keep one pair / drop pairs / drop strategies while the same violation remains (a few batched rounds)"""
        import time
        if c.get('reader_only') or not c.get('meta') or c.get('spec_only') or len(c['meta']) > 64:
            return None      # (a library that has to cross the prune threshold cannot be made smaller)
        cur, cur_r, cur_t = c, None, None
        for _round in range(5):
            if time.time() - self.t_search > 90:
                break
            n = len(cur['meta'])
            whole = all(len(f['lines']) == 4 * n for f in cur['files'])
            cands = []

            def keep(idx):
                d = dict(cur)
                d['files'] = [{'lines': [l for p in idx for l in f['lines'][4 * p:4 * p + 4]], 'final_eol': f['final_eol']}
                              for f in cur['files']]
                d['meta'] = [cur['meta'][p] for p in idx]
                d = self.renumber(d)
                if cur.get('prior_files'):
                    d['prior_files'] = cur['prior_files']
                return d
            if whole and n > 1 and not cur.get('main_script'):
                cands += [keep([p]) for p in range(n)]
                cands += [keep(list(range(p + 1))) for p in range(n - 1)]
                if n <= 8:
                    cands += [keep([q for q in range(n) if q != p]) for p in range(n)]
            for s in range(len(cur['use'])):
                if len(cur['use']) > 1:
                    d = dict(cur)
                    d['use'] = cur['use'][:s] + cur['use'][s + 1:]
                    cands.append(d)
            if cur.get('maxp') is not None:
                d = dict(cur)
                d['maxp'] = None
                cands.append(d)
            if not cands:
                break
            rs = self.run_impl_cases(cands)
            hits = []
            for d, r in zip(cands, rs):
                if 'error' in r:
                    continue
                hit = [t for k, t in self.spec_violations(d, r) if k == key]
                if hit:
                    hits.append((sum(len(f['lines']) for f in d['files']) * 10 + len(d['use']) + (d.get('maxp') is not None), d, r, hit[0]))
            if not hits:
                break
            hits.sort(key=lambda h: h[0])
            _, cur, cur_r, cur_t = hits[0]
        return (cur, cur_r, cur_t) if cur_r is not None else None

    @staticmethod
    def renumber(d):
        files = []
        for f in d['files']:
            lines = list(f['lines'])
            for k in range(0, len(lines), 4):
                for j in (0, 2):
                    if k + j < len(lines):
                        lines[k + j] = UID_RE.sub(str(UID0 + k // 4), lines[k + j])
            files.append({'lines': lines, 'final_eol': f['final_eol']})
        d['files'] = files
        d['meta'] = [dict(m, uid=UID0 + i) for i, m in enumerate(d['meta'])]
        return d

    # ------------------------------------------------------------------ known findings
    D4_CASE = {'stream': 'known', 'eol': '\n', 'use': ['NLAIII384C8U3'], 'rejects': True, 'sc': False, 'maxp': None,
               'lib': 'L' * 200, 'pe_handle': True,
               'files': [{'lines': ['@NS500414:628:H7YVNBGXC:1:2101:10000:1046 1:N:0:ACAGTG', 'ATCGGGGGGGGTAGTCATTCAGGAGC', '+', 'E' * 26], 'final_eol': True},
                         {'lines': ['@NS500414:628:H7YVNBGXC:1:2101:10000:1046 2:N:0:ACAGTG', 'ACGTACGTACGTAAAACC', '+', 'E' * 18], 'final_eol': True}]}

    def replay_known(self, finding):
        if finding.get('key') == 'crash:reject-header-overflow':
            r = self.run_impl_cases([self.D4_CASE])[0]
            return 'crash' in r.get('result', {})
        return False

    def matches(self, finding, witness):
        # the recorded finding (abort on a reject header that cannot be formatted) lies outside the theorems' precondition
        # (res_crashed = false) and never yields a witness; every witness search() produces is a new violation
        return False
