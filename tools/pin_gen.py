"""Refresh coq/Gen.pinned/*.v: the translation of the pinned /repo tree (must be run on the unchanged tree).
These files are only used when the translator refuses a restructured source (fw.PropBase.use_pinned_gen):
they then serve as a hand-held model that the correspondence check has to tie to the code."""
import importlib, os, sys, glob, shutil, subprocess
sys.path.insert(0, os.path.dirname(os.path.abspath(__file__)))
import fw
assert os.path.realpath(fw.REPO) == '/repo', 'pin only from /repo'
dirty = subprocess.run('git -C /repo status --porcelain --untracked-files=no -- singlecellmultiomics', shell=True,
                       capture_output=True, text=True).stdout.strip()
assert not dirty, 'refusing to pin from a modified tree:\n' + dirty
from claims import CLAIMS
pin = os.path.join(fw.COQ, 'Gen.pinned')
os.makedirs(pin, exist_ok=True)
for m in sorted(os.path.basename(p)[:-3] for p in glob.glob(os.path.join(fw.VERIF, 'tools', 'c[0-9][0-9].py'))):
    if m.upper() not in CLAIMS:
        continue
    p = importlib.import_module(m).Prop('quick', 0)
    p.regen()
    for f in p.gen_refs():
        shutil.copy(os.path.join(fw.COQ, f), os.path.join(pin, os.path.basename(f)))
        print(m, f)
head = subprocess.run('git -C /repo rev-parse HEAD', shell=True, capture_output=True, text=True).stdout.strip()
open(os.path.join(pin, 'PINNED_FROM'), 'w').write(head + '\n')
