"""py2coq: fail-closed translator from a tiny subset of Python (ast) to Gallina over Z.

Subset (anything else raises Untranslatable -> the tie is reported broken):
  * integer literals, names, + - *, unary -, comparisons (single or chained), and/or/not,
    conditional expressions, min/max/abs, tuples, calls to already translated functions,
  * division idioms:  a // b -> Z.div;  int(np.floor(a / b)) -> Z.div;
    int(np.ceil(a / b)) -> cdiv (= -((-a)/b));  int(a / b) -> Z.quot,
  * `x * 0.5` inside a comparison: both sides scaled by 2 (exact),
  * list comprehension  [e for i in range(a, b)]  -> map (fun i => e) (zrange a b),
  * function bodies made of: docstring, simple / tuple-unpacking assignments, one final return.
Every emitted definition carries source file, line span and sha256 of the translated segment.
"""
import ast, hashlib, os, re, textwrap

COQ_KEYWORDS = {'end', 'at', 'as', 'in', 'if', 'then', 'else', 'let', 'fun', 'match', 'with',
                'return', 'for', 'where', 'Type', 'Prop', 'Set', 'fix', 'cofix', 'forall',
                'exists', 'using', 'IF', 'mod'}


class Untranslatable(Exception):
    pass


def mangle(name):
    if name in COQ_KEYWORDS:
        return name + '_'
    return name


def find_function(tree, qualname):
    """qualname: 'f' or 'Class.f' or 'Class.f#2' (n-th definition with that name, 1-based)"""
    nth = 1
    if '#' in qualname:
        qualname, n = qualname.split('#')
        nth = int(n)
    parts = qualname.split('.')
    nodes = [tree]
    for i, p in enumerate(parts):
        nxt = []
        for n in nodes:
            for c in ast.iter_child_nodes(n):
                if isinstance(c, (ast.FunctionDef, ast.ClassDef)) and c.name == p:
                    nxt.append(c)
        nodes = nxt
    if len(nodes) < nth:
        raise Untranslatable('function %s not found' % qualname)
    return nodes[nth - 1]


class ExprTranslator:
    def __init__(self, known_funcs=(), bool_names=(), env=None):
        self.known = dict(known_funcs)  # python name -> coq name
        self.bool_names = set(bool_names)
        self.env = env or {}  # unparsed python expression -> coq expression (substitution)
        self.bool_env = set()

    def fail(self, node, why):
        raise Untranslatable('%s at line %s: %s' % (why, getattr(node, 'lineno', '?'),
                                                      ast.dump(node)[:200]))

    # --- helpers
    def is_np(self, f, name):
        return (isinstance(f, ast.Attribute) and f.attr == name and isinstance(f.value, ast.Name)
                and f.value.id in ('np', 'numpy', 'math'))

    def division(self, node):
        """node is BinOp Div -> (num, den) translated"""
        if isinstance(node, ast.BinOp) and isinstance(node.op, ast.Div):
            return self.z(node.left), self.z(node.right)
        return None

    # --- integer-valued expressions
    def z(self, n):
        u = ast.unparse(n)
        if u in self.env:
            return self.env[u]
        if isinstance(n, ast.Constant):
            if isinstance(n.value, bool) or not isinstance(n.value, int):
                self.fail(n, 'non-integer constant')
            return '(%d)' % n.value if n.value < 0 else '%d' % n.value
        if isinstance(n, ast.Name):
            if n.id in self.env:
                return self.env[n.id]
            return mangle(n.id)
        if isinstance(n, ast.UnaryOp) and isinstance(n.op, ast.USub):
            return '(- %s)' % self.z(n.operand)
        if isinstance(n, ast.BinOp):
            if isinstance(n.op, ast.Add):
                return '(%s + %s)' % (self.z(n.left), self.z(n.right))
            if isinstance(n.op, ast.Sub):
                return '(%s - %s)' % (self.z(n.left), self.z(n.right))
            if isinstance(n.op, ast.Mult):
                return '(%s * %s)' % (self.z(n.left), self.z(n.right))
            if isinstance(n.op, ast.FloorDiv):
                return '(%s / %s)' % (self.z(n.left), self.z(n.right))
            if isinstance(n.op, ast.Mod):
                return '(%s mod %s)' % (self.z(n.left), self.z(n.right))
            self.fail(n, 'operator outside subset')
        if isinstance(n, ast.IfExp):
            return '(if %s then %s else %s)' % (self.b(n.test), self.z(n.body), self.z(n.orelse))
        if isinstance(n, ast.Call):
            f = n.func
            if isinstance(f, ast.Name) and f.id == 'int' and len(n.args) == 1 and not n.keywords:
                a = n.args[0]
                if isinstance(a, ast.Call) and len(a.args) == 1:
                    inner = a.args[0]
                    # strip redundant parentheses (ast has none) ; expect Div
                    d = self.division(inner)
                    if d and self.is_np(a.func, 'ceil'):
                        return '(cdiv %s %s)' % d
                    if d and self.is_np(a.func, 'floor'):
                        return '(%s / %s)' % d
                d = self.division(a)
                if d:
                    return '(Z.quot %s %s)' % d
                # int(x) of an integer expression is the identity
                return self.z(a)
            if isinstance(f, ast.Name) and f.id in ('min', 'max') and len(n.args) == 2 and not n.keywords:
                return '(Z.%s %s %s)' % (f.id, self.z(n.args[0]), self.z(n.args[1]))
            if isinstance(f, ast.Name) and f.id == 'abs' and len(n.args) == 1:
                return '(Z.abs %s)' % self.z(n.args[0])
            if isinstance(f, ast.Name) and f.id in self.known and not n.keywords:
                return '(%s %s)' % (self.known[f.id], ' '.join(self.any(a) for a in n.args))
            self.fail(n, 'call outside subset')
        if isinstance(n, ast.Tuple):
            return '(%s)' % ', '.join(self.any(e) for e in n.elts)
        self.fail(n, 'expression outside subset')

    # --- boolean expressions
    def scaled_cmp(self, l, r):
        """handle  x <op> y * 0.5  by scaling: returns (l', r') or None"""
        def half(n):
            if isinstance(n, ast.BinOp) and isinstance(n.op, ast.Mult):
                for a, b2 in ((n.left, n.right), (n.right, n.left)):
                    if isinstance(b2, ast.Constant) and isinstance(b2.value, float) and b2.value == 0.5:
                        return a
            return None
        hl, hr = half(l), half(r)
        if hl is None and hr is None:
            return None
        L = self.z(hl) if hl is not None else '(2 * %s)' % self.z(l)
        R = self.z(hr) if hr is not None else '(2 * %s)' % self.z(r)
        return L, R

    def cmp1(self, op, l, r):
        sc = self.scaled_cmp(l, r)
        L, R = sc if sc else (self.z(l), self.z(r))
        table = {ast.Lt: '(%s <? %s)', ast.LtE: '(%s <=? %s)', ast.Gt: '(%s >? %s)',
                 ast.GtE: '(%s >=? %s)', ast.Eq: '(%s =? %s)', ast.NotEq: '(negb (%s =? %s))'}
        for k, fmt in table.items():
            if isinstance(op, k):
                return fmt % (L, R)
        raise Untranslatable('comparison operator outside subset: %s' % ast.dump(op))

    def b(self, n):
        u = ast.unparse(n)
        if u in self.env:
            return self.env[u]
        if isinstance(n, ast.Constant) and isinstance(n.value, bool):
            return 'true' if n.value else 'false'
        if isinstance(n, ast.Name) and (n.id in self.bool_names):
            return self.env.get(n.id, mangle(n.id))
        if isinstance(n, ast.Compare):
            parts = []
            left = n.left
            for op, right in zip(n.ops, n.comparators):
                parts.append(self.cmp1(op, left, right))
                left = right
            out = parts[0]
            for p in parts[1:]:
                out = '(%s && %s)' % (out, p)
            return out
        if isinstance(n, ast.BoolOp):
            j = ' && ' if isinstance(n.op, ast.And) else ' || '
            return '(' + j.join(self.b(v) for v in n.values) + ')'
        if isinstance(n, ast.UnaryOp) and isinstance(n.op, ast.Not):
            return '(negb %s)' % self.b(n.operand)
        if isinstance(n, ast.IfExp):
            return '(if %s then %s else %s)' % (self.b(n.test), self.b(n.body), self.b(n.orelse))
        self.fail(n, 'boolean expression outside subset')

    def any(self, n):
        if isinstance(n, (ast.Compare, ast.BoolOp)) or \
                (isinstance(n, ast.UnaryOp) and isinstance(n.op, ast.Not)) or \
                (isinstance(n, ast.Constant) and isinstance(n.value, bool)) or \
                (isinstance(n, ast.Name) and n.id in self.bool_names):
            return self.b(n)
        if isinstance(n, ast.ListComp):
            return self.listcomp(n)
        if ast.unparse(n) in self.bool_env:
            return self.b(n)
        return self.z(n)

    def listcomp(self, n):
        if len(n.generators) != 1:
            self.fail(n, 'nested comprehension')
        g = n.generators[0]
        if g.ifs or g.is_async or not isinstance(g.target, ast.Name):
            self.fail(n, 'comprehension form outside subset')
        it = g.iter
        if not (isinstance(it, ast.Call) and isinstance(it.func, ast.Name) and it.func.id == 'range'
                and len(it.args) in (1, 2) and not it.keywords):
            self.fail(n, 'comprehension not over range(a,b)')
        if len(it.args) == 1:
            lo, hi = '0', self.z(it.args[0])
        else:
            lo, hi = self.z(it.args[0]), self.z(it.args[1])
        return '(map (fun %s => %s) (zrange %s %s))' % (mangle(g.target.id), self.any(n.elt), lo, hi)


def segment(src_lines, node):
    return '\n'.join(src_lines[node.lineno - 1:node.end_lineno])


def translate_function(path, qualname, coqname=None, known_funcs=(), bool_args=(), repo_rel=None,
                       bool_names=()):
    """Translate a straight-line function (assignments + final return) to a Gallina Definition."""
    src = open(path).read()
    tree = ast.parse(src)
    fn = find_function(tree, qualname)
    if not isinstance(fn, ast.FunctionDef):
        raise Untranslatable('%s is not a function' % qualname)
    a = fn.args
    if a.vararg or a.kwarg or a.kwonlyargs or a.posonlyargs:
        raise Untranslatable('%s: argument form outside subset' % qualname)
    args = [x.arg for x in a.args if x.arg != 'self']
    tr = ExprTranslator(known_funcs=known_funcs, bool_names=set(bool_args) | set(bool_names))
    body = list(fn.body)
    if body and isinstance(body[0], ast.Expr) and isinstance(body[0].value, ast.Constant) \
            and isinstance(body[0].value.value, str):
        body = body[1:]
    if not body or not isinstance(body[-1], ast.Return) or body[-1].value is None:
        raise Untranslatable('%s: body must end in a return with a value' % qualname)
    lets = []
    for st in body[:-1]:
        if isinstance(st, ast.Assign) and len(st.targets) == 1:
            t = st.targets[0]
            if isinstance(t, ast.Name):
                lets.append("let %s := %s in" % (mangle(t.id), tr.any(st.value)))
                continue
            if isinstance(t, ast.Tuple) and all(isinstance(e, ast.Name) for e in t.elts):
                pat = ', '.join(mangle(e.id) for e in t.elts)
                lets.append("let '(%s) := %s in" % (pat, tr.any(st.value)))
                continue
        raise Untranslatable('%s: statement outside subset at line %d: %s'
                             % (qualname, st.lineno, ast.dump(st)[:160]))
    ret = tr.any(body[-1].value)
    seg = segment(src.splitlines(), fn)
    sha = hashlib.sha256(seg.encode()).hexdigest()
    coqname = coqname or fn.name
    argdecl = ' '.join('(%s : %s)' % (mangle(x), 'bool' if x in bool_args else 'Z') for x in args)
    rel = repo_rel or path
    out = ['(* source: %s lines %d-%d sha256 %s *)' % (rel, fn.lineno, fn.end_lineno, sha),
           'Definition %s %s :=' % (coqname, argdecl)]
    out += ['  ' + l for l in lets]
    out.append('  %s.' % ret)
    return '\n'.join(out), {'source': rel, 'lines': [fn.lineno, fn.end_lineno], 'sha256': sha,
                            'coq': coqname}


HEADER = '''(* GENERATED by tools/py2coq.py from /repo's working tree on every run. Do not edit. *)
From Coq Require Import ZArith List Bool.
Import ListNotations.
From SCMO Require Import Lib.PyInt.
Open Scope Z_scope.
'''


def write_gen(path, header_extra, chunks):
    text = HEADER + header_extra + '\n' + '\n\n'.join(chunks) + '\n'
    old = open(path).read() if os.path.exists(path) else None
    if old != text:
        with open(path, 'w') as f:
            f.write(text)
    return text


def find_nodes(fn, kind, contains):
    """all nodes of ast class `kind` inside fn whose unparsed *test/value* contains every given substring"""
    out = []
    for n in ast.walk(fn):
        if isinstance(n, kind):
            target = getattr(n, 'test', None) or getattr(n, 'value', None) or n
            u = ast.unparse(target)
            if all(c in u for c in contains):
                out.append(n)
    return out


def translate_inline_test(path, qualname, contains, env, coqname, params, bool_env=(), repo_rel=None,
                          which='test', must_use=(), body_is=None):
    """Translate the test of the unique `if` (or the value of the unique assignment / return) inside
    function `qualname` whose source contains all substrings in `contains`.  `env` maps unparsed python
    sub-expressions to Coq parameter names; `params` is the Coq binder string."""
    src = open(path).read()
    tree = ast.parse(src)
    fn = find_function(tree, qualname)
    kind = {'test': ast.If, 'assign': ast.Assign, 'return': ast.Return, 'ifexp': ast.IfExp}[which]
    nodes = find_nodes(fn, kind, contains)
    if len(nodes) != 1:
        raise Untranslatable('%s: expected exactly one %s containing %r, found %d'
                             % (qualname, which, contains, len(nodes)))
    n = nodes[0]
    tr = ExprTranslator(env=env)
    tr.bool_env = set(bool_env)
    expr = n.test if which in ('test', 'ifexp') else n.value
    body = tr.b(expr) if which in ('test', 'ifexp') else tr.any(expr)
    # the located node must play the role the model gives it: it has to mention every listed parameter, and (for an
    # `if`) its body has to be exactly the listed statement - otherwise a different `if` that happens to contain the
    # search strings would be translated into a definition that means something else
    for name in must_use:
        if not re.search(r'(?<![A-Za-z0-9_\'])%s(?![A-Za-z0-9_\'])' % re.escape(name), body):
            raise Untranslatable('%s: the %s containing %r does not use %s (not the shape the model expects)'
                                 % (qualname, which, contains, name))
    if body_is is not None and which == 'test':
        got = [ast.unparse(st) for st in n.body] + (['else:'] + [ast.unparse(st) for st in n.orelse] if n.orelse else [])
        if got != list(body_is):
            raise Untranslatable('%s: the body of the `if` containing %r is %r, expected %r'
                                 % (qualname, contains, got, list(body_is)))
    seg = ast.get_source_segment(src, expr)
    sha = hashlib.sha256(seg.encode()).hexdigest()
    rel = repo_rel or path
    text = '(* source: %s line %d-%d sha256 %s\n   %s *)\nDefinition %s %s :=\n  %s.' % (
        rel, expr.lineno, expr.end_lineno, sha, ' '.join(seg.split()).replace('*)', '* )'), coqname, params, body)
    return text, {'source': rel, 'lines': [expr.lineno, expr.end_lineno], 'sha256': sha, 'coq': coqname}
