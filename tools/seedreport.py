"""summarise /verif/seeded/*/confirm*.json into seeded/RESULTS.md"""
import json, os, glob, re
V = os.path.dirname(os.path.dirname(os.path.abspath(__file__)))
rows = []
for d in sorted(glob.glob(os.path.join(V, 'seeded', 'C*-*'))):
    name = os.path.basename(d)
    try:
        meta = json.load(open(os.path.join(d, 'meta.json')))
    except Exception:
        continue
    res = {}
    for f in sorted(glob.glob(os.path.join(d, 'confirm*.json'))):
        if 'initial' in os.path.basename(f):
            continue
        txt = open(f).read()
        try:
            j = json.loads(txt[txt.index('{'):])
        except Exception:
            continue
        by = re.sub(r'confirm_?|\.json', '', os.path.basename(f)) or meta['property']
        res[by] = j
    own = res.get(meta['property'], {})
    caught_by = [b for b, j in res.items() if j.get('caught')]
    with_input = [b for b, j in res.items() if j.get('with_failing_input')]
    rows.append((name, meta.get('summary', '')[:150].replace('|', '/').replace('\n', ' '),
                 meta.get('needs', '')[:170].replace('|', '/').replace('\n', ' '),
                 'yes' if own.get('tests_rc') == 0 else str(own.get('tests_rc')),
                 '%s/%s' % (own.get('demo_original_rc'), own.get('demo_mutated_rc')),
                 ', '.join(caught_by) or 'MISSED', ', '.join(with_input) or '-'))
out = ['# Seeded property-breaking changes and which check catches them', '',
       'Each row: an independent sub-agent (given only the property text and a scratch worktree) produced the change; '
       '`tools/seedtest.py` confirmed that the 81 tests still pass with it, that its demo passes on /repo HEAD and fails on the changed tree, '
       'and ran `SCMO_REPO=<changed tree> ./check <property>`. "caught by" = checks that exit 1 with a VIOLATION line; '
       '"with input" = checks whose VIOLATION carries a concrete failing input (otherwise `no-failing-input-found`).', '',
       '| id | change | needs | tests pass | demo orig/mut rc | caught by | with input |', '|---|---|---|---|---|---|---|']
for r in rows:
    out.append('| ' + ' | '.join(r) + ' |')
n = len(rows); c = sum(1 for r in rows if r[5] != 'MISSED'); w = sum(1 for r in rows if r[6] != '-')
out += ['', '%d seeded changes; %d caught by at least one check; %d with a concrete failing input.' % (n, c, w)]
open(os.path.join(V, 'seeded', 'RESULTS.md'), 'w').write('\n'.join(out) + '\n')
print(out[-1])
