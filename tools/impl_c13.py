"""runs the REAL Molecule.get_consensus / Fragment.get_consensus / pick_best_base_call for C13 on molecules
built from in-memory pysam reads; also derives (via pysam, trusted) the per-read model input."""
import os, sys
import fw

CONTIGS = ['chr1', 'chr2']


def make_md(seq, cigar, ref, start):
    """MD tag of an alignment against the reference string"""
    out, run, q, r = [], 0, 0, start
    for op, n in cigar:
        if op in (0, 7, 8):
            for _ in range(n):
                if seq[q] == ref[r]:
                    run += 1
                else:
                    out.append(str(run)); out.append(ref[r]); run = 0
                q += 1; r += 1
        elif op == 2:
            out.append(str(run)); out.append('^' + ref[r:r + n]); run = 0
            r += n
        elif op == 3:
            r += n
        elif op in (1, 4):
            q += n
    out.append(str(run))
    return ''.join(out)


def make_read(hdr, name, slot, idx, refs):
    import pysam
    a = pysam.AlignedSegment(hdr)
    a.query_name = name
    a.query_sequence = slot['seq']
    a.flag = 1 | (16 if slot['rev'] else 0) | (64 if idx == 0 else 128)
    a.reference_id = slot['contig']
    a.reference_start = slot['start']
    a.mapping_quality = 60
    a.cigartuples = [tuple(c) for c in slot['cigar']]
    a.query_qualities = pysam.qualitystring_to_array(''.join(chr(q + 33) for q in slot['quals']))
    a.set_tag('SM', 'cell1'); a.set_tag('RX', 'ACG'); a.set_tag('MX', 'verif')
    if slot['md']:
        a.set_tag('MD', make_md(slot['seq'], slot['cigar'], refs[slot['contig']], slot['start']))
    return a


def read_model_input(a):
    """what the model is told about a read: everything through pysam accessors (trusted)"""
    if a is None:
        return []
    seq, quals = a.query_sequence, a.query_qualities
    if a.has_tag('MD'):
        calls = [[rp, ord(seq[qp]), int(quals[qp]), qp, ord(rb)]
                 for qp, rp, rb in a.get_aligned_pairs(matches_only=True, with_seq=True)]
    else:
        calls = [[rp, ord(seq[qp]), int(quals[qp]), qp, 0] for qp, rp in a.get_aligned_pairs(matches_only=True)]
    return [CONTIGS.index(a.reference_name), a.reference_start, a.reference_end, 1 if a.is_reverse else 0,
            1 if a.has_tag('MD') else 0, calls, a.infer_query_length()]


def canon_dict(d):
    return sorted([CONTIGS.index(k[0]), int(k[1]), ord(v)] for k, v in d.items())


def err(e):
    return {'error': '%s: %s' % (type(e).__name__, e)}


def run_case(case, refs, hdr):
    from singlecellmultiomics.molecule import Molecule
    from singlecellmultiomics.fragment import Fragment
    frags, minputs, fragcons = [], [], []
    for n, slots in enumerate(case['frags']):
        reads = [None if s is None else make_read(hdr, 'q%d' % n, s, i, refs) for i, s in enumerate(slots)]
        f = Fragment(reads)
        frags.append(f)
        minputs.append([read_model_input(r) for r in reads])
    ds = bool(case['ds'])
    kw = case.get('kw') or {}
    for f in frags:
        try:
            fc = f.get_consensus(dove_safe=ds, **kw)
            fragcons.append(sorted([CONTIGS.index(k[0]), int(k[1]), ord(v[0]), int(v[1])] for k, v in fc.items()))
        except BaseException as e:
            fragcons.append(err(e))
    outs = []
    for order in case['orders']:
        try:
            m = Molecule()
            for i in order:
                m._add_fragment(frags[i])
            outs.append(canon_dict(m.get_consensus(dove_safe=ds, **kw)))
        except BaseException as e:
            outs.append(err(e))
    table = probs_cons = None
    try:
        m = Molecule()
        for i in case['orders'][0]:
            m._add_fragment(frags[i])
        d, ph, cons = m.get_consensus(dove_safe=ds, with_probs_and_obs=True, **kw)
        probs_cons = canon_dict(d)
        if cons is None:
            table = []
        else:
            table = sorted([CONTIGS.index(k[0]), int(k[1])] + [int(x) for x in v] for k, v in cons.items())
            assert all(float(int(x)) == float(x) for v in cons.values() for x in v)
    except BaseException as e:
        table = err(e)
    try:
        m = Molecule()
        for i in case['orders'][0]:
            m._add_fragment(frags[i])
        allow_n = canon_dict(m.get_consensus(dove_safe=ds, allow_N=True, **kw))
    except BaseException as e:
        allow_n = err(e)
    return {'minput': minputs, 'outs': outs, 'table': table, 'fragcons': fragcons, 'probs_cons': probs_cons, 'allow_n': allow_n}


def run_history(h, refs, hdr):
    """a history of operations on ONE real Molecule object: add_fragment / _add_fragment / add_molecule / get_consensus"""
    from singlecellmultiomics.molecule import Molecule
    from singlecellmultiomics.fragment import Fragment
    frags, minputs = [], []
    for n, slots in enumerate(h['frags']):
        reads = [None if s is None else make_read(hdr, 'q%d' % n, s, i, refs) for i, s in enumerate(slots)]
        frags.append(Fragment(reads, assignment_radius=100000, umi_hamming_distance=1))
        minputs.append([read_model_input(r) for r in reads])
    m = Molecule()
    out = []
    for op in h['ops']:
        try:
            if op[0] == 'add':
                out.append(bool(m.add_fragment(frags[op[1]])))
            elif op[0] == 'raw':
                m._add_fragment(frags[op[1]])
                out.append(None)
            elif op[0] == 'mol':
                other = Molecule()
                acc = [i for i in op[1] if other.add_fragment(frags[i])]
                m.add_molecule(other)
                out.append(acc)
            elif op[0] == 'get':
                ds, probs = bool(op[1]), bool(op[2])
                kw = (op[3] if len(op) > 3 else None) or {}
                if probs:
                    d, ph, cons = m.get_consensus(dove_safe=ds, with_probs_and_obs=True, **kw)
                    table = [] if cons is None else sorted([CONTIGS.index(k[0]), int(k[1])] + [int(x) for x in v]
                                                           for k, v in cons.items())
                    out.append({'cons': canon_dict(d), 'table': table})
                else:
                    out.append({'cons': canon_dict(m.get_consensus(dove_safe=ds, **kw))})
        except BaseException as e:
            out.append(err(e))
    return {'minput': minputs, 'ops': out, 'n_held': len(m.fragments)}


def handler(p):
    import pysam
    from singlecellmultiomics.utils.sequtils import pick_best_base_call
    hdr = pysam.AlignmentHeader.from_dict({'HD': {'VN': '1.6'},
                                           'SQ': [{'SN': n, 'LN': len(p['refs'][i])} for i, n in enumerate(CONTIGS)]})
    old = sys.stdout
    sys.stdout = open(os.devnull, 'w')
    res = []
    try:
        for case in p['cases']:
            try:
                res.append(run_case(case, p['refs'], hdr))
            except BaseException as e:
                res.append(err(e))
        hist = []
        for h in p.get('histories', []):
            try:
                hist.append(run_history(h, p['refs'], hdr))
            except BaseException as e:
                hist.append(err(e))
        picks = []
        for calls in p.get('picks', []):
            try:
                r = pick_best_base_call(*[None if c is None else (chr(c[0]), c[1]) for c in calls])
                picks.append([ord(r[0]), int(r[1])])
            except BaseException as e:
                picks.append(err(e))
    finally:
        sys.stdout = old
    return {'cases': res, 'picks': picks, 'histories': hist}


fw.impl_main(handler)
