"""C11 - count tables count exactly the reads passing the filters, at documented weights.

K: synthetic tagged BAMs x option sets through create_count_table(args, return_df=True) (non-binned branches:
joined / single feature tags, byValue, splitFeatures, -contig, -blacklist, -bedfile), compared with the extracted
Coq model (Model/C11.v, count_table) as exact Fractions; the per-read filter decision is additionally compared
with read_should_be_counted called directly.  search(): the declarative specification (a direct Python
transcription of Proofs/C11.v spec_cell / passes, `Oracle` below; and mode 2 specb of the model when it builds)
is evaluated on the implementation's own output, the failing case is shrunk to one read / one pair.

Extension (Model/C11x.v, kind 'x'): several BAM files, -head, --showtags / neither -o nor return_df, file output
(pickle, pickle.gz, csv) with and without --bulk, by-value counting on float typed (f, d) tags.  The outcome of
create_count_table (a table, an exception, or "ended without a table") is compared with xrun (mode 5), the proved
specification xspecb (mode 7) and its Python transcription `XOracle` are evaluated on the implementation's outcome.
"""
import itertools, json, os
from fractions import Fraction
import fw

ERR = {'TypeError': 1, 'ValueError': 2, 'AttributeError': 3, 'NotImplementedError': 4, 'ZeroDivisionError': 5}
ERRNAME = {v: k for k, v in ERR.items()}
BOOL_OPTS = ['r1only', 'r2only', 'filterMP', 'proper_pairs_only', 'no_indels', 'no_softclips', 'filterXA', 'dedup',
             'doNotDivideFragments', 'divideMultimapping']
CONTIGS = [['chr1', 1000], ['chr2', 800], ['chrUn_alt', 500]]
CIGARS = ['20M', '20M', '20M', '5S15M', '10M2I8M', '10M3D10M', '3S7M1I5M2D4M', '20M5S', '10M100N10M', '4H16M', '1M']


# ----------------------------------------------------------------------------- T (source translator)
import ast, hashlib
import py2coq
from py2coq import Untranslatable

SRC = 'singlecellmultiomics/bamProcessing/bamToCountTable.py'
ARG_BOOL = {'r1only': 'o_r1only', 'r2only': 'o_r2only', 'filterMP': 'o_filterMP', 'proper_pairs_only': 'o_proper',
            'no_indels': 'o_no_indels', 'no_softclips': 'o_no_softclips', 'filterXA': 'o_filterXA', 'dedup': 'o_dedup',
            'doNotDivideFragments': 'o_no_divide', 'divideMultimapping': 'o_div_multi'}
READ_BOOL = {'is_read1': 'read1', 'is_read2': 'read2', 'is_paired': 'paired', 'is_unmapped': 'unmapped',
             'mate_is_unmapped': 'mate_unmapped', 'is_qcfail': 'qcfail', 'is_duplicate': 'dup', 'is_proper_pair': 'proper'}
CIGOP = {c: i for i, c in enumerate('MIDNSHP=X')}
# option attributes the model's [opts] record represents (an assignment to one of them inside the package is state
# carried from one call to the next)
MODELLED_ARGS = ['r1only', 'r2only', 'filterMP', 'minMQ', 'proper_pairs_only', 'no_indels', 'max_base_edits', 'no_softclips',
                 'filterXA', 'dedup', 'blacklist', 'doNotDivideFragments', 'divideMultimapping', 'featureTags',
                 'joinedFeatureTags', 'byValue', 'splitFeatures', 'featureDelimiter', 'sampleTags', 'contig', 'bedfile',
                 'alignmentfiles', 'bin', 'binTag', 'head', 'bulk', 'noNames', 'o']


def codes(s):
    return '[' + '; '.join(str(ord(c)) for c in s) + ']'


class FilterTr:
    """expressions of read_should_be_counted / assignReads -> Gallina over the model's read / opts records.
    kinds: 'b' bool, 'rb' res bool, 'z' Z, 'rz' res Z.  Anything unrecognised raises Untranslatable."""

    def fail(self, n, why):
        raise Untranslatable('%s at line %s: %s' % (why, getattr(n, 'lineno', '?'), ast.unparse(n)[:120]))

    @staticmethod
    def is_attr(n, base, attr=None):
        return (isinstance(n, ast.Attribute) and isinstance(n.value, ast.Name) and n.value.id == base
                and (attr is None or n.attr == attr))

    def strlit(self, n):
        if isinstance(n, ast.Constant) and isinstance(n.value, str):
            return n.value
        self.fail(n, 'string literal expected')

    def get_tag_arg(self, n):
        """read.get_tag('XX') -> 'XX'"""
        if (isinstance(n, ast.Call) and self.is_attr(n.func, 'read', 'get_tag') and len(n.args) == 1 and not n.keywords):
            return self.strlit(n.args[0])
        return None

    def lift_b(self, kt):
        k, t = kt
        return t if k == 'rb' else '(Ok %s)' % t

    def lift_z(self, kt):
        k, t = kt
        return t if k == 'rz' else '(Ok %s)' % t

    def e(self, n):
        if isinstance(n, ast.BoolOp):
            parts = [self.e(v) for v in n.values]
            if any(k not in ('b', 'rb') for k, _ in parts):
                self.fail(n, 'non-boolean operand')
            if all(k == 'b' for k, _ in parts):
                return 'b', '(' + (' && ' if isinstance(n.op, ast.And) else ' || ').join(t for _, t in parts) + ')'
            f = 'rand' if isinstance(n.op, ast.And) else 'ror'
            out = self.lift_b(parts[-1])
            for p in reversed(parts[:-1]):
                out = '(%s %s %s)' % (f, self.lift_b(p), out)
            return 'rb', out
        if isinstance(n, ast.UnaryOp) and isinstance(n.op, ast.Not):
            k, t = self.e(n.operand)
            if k == 'b':
                return 'b', '(negb %s)' % t
            if k == 'rb':
                return 'rb', '(rnot %s)' % t
            self.fail(n, 'not of a non-boolean')
        if isinstance(n, ast.Attribute):
            if self.is_attr(n, 'args') and n.attr in ARG_BOOL:
                return 'b', '(%s o)' % ARG_BOOL[n.attr]
            if self.is_attr(n, 'read') and n.attr in READ_BOOL:
                return 'b', '(%s r)' % READ_BOOL[n.attr]
            if self.is_attr(n, 'read', 'mapping_quality'):
                return 'z', '(mapq r)'
            if self.is_attr(n, 'args', 'minMQ'):
                return 'z', '(o_minMQ o)'
            if self.is_attr(n, 'args', 'max_base_edits'):
                return 'rz', '(oz (o_max_edits o))'
            self.fail(n, 'attribute outside the vocabulary')
        if isinstance(n, ast.Constant) and isinstance(n.value, bool):
            return 'b', 'true' if n.value else 'false'
        if isinstance(n, ast.Constant) and isinstance(n.value, int):
            return 'z', '(%d)' % n.value
        if isinstance(n, ast.Call):
            if self.is_attr(n.func, 'read', 'has_tag') and len(n.args) == 1 and not n.keywords:
                return 'b', '(has_tag r %s)' % codes(self.strlit(n.args[0]))
            if isinstance(n.func, ast.Name) and n.func.id == 'read_has_alternative_hits_to_non_alts' \
                    and len(n.args) == 1 and ast.unparse(n.args[0]) == 'read' and not n.keywords:
                return 'rb', '(xa_hit r)'
            if isinstance(n.func, ast.Name) and n.func.id == 'int' and len(n.args) == 1 and not n.keywords:
                t = self.get_tag_arg(n.args[0])
                if t is not None:
                    return 'rz', '(tag_int r %s)' % codes(t)
            if isinstance(n.func, ast.Name) and n.func.id == 'len' and len(n.args) == 1 and not n.keywords:
                a = n.args[0]
                if (isinstance(a, ast.Call) and isinstance(a.func, ast.Attribute) and a.func.attr == 'split'
                        and len(a.args) == 1 and not a.keywords):
                    t = self.get_tag_arg(a.func.value)
                    if t is not None:
                        return 'rz', '(tag_split_len r %s %s)' % (codes(t), codes(self.strlit(a.args[0])))
            self.fail(n, 'call outside the vocabulary')
        if isinstance(n, ast.Compare) and len(n.ops) == 1:
            op, l, r = n.ops[0], n.left, n.comparators[0]
            if isinstance(op, (ast.Is, ast.IsNot)) and isinstance(r, ast.Constant) and r.value is None:
                if ast.unparse(l) == 'read':
                    t = 'false'             # a record handed over by pysam is never None
                elif self.is_attr(l, 'args', 'max_base_edits'):
                    t = '(negb (opt_is_some (o_max_edits o)))'
                else:
                    self.fail(n, 'is None test outside the vocabulary')
                return 'b', t if isinstance(op, ast.Is) else '(negb %s)' % t
            if isinstance(op, (ast.In, ast.NotIn)):
                if self.is_attr(r, 'read', 'cigarstring'):
                    c = self.strlit(l)
                    if c not in CIGOP:
                        self.fail(n, 'not a CIGAR operation letter')
                    t = '(cig_in r %d)' % CIGOP[c]
                    return 'rb', t if isinstance(op, ast.In) else '(rnot %s)' % t
                self.fail(n, 'membership test outside the vocabulary')
            if isinstance(op, (ast.Eq, ast.NotEq)):
                t = self.get_tag_arg(l)
                if t is not None and isinstance(r, ast.Constant) and isinstance(r.value, str):
                    x = '(tag_eq_str r %s %s)' % (codes(t), codes(r.value))
                    return 'b', x if isinstance(op, ast.Eq) else '(negb %s)' % x
            tab = {ast.Lt: ('<?', 'rltb'), ast.LtE: ('<=?', 'rleb'), ast.Gt: ('>?', 'rgtb'), ast.GtE: ('>=?', 'rgeb'),
                   ast.Eq: ('=?', 'reqb')}
            for k, (sym, fn) in tab.items():
                if isinstance(op, k):
                    a, b = self.e(l), self.e(r)
                    if a[0] == 'z' and b[0] == 'z':
                        return 'b', '(%s %s %s)' % (a[1], sym, b[1])
                    if a[0] in ('z', 'rz') and b[0] in ('z', 'rz'):
                        return 'rb', '(%s %s %s)' % (fn, self.lift_z(a), self.lift_z(b))
            self.fail(n, 'comparison outside the vocabulary')
        self.fail(n, 'expression outside the vocabulary')


def _strip_doc(body):
    if body and isinstance(body[0], ast.Expr) and isinstance(body[0].value, ast.Constant) and isinstance(body[0].value.value, str):
        return body[1:]
    return body


def translate_guards(path):
    """read_should_be_counted: a sequence of (possibly nested) `if c: return False`, the blacklist loop, `return True`."""
    src = open(path).read()
    fn = py2coq.find_function(ast.parse(src), 'read_should_be_counted')
    if [a.arg for a in fn.args.args] != ['read', 'args', 'blacklist_dic']:
        raise Untranslatable('read_should_be_counted: signature changed')
    tr = FilterTr()
    guards, ivtest = [], None

    def conj(path_conds, c):
        allc = path_conds + [c]
        if all(k == 'b' for k, _ in allc):
            return '(Ok (' + ' && '.join(t for _, t in allc) + '))' if len(allc) > 1 else '(Ok %s)' % allc[0][1]
        out = tr.lift_b(allc[-1])
        for p in reversed(allc[:-1]):
            out = '(rand %s %s)' % (tr.lift_b(p), out)
        return out

    def blacklist(st, path_conds):
        nonlocal ivtest
        if path_conds or ast.unparse(st.test) != 'blacklist_dic is not None' or st.orelse or len(st.body) != 1:
            raise Untranslatable('blacklist block: outer test changed')
        inner = st.body[0]
        if not (isinstance(inner, ast.If) and ast.unparse(inner.test) == 'read.reference_name in blacklist_dic'
                and not inner.orelse and len(inner.body) == 1 and isinstance(inner.body[0], ast.For)):
            raise Untranslatable('blacklist block: contig lookup changed')
        loop = inner.body[0]
        if not (ast.unparse(loop.target) == 'startend' and ast.unparse(loop.iter) == 'blacklist_dic[read.reference_name]'
                and not loop.orelse):
            raise Untranslatable('blacklist block: loop header changed')
        env = {'read.reference_start': 'xs', 'read.reference_end': 'xe', 'startend[0]': 's', 'startend[1]': 'e'}
        et = py2coq.ExprTranslator(env=env)
        for b in loop.body[:-1]:
            if not (isinstance(b, ast.Assign) and len(b.targets) == 1 and isinstance(b.targets[0], ast.Name)):
                raise Untranslatable('blacklist loop: statement outside subset: %s' % ast.unparse(b)[:80])
            et.env[b.targets[0].id] = et.b(b.value)
            et.bool_names.add(b.targets[0].id)
        last = loop.body[-1]
        if not (isinstance(last, ast.If) and not last.orelse and len(last.body) == 1 and isinstance(last.body[0], ast.Return)
                and ast.unparse(last.body[0]) == 'return False'):
            raise Untranslatable('blacklist loop: final test changed')
        ivtest = et.b(last.test)
        guards.append(('(bl_hit_with gen_iv_test o r)', st))

    def walk(stmts, path_conds):
        for st in stmts:
            if isinstance(st, ast.Expr) and isinstance(st.value, ast.Constant):
                continue
            if not isinstance(st, ast.If) or st.orelse:
                raise Untranslatable('read_should_be_counted: statement outside subset at line %d: %s'
                                     % (st.lineno, ast.unparse(st)[:80]))
            if 'blacklist_dic' in ast.unparse(st.test):
                blacklist(st, path_conds)
                continue
            c = tr.e(st.test)
            if c[0] not in ('b', 'rb'):
                raise Untranslatable('non-boolean test at line %d' % st.lineno)
            if len(st.body) == 1 and isinstance(st.body[0], ast.Return):
                if ast.unparse(st.body[0]) != 'return False':
                    raise Untranslatable('guard returns something else than False at line %d' % st.lineno)
                guards.append((conj(path_conds, c), st))
            else:
                walk(st.body, path_conds + [c])

    body = _strip_doc(list(fn.body))
    if not body or ast.unparse(body[-1]) != 'return True':
        raise Untranslatable('read_should_be_counted does not end in `return True`')
    walk(body[:-1], [])
    if ivtest is None:
        raise Untranslatable('blacklist block not found')
    seg = ast.get_source_segment(src, fn)
    sha = hashlib.sha256(seg.encode()).hexdigest()
    lines = ['(* source: %s lines %d-%d sha256 %s : read_should_be_counted, guards in source order *)'
             % (SRC, fn.lineno, fn.end_lineno, sha),
             'Definition gen_iv_test (xs xe s e : Z) : bool :=\n  %s.' % ivtest,
             'Definition gen_guards (o : opts) (r : read) : list (res bool) :=\n  [ '
             + ';\n    '.join('%s  (* line %d *)' % (g, st.lineno) for g, st in guards) + ' ].',
             'Definition gen_should_count (o : opts) (r : read) : res bool := fold_right guard (Ok true) (gen_guards o r).']
    return '\n'.join(lines), {'source': SRC, 'lines': [fn.lineno, fn.end_lineno], 'sha256': sha, 'coq': 'gen_should_count',
                               'guards': len(guards)}


def translate_weight(path):
    """assignReads: the statements that assign countToAdd before the key construction."""
    src = open(path).read()
    fn = py2coq.find_function(ast.parse(src), 'assignReads')
    tr = FilterTr()
    body = list(fn.body)
    idx = [i for i, st in enumerate(body) if isinstance(st, ast.Assign) and ast.unparse(st.targets[0]) == 'countToAdd']
    stop = [i for i, st in enumerate(body) if isinstance(st, ast.Assign) and ast.unparse(st.targets[0]) == 'count_increment']
    if len(idx) != 1 or len(stop) != 1 or not idx[0] < stop[0]:
        raise Untranslatable('assignReads: weight section not found')
    section = body[idx[0]:stop[0]]

    def value(n, cur):
        if isinstance(n, ast.Name) and n.id == 'countToAdd':
            return cur
        if isinstance(n, ast.Constant) and n.value in (1, 0.5) and not isinstance(n.value, bool):
            return '(Ok 1%Q)' if n.value == 1 else '(Ok (1 # 2)%Q)'
        if isinstance(n, ast.IfExp):
            c = tr.e(n.test)
            if c[0] != 'b':
                raise Untranslatable('weight: test may raise: %s' % ast.unparse(n.test))
            return '(if %s then %s else %s)' % (c[1], value(n.body, cur), value(n.orelse, cur))
        if isinstance(n, ast.BinOp) and isinstance(n.op, ast.Div):
            d = tr.e(n.right)
            if d[0] not in ('z', 'rz'):
                raise Untranslatable('weight: divisor outside subset: %s' % ast.unparse(n.right))
            return '(rdivq %s %s)' % (value(n.left, cur), tr.lift_z(d))
        raise Untranslatable('weight: value outside subset: %s' % ast.unparse(n)[:80])

    def run(stmts, cur):
        for st in stmts:
            if isinstance(st, ast.Assign) and len(st.targets) == 1 and ast.unparse(st.targets[0]) == 'countToAdd':
                cur = value(st.value, cur)
            elif isinstance(st, ast.AugAssign) and ast.unparse(st.target) == 'assigned':
                continue
            elif isinstance(st, ast.If):
                c = tr.e(st.test)
                if c[0] != 'b':
                    raise Untranslatable('weight: test may raise: %s' % ast.unparse(st.test))
                cur = '(if %s then %s else %s)' % (c[1], run(st.body, cur), run(st.orelse, cur))
            elif isinstance(st, ast.Expr) and isinstance(st.value, ast.Constant):
                continue
            else:
                raise Untranslatable('weight: statement outside subset at line %d: %s' % (st.lineno, ast.unparse(st)[:80]))
        return cur

    expr = run(section, '(Raise 9)')
    seg = '\n'.join(src.splitlines()[section[0].lineno - 1:section[-1].end_lineno])
    sha = hashlib.sha256(seg.encode()).hexdigest()
    text = ('(* source: %s lines %d-%d sha256 %s : assignReads, countToAdd *)\n'
            'Definition gen_weight (o : opts) (r : read) : res Q :=\n  %s.'
            % (SRC, section[0].lineno, section[-1].end_lineno, sha, expr))
    return text, {'source': SRC, 'lines': [section[0].lineno, section[-1].end_lineno], 'sha256': sha, 'coq': 'gen_weight'}


def translate_prep(path):
    """create_count_table: the test that auto-appends the -byValue tag to the joined feature tags, and every
    assignment to an attribute of args anywhere in the module (state that survives the call)."""
    src = open(path).read()
    tree = ast.parse(src)
    fn = py2coq.find_function(tree, 'create_count_table')
    hits = [n for n in ast.walk(fn) if isinstance(n, ast.If) and len(n.body) == 1
            and ast.unparse(n.body[0]) == 'featureTags.append(args.byValue)']
    if len(hits) != 1 or hits[0].orelse:
        raise Untranslatable('create_count_table: auto-append of args.byValue not found')
    test = hits[0].test

    def t(n):
        u = ast.unparse(n)
        if isinstance(n, ast.BoolOp) and isinstance(n.op, ast.And):
            return '(' + ' && '.join(t(v) for v in n.values) + ')'
        if u == 'args.byValue is not None':
            return '(opt_is_some (o_byvalue o))'
        if u in ('len(featureTags) > 0', 'len(featureTags) >= 1'):
            return '(negb (is_nil ft))'
        if u == 'args.byValue not in featureTags':
            return '(negb (opt_mem (o_byvalue o) ft))'
        raise Untranslatable('create_count_table: auto-append test outside subset: %s' % u)
    expr = t(test)
    seg = ast.get_source_segment(src, test)
    sha = hashlib.sha256(seg.encode()).hexdigest()
    written = []
    for n in ast.walk(tree):
        targets = []
        if isinstance(n, ast.Assign):
            targets = n.targets
        elif isinstance(n, (ast.AugAssign, ast.AnnAssign)):
            targets = [n.target]
        elif isinstance(n, ast.Call) and isinstance(n.func, ast.Name) and n.func.id in ('setattr', 'delattr') and n.args \
                and ast.unparse(n.args[0]) == 'args':
            raise Untranslatable('setattr/delattr on args at line %d' % n.lineno)
        for tg in targets:
            for x in ast.walk(tg):
                if isinstance(x, ast.Attribute) and isinstance(x.value, ast.Name) and x.value.id == 'args' \
                        and isinstance(x.ctx, ast.Store) and x.attr not in written:
                    written.append(x.attr)
    # statements executed only under `if __name__ == '__main__'` build the namespace; they are not inside a function
    text = ('(* source: %s line %d sha256 %s\n   %s *)\n'
            'Definition gen_autoappend (o : opts) (ft : list str) : bool :=\n  %s.\n\n'
            '(* attributes of args assigned anywhere in the module, and the option attributes the model represents *)\n'
            'Definition gen_args_written : list str :=\n  [%s].\n'
            'Definition gen_args_modelled : list str :=\n  [%s].'
            % (SRC, test.lineno, sha, ' '.join(seg.split()), expr,
               ';\n   '.join('%s (* %s *)' % (codes(w), w) for w in written),
               ';\n   '.join('%s (* %s *)' % (codes(w), w) for w in MODELLED_ARGS)))
    return text, {'source': SRC, 'lines': [test.lineno, test.end_lineno], 'sha256': sha, 'coq': 'gen_autoappend',
                  'args_written': written}


def translate_head(path):
    """create_count_table: the two `for i, read in enumerate(...)` loops that call assignReads (plain / -contig: over
    pysam_iterator; BED: over f.fetch(chromo, start, end)).  Translated: the break test on args.head and whether it
    stands before or after the assignReads call.  Everything else in the loop bodies must be free of control flow."""
    src = open(path).read()
    fn = py2coq.find_function(ast.parse(src), 'create_count_table')
    loops = {}
    for n in ast.walk(fn):
        if not isinstance(n, ast.For):
            continue
        if not any(isinstance(c, ast.Call) and isinstance(c.func, ast.Name) and c.func.id == 'assignReads' for c in ast.walk(n)):
            continue
        if any(isinstance(c, ast.For) and c is not n and
               any(isinstance(d, ast.Call) and isinstance(d.func, ast.Name) and d.func.id == 'assignReads' for d in ast.walk(c))
               for c in ast.walk(n)):
            continue                                    # an outer loop (files, BED rows) around the record loop
        it = n.iter
        if not (isinstance(it, ast.Call) and isinstance(it.func, ast.Name) and it.func.id == 'enumerate'
                and len(it.args) == 1 and not it.keywords and ast.unparse(n.target) == '(i, read)' and not n.orelse):
            raise Untranslatable('create_count_table: record loop is not `for i, read in enumerate(<iterator>)` at line %d'
                                 % n.lineno)
        arg = ast.unparse(it.args[0])
        kind = 'plain' if arg == 'pysam_iterator' else ('bed' if arg == 'f.fetch(chromo, start, end)' else None)
        if kind is None or kind in loops:
            raise Untranslatable('create_count_table: unexpected record iterator %s at line %d' % (arg, n.lineno))
        loops[kind] = n
    if sorted(loops) != ['bed', 'plain']:
        raise Untranslatable('create_count_table: the plain and the BED record loop were not both found')

    def test_expr(t):
        if not (isinstance(t, ast.BoolOp) and isinstance(t.op, ast.And) and len(t.values) == 2
                and ast.unparse(t.values[0]) == 'args.head is not None'):
            raise Untranslatable('-head test outside subset: %s' % ast.unparse(t))
        c = t.values[1]
        if not (isinstance(c, ast.Compare) and len(c.ops) == 1):
            raise Untranslatable('-head test outside subset: %s' % ast.unparse(t))
        l, r, op = ast.unparse(c.left), ast.unparse(c.comparators[0]), c.ops[0]
        tab = {ast.Gt: '>?', ast.GtE: '>=?', ast.Lt: '<?', ast.LtE: '<=?', ast.Eq: '=?'}
        if type(op) not in tab:
            raise Untranslatable('-head test outside subset: %s' % ast.unparse(t))
        if (l, r) == ('i', 'args.head'):
            return '(i %s n)' % tab[type(op)]
        if (l, r) == ('args.head', 'i'):
            return '(n %s i)' % tab[type(op)]
        raise Untranslatable('-head test outside subset: %s' % ast.unparse(t))

    lines, meta_lines, shas = [], {}, []
    for kind in ('plain', 'bed'):
        n = loops[kind]
        call = test = None
        for k, st in enumerate(n.body):
            has_call = any(isinstance(c, ast.Call) and isinstance(c.func, ast.Name) and c.func.id == 'assignReads'
                           for c in ast.walk(st))
            mentions_head = 'args.head' in ast.unparse(st)
            if has_call:
                if call is not None or mentions_head or not isinstance(st, (ast.AugAssign, ast.Assign, ast.Expr)):
                    raise Untranslatable('%s loop: assignReads call outside subset at line %d' % (kind, st.lineno))
                call = k
            elif mentions_head:
                if test is not None or not (isinstance(st, ast.If) and not st.orelse and len(st.body) == 1
                                            and isinstance(st.body[0], ast.Break)):
                    raise Untranslatable('%s loop: -head statement outside subset at line %d' % (kind, st.lineno))
                test = k
            else:
                for c in ast.walk(st):
                    if isinstance(c, (ast.Break, ast.Continue, ast.Return, ast.Raise, ast.Try, ast.For, ast.While)) or \
                            (isinstance(c, ast.Name) and isinstance(c.ctx, ast.Store) and c.id in ('i', 'read', 'args')):
                        raise Untranslatable('%s loop: control flow outside subset at line %d' % (kind, st.lineno))
        if call is None or test is None:
            raise Untranslatable('%s loop: assignReads call / -head test not found' % kind)
        seg = ast.get_source_segment(src, n)
        sha = hashlib.sha256(seg.encode()).hexdigest()
        shas.append(sha)
        lines.append('(* source: %s lines %d-%d sha256 %s : %s record loop of create_count_table;\n   %s   [%s the assignReads call] *)\n'
                     'Definition gen_head_stop_%s (h : option Z) (i : Z) : bool :=\n  match h with Some n => %s | None => false end.\n'
                     'Definition gen_head_test_first_%s : bool := %s.'
                     % (SRC, n.lineno, n.end_lineno, sha, kind, ' '.join(ast.unparse(n.body[test].test).split()),
                        'before' if test < call else 'after', kind, test_expr(n.body[test].test), kind,
                        'true' if test < call else 'false'))
        meta_lines[kind] = [n.lineno, n.end_lineno]
    return '\n\n'.join(lines), {'source': SRC, 'lines': meta_lines, 'sha256': shas, 'coq': 'gen_head_stop_* / gen_head_test_first_*'}


def regen_filter():
    p = os.path.join(fw.REPO, SRC)
    chunks, meta = [], []
    for f in (translate_guards, translate_weight, translate_prep, translate_head):
        t, m = f(p)
        chunks.append(t); meta.append(m)
    py2coq.write_gen(os.path.join(fw.COQ, 'Gen', 'GenCountFilter.v'),
                     'From Coq Require Import QArith.\nFrom SCMO Require Import Lib.Val Model.C11.\n', chunks)
    return meta


# ----------------------------------------------------------------------------- encoding for the model
def opt(x, f=lambda v: v):
    return [] if x is None else [f(x)]


class Flt:
    """a float tag value as the implementation's own float: exact rational + the text str() prints for it"""
    __slots__ = ('q', 's')

    def __init__(self, num, den, s):
        self.q, self.s = Fraction(num, den), s

    def __str__(self):
        return self.s

    def __repr__(self):
        return 'Flt(%s)' % self.s

    def __eq__(self, other):
        return isinstance(other, Flt) and (self.q, self.s) == (other.q, other.s)

    def __hash__(self):
        return hash((self.q, self.s))


def lift_floats(backs):
    """readback [num, den, text] of a float tag -> Flt (in place)"""
    for back in backs:
        for b in back:
            for t in b['tags']:
                if t[1] == 'f' and isinstance(t[2], list):
                    if t[2][1] == 0:
                        raise ValueError('non-finite float tag generated: %r' % (t,))
                    t[2] = Flt(*t[2])
    return backs


def enc_tval(v):
    if isinstance(v, Flt):
        return [2, v.q.numerator, v.q.denominator, fw.to_val(v.s)]
    return [0, v] if isinstance(v, int) else [1, fw.to_val(v)]


def enc_read(b):
    """b: pysam's view of one record as returned by impl_c11 (readback)"""
    fl = b['flag']
    return [int(bool(fl & 1)), int(bool(fl & 64)), int(bool(fl & 128)), int(bool(fl & 4)), int(bool(fl & 8)),
            int(bool(fl & 512)), int(bool(fl & 1024)), int(bool(fl & 2)), b['mapq'], list(b['ops']),
            [[fw.to_val(k), enc_tval(v)] for k, t, v in b['tags']],
            opt(b['refname'], fw.to_val), b['pos'], opt(b['end'])]


def tags_of(s):
    return None if s is None else s.split(',')


def enc_opts(o):
    sl = lambda l: [fw.to_val(x) for x in l]
    return [int(o.get('r1only', False)), int(o.get('r2only', False)), int(o.get('filterMP', False)), o.get('minMQ', 0),
            int(o.get('proper_pairs_only', False)), int(o.get('no_indels', False)), opt(o.get('max_base_edits')),
            int(o.get('no_softclips', False)), int(o.get('filterXA', False)), int(o.get('dedup', False)),
            opt(o.get('blacklist'), lambda bl: [[fw.to_val(c), s, e] for c, s, e in bl]),
            int(o.get('doNotDivideFragments', False)), int(o.get('divideMultimapping', False)),
            opt(tags_of(o.get('featureTags')), sl), opt(tags_of(o.get('joinedFeatureTags')), sl),
            opt(o.get('byValue'), fw.to_val), int(o.get('splitFeatures', False)), fw.to_val(o.get('featureDelimiter', ',')),
            sl(o.get('sampleTags', 'SM').split(',')), opt(o.get('contig'), fw.to_val),
            opt(o.get('bed'), lambda bed: [[fw.to_val(c), s, e, fw.to_val(n)] for c, s, e, n in bed])]


def dec_tval(v):
    if v[0] == 2:
        return Flt(v[1], v[2], fw.as_str(v[3]))
    return v[1] if v[0] == 0 else fw.as_str(v[1])


def dec_cell(c):
    sample = tuple((dec_tval(x[0]) if x else None) for x in c[0])
    key = tuple((fw.as_str(k[1]) if k[0] == 0 else k[1]) for k in c[1])
    return (sample, key), Fraction(c[2], c[3])


def dec_model(v):
    """model output -> ('ok', {cellkey: Fraction}) | ('raise', 'TypeError')"""
    if v[0] == 1:
        return ('raise', ERRNAME.get(v[1], 'E%d' % v[1]))
    return ('ok', dict(dec_cell(c) for c in v[1]))


def cells_dict(cells):
    d = {}
    for s, k, n, den in cells:
        ck = (tuple(s), tuple(k))
        d[ck] = d.get(ck, 0) + Fraction(n, den)
    return {k: v for k, v in d.items() if v != 0}


def enc_out(kind, table):
    """an observed result in the model's output encoding (for mode 2 specb)"""
    if kind != 'ok':
        return [1, ERR.get(table, 9)]
    cells = []
    for (s, k), v in sorted(table.items(), key=str):
        cells.append([[opt(x, enc_tval) for x in s],
                      [[0, fw.to_val(c)] if isinstance(c, str) else [1, c] for c in k], v.numerator, v.denominator])
    return [0, cells]


# ----------------------------------------------------------------------------- the specification in Python
class Oracle:
    """Direct transcription of the theorem statements (Proofs/C11.v: passes / pure_weight / spec_cell):
    order-free filter conjunction, closed-form weight, group-by sum.  Returns None where the precondition
    (wf_read / wf_opts) fails, because the theorems say nothing there."""

    def __init__(self, o):
        self.o = o
        j = tags_of(o.get('joinedFeatureTags'))
        bv = o.get('byValue')
        if j is not None:
            self.joined, self.ft = True, list(j)
            if bv is not None and len(j) > 0 and bv not in j:
                self.ft.append(bv)
        else:
            self.joined, self.ft = False, tags_of(o.get('featureTags')) or []
        self.bv = bv
        self.split = o.get('splitFeatures', False)
        self.delim = o.get('featureDelimiter', ',')
        self.stags = o.get('sampleTags', 'SM').split(',')

    def wf_opts(self):
        return (len(self.ft) > 0 and (not self.split or len(self.delim) > 0)
                and not (self.joined and self.split and self.bv is not None))

    @staticmethod
    def tag(b, t):
        t = t[:2]
        for k, _, v in b['tags']:
            if k == t:
                return (v,)
        return None

    @classmethod
    def wf_read(cls, b):
        if not (b['flag'] & 4) and (not b['ops'] or b['end'] is None):
            return False
        nm, xa, nh = cls.tag(b, 'NM'), cls.tag(b, 'XA'), cls.tag(b, 'NH')
        if nm and isinstance(nm[0], str):
            return False
        if xa:
            if not isinstance(xa[0], str):
                return False
            if any(e != '' and len(e.split(',')) != 4 for e in xa[0].split(';')):
                return False
        if nh and (not isinstance(nh[0], int) or nh[0] == 0):
            return False
        return True

    def meta(self, b, t):
        if t == 'chrom':
            return b['refname']
        v = self.tag(b, t)
        if v:
            return v[0]
        if t == 'BI' and self.tag(b, 'bi'):
            return self.tag(b, 'bi')[0]
        if t == 'bi' and self.tag(b, 'BI'):
            return self.tag(b, 'BI')[0]
        return {'reference_name': b['refname'], 'mapping_quality': b['mapq'], 'reference_start': b['pos']}.get(t)

    def feat(self, b, t):
        return str(self.meta(b, t))

    def passes(self, b):
        o, fl = self.o, b['flag']
        tag = lambda t: self.tag(b, t)
        conj = [
            not (o.get('r1only') and fl & 128),
            not (o.get('r2only') and fl & 64),
            (not o.get('filterMP')) or (tag('mp') is not None and tag('mp')[0] == 'unique'),
            not fl & 512,
            b['mapq'] >= o.get('minMQ', 0),
            (not o.get('proper_pairs_only')) or bool(fl & 2),
            not fl & 4,
            (not o.get('no_indels')) or not (1 in b['ops'] or 2 in b['ops']),
            o.get('max_base_edits') is None or tag('NM') is None or self.as_int(tag('NM')[0]) <= o['max_base_edits'],
            (not o.get('no_softclips')) or 4 not in b['ops'],
            (not o.get('filterXA')) or tag('XA') is None
            or not any(e != '' and not e.split(',')[0].endswith('_alt') for e in tag('XA')[0].split(';')),
            (not o.get('dedup')) or (tag('RR') is None and not fl & 1024),
            o.get('blacklist') is None or not any(
                c == b['refname'] and (s <= b['pos'] < e or (b['end'] is not None and s <= b['end'] < e))
                for c, s, e in o['blacklist']),
        ]
        return all(conj)

    @staticmethod
    def as_int(v):
        """int(v) for an integer or float tag (truncation towards zero)"""
        if isinstance(v, Flt):
            return int(v.q) if v.q >= 0 else -int(-v.q)
        return v

    def weight(self, b):
        o, fl = self.o, b['flag']
        if o.get('r1only') or o.get('r2only') or o.get('doNotDivideFragments'):
            w = Fraction(1)
        else:
            w = Fraction(1, 2) if (fl & 1 and not fl & 8) else Fraction(1)
        if o.get('divideMultimapping'):
            xa, nh = self.tag(b, 'XA'), self.tag(b, 'NH')
            if xa:
                w = w / len(xa[0].split(';'))
            elif nh:
                w = w / nh[0]
        return w

    @staticmethod
    def number(s):
        """value of a plain decimal literal, else 0 (float(s) except ValueError: 0)"""
        import re
        if isinstance(s, Flt):
            return s.q
        s = s.strip(' \t\n\r\x0b\x0c')
        if re.fullmatch(r'[+-]?(\d+\.?\d*|\.\d+)', s):
            return Fraction(s)
        return Fraction(0)

    def incs(self, b):
        """[(rawkey, amount)] ; rawkey = tuple of str, or a bare str (single tags + splitFeatures)"""
        w = self.weight(b)
        nonbv = tuple(self.feat(b, t) for t in self.ft if not (self.bv is not None and t == self.bv))
        def amount():
            if self.bv not in self.ft:
                return Fraction(0)
            v = self.meta(b, self.bv)
            return self.number(v if isinstance(v, Flt) else str(v))
        if self.joined:
            if self.split:
                states = itertools.product(*[self.feat(b, t).split(self.delim) for t in self.ft])
                return [(tuple(v if v else 'None' for v in st), w) for st in states]
            return [(nonbv, amount() if self.bv is not None else w)]
        out = []
        for t in dict.fromkeys(self.ft):
            if self.bv is not None and t == self.bv:
                out.append((nonbv, amount()))
            elif self.split:
                out += [(f, w) for f in self.feat(b, t).split(self.delim)]
            else:
                out.append(((self.feat(b, t),), w))
        return out

    def presented(self, reads):
        o = self.o
        if o.get('bed') is None:
            return [(None, b) for b in reads if o.get('contig') is None or b['refname'] == o['contig']]
        out = []
        for c, s, e, n in o['bed']:
            if o.get('contig') is not None and c != o['contig']:
                continue
            for b in reads:
                end = b['end'] if (b['end'] is not None and b['end'] > b['pos']) else b['pos'] + 1
                if b['refname'] == c and b['pos'] < e and s < end:
                    out.append(((s, e, n), b))
        return out

    def table(self, reads):
        """the declarative group-by sum; None when the precondition of the theorems fails"""
        if not self.wf_opts() or not all(self.wf_read(b) for b in reads):
            return None
        return self.table_of(self.presented(reads))

    def table_of(self, pairs):
        t = {}
        for reg, b in pairs:
            if not self.passes(b):
                continue
            sample = tuple(self.meta(b, s) for s in self.stags)
            for rk, amt in self.incs(b):
                if reg is None:
                    key = (rk,) if isinstance(rk, str) else tuple(rk)
                else:
                    comps = [self.bv] if self.bv else list(rk)
                    if not comps:
                        continue
                    key = tuple(comps) + tuple(reg)
                t[(sample, key)] = t.get((sample, key), 0) + amt
        return {k: v for k, v in t.items() if v != 0}


class XOracle:
    """Direct transcription of the extended statements (Model/C11x.v xspecb, Props C11_table_eq_spec_x,
    C11_table_bulk_eq_spec, C11_head_plain / _bed, C11_showtags_exit): which records the loops hand on (a prefix per file
    / per region), the group-by sum over them, row sums for --bulk on the file-output path, no table for --showtags."""
    BULK = ('Bulkseq',)

    def __init__(self, o, x):
        self.orc, self.o, self.x = Oracle(o), o, x

    def exits(self):
        return bool(self.x.get('showtags')) or self.x.get('mode') == 'none'

    def bulk_mode(self):
        return bool(self.x.get('bulk')) and self.x.get('mode') != 'df'

    def presented(self, files):
        o, h = self.o, self.x.get('head')
        out = []
        for reads in files:
            if o.get('bed') is None:
                it = [b for b in reads if o.get('contig') is None or b['refname'] == o['contig']]
                if h is not None and self.x.get('head_documented'):
                    it = it[:max(0, h)]
                elif h is not None:
                    it = it[:max(0, h + 1)]            # `if i > head: break` BEFORE the call
                out += [(None, b) for b in it]
                continue
            for c, s, e, n in o['bed']:
                if o.get('contig') is not None and c != o['contig']:
                    continue
                it = []
                for b in reads:
                    end = b['end'] if (b['end'] is not None and b['end'] > b['pos']) else b['pos'] + 1
                    if b['refname'] == c and b['pos'] < e and s < end:
                        it.append(b)
                if h is not None and self.x.get('head_documented'):
                    it = it[:max(0, h)]
                elif h is not None:
                    it = it[:max(1, h + 2)]            # the same test AFTER the call
                out += [((s, e, n), b) for b in it]
        return out

    def outcome(self, files):
        """('raise', name) | ('exit', None) | ('ok', table); None where the statements say nothing"""
        if not files:
            return ('raise', 'ValueError')
        if self.exits():
            return ('exit', None)
        if not self.orc.wf_opts() or not all(self.orc.wf_read(b) for f in files for b in f):
            return None
        t = self.orc.table_of(self.presented(files))
        if self.bulk_mode():
            bt = {}
            for (smp, key), v in t.items():
                bt[(self.BULK, key)] = bt.get((self.BULK, key), 0) + v
            t = {k: v for k, v in bt.items() if v != 0}
        return ('ok', t)


def enc_x(o, x):
    mode = x.get('mode', 'df')
    return [enc_opts(o), opt(x.get('head')), int(bool(x.get('bulk'))), int(bool(x.get('showtags'))),
            int(mode == 'df'), int(mode in ('pickle', 'pickle.gz', 'csv'))]


def dec_xmodel(v):
    if v[0] == 1:
        return ('raise', ERRNAME.get(v[1], 'E%d' % v[1]))
    if v[0] == 2:
        return ('exit', None)
    return ('ok', dict(dec_cell(c) for c in v[1]))


def enc_xobs(kind, table):
    if kind == 'exit':
        return [2]
    return enc_out(kind, table)


def strkeys(table):
    """what a CSV can hold: every key component as text"""
    out = {}
    for (smp, key), v in table.items():
        k = (smp, tuple(str(c) for c in key))
        out[k] = out.get(k, 0) + v
    return out


# ----------------------------------------------------------------------------- generators
FLOATS32 = [0.5, 0.25, 1.5, 2.0, 0.1, 0.3, 2.7, -1.25, 0.0, -0.0, 100.125, 1e-3, 3.0, 0.75, 7.0, -0.1, 255.5, 0.0625]
FLOATS64 = [0.5, 0.25, 1.5, 2.0, -2.5, 0.0, 3.0, 0.125, 10.0, 1.0009765625, -0.75, 123.0]


def exact_floats_ok(back):
    """every float tag of the library is a multiple of 2^-40 of magnitude <= 2^8, at most 32 records: every partial
    sum of such values and of weights 1, 1/2, 1/4, 1/8 is exactly representable, so IEEE accumulation is exact"""
    if len(back) > 32:
        return False
    for b in back:
        for k, t, v in b['tags']:
            if isinstance(v, Flt) and ((2 ** 40) % v.q.denominator != 0 or abs(v.q) > 256):
                return False
    return True


class Gen:
    def __init__(self, rng):
        self.rng = rng
        self.n = 0

    def tags(self, frag):
        r = self.rng
        t = []
        if r.random() < 0.9:
            t.append(['SM', 'Z', frag['sm']])
        if r.random() < 0.7:
            t.append(['LY', 'Z', frag['ly']])
        if r.random() < 0.8:
            t.append(['DS', 'i', frag['ds']])
        x = r.random()
        if x < 0.6:
            t.append(['RC', 'i', r.choice([1, 1, 2, 3, 0, -2])])
        elif x < 0.8:
            t.append(['RC', 'Z', r.choice(['2.5', '0.25', '3', 'abc', '-1.5', '.5', '4.', '', '1.2.3', '+2', ' 3', '2 ', ' 1.5 ', '- 2', '\t4'])])
        if r.random() < 0.15:
            t.append(['RR', 'Z', r.choice(['NoCut', 'dup', ''])])
        x = r.random()
        if x < 0.3:
            t.append(['NH', 'i', r.choice([1, 2, 2, 3, 4, 5, 6])])
        if r.random() < 0.3:
            ents = [r.choice(['chr1,+%d,20M,0', 'chr2,-%d,18M2S,1', 'chrUn_alt,+%d,20M,2', 'chrUn_alt,-%d,20M,0'])
                    % r.randint(1, 900) for _ in range(r.choice([1, 1, 2, 3, 5]))]
            s = ';'.join(ents) + r.choice([';', ';', ';', '', ';;'])
            if r.random() < 0.1:
                s = ';' + s
            t.append(['XA', 'Z', s])
        x = r.random()
        if x < 0.5:
            t.append(['mp', 'Z', r.choice(['unique', 'unique', 'unique', 'multi', 'uniqu', 'Unique'])])
        elif x < 0.55:
            t.append(['mp', 'i', 1])
        if r.random() < 0.7:
            t.append(['NM', 'i', r.choice([0, 0, 1, 2, 3, 4])])
        if r.random() < 0.6:
            t.append(['GN', 'Z', r.choice(['g1', 'g2', 'g1,g2', 'g2,,g3', '', 'g1,g1', ',', 'gg', ' g1', 'g1 ', 'g1, g2', ' '])])
        if r.random() < 0.3:
            t.append([r.choice(['BI', 'bi']), 'i', r.randint(1, 3)])
        if r.random() < 0.04:
            t.append(['re', 'Z', 'quirk'])
        for name in ('fe', 'na', 'en', 'me'):      # two letters that occur INSIDE reference_name / mapping_quality ...
            if r.random() < 0.35:
                t.append([name, r.choice(['i', 'i', 'Z']), None])
        for x in t:
            if x[2] is None:
                x[2] = r.choice([1, 2, 3, 5]) if x[1] == 'i' else r.choice(['2', '0.5', '1.5'])
        if r.random() < 0.4:
            t.append(['fv', 'Z', r.choice(['0.5', '1.25', '-2', '3.', '7', 'x', ' 7', '0.5 '])])
        r.shuffle(t)
        return t

    def rec(self, frag, flag, ref, pos, cigar, mapq=None):
        r = self.rng
        if r.random() < 0.1:
            flag |= 512
        if r.random() < 0.15:
            flag |= 1024
        self.n += 1
        return {'name': frag['name'], 'flag': flag, 'ref': ref, 'pos': pos,
                'mapq': r.choice([0, 1, 10, 20, 30, 59, 60, 60, 60]) if mapq is None else mapq,
                'cigar': cigar, 'tags': self.tags(frag)}

    def lib(self, nfrag, malformed=False):
        r = self.rng
        reads = []
        for i in range(nfrag):
            frag = {'name': 'f%d' % i, 'sm': r.choice(['c1', 'c2', 'c3']), 'ly': r.choice(['L1', 'L2']),
                    'ds': r.choice([0, 5, 17, 100, 999])}
            ref = r.choice([0, 0, 0, 1, 2])
            pos = r.choice([0, 10, 50, 99, 100, 101, 120, 300, r.randint(0, 450)])
            kind = r.random()
            if kind < 0.3:                      # single end
                reads.append(self.rec(frag, 0, ref, pos, r.choice(CIGARS)))
            elif kind < 0.7:                    # proper-ish pair, both mapped
                pp = 2 if r.random() < 0.7 else 0
                reads.append(self.rec(frag, 1 | 64 | pp, ref, pos, r.choice(CIGARS)))
                reads.append(self.rec(frag, 1 | 128 | pp | 16, ref, pos + r.choice([0, 30, 150]), r.choice(CIGARS)))
            elif kind < 0.85:                   # mate unmapped (placed at the mapped mate)
                first = r.random() < 0.5
                reads.append(self.rec(frag, 1 | (64 if first else 128) | 8, ref, pos, r.choice(CIGARS)))
                reads.append(self.rec(frag, 1 | (128 if first else 64) | 4, ref, pos, None, mapq=r.choice([0, 0, 60])))
            elif kind < 0.92:                   # unmapped single, placed or not
                if r.random() < 0.5:
                    reads.append(self.rec(frag, 4, ref, pos, None, mapq=0))
                else:
                    reads.append(self.rec(frag, 4, -1, -1, None, mapq=0))
            elif kind < 0.96:                   # both unmapped
                reads.append(self.rec(frag, 1 | 64 | 4 | 8, -1, -1, None, mapq=0))
                reads.append(self.rec(frag, 1 | 128 | 4 | 8, -1, -1, None, mapq=0))
            else:                               # unmapped flag but a CIGAR is present (aligners do this)
                reads.append(self.rec(frag, 4, ref, pos, '20M', mapq=0))
        if malformed and reads:
            v = r.choice(reads)
            kind = r.choice(['nocigar', 'xa', 'nh0', 'nmstr', 'xaint', 'nhstr'])
            v['tags'] = [t for t in v['tags'] if t[0] not in ('XA', 'NH', 'NM')]
            if kind == 'nocigar':
                v['flag'] &= ~4
                v['cigar'] = None
                if v['ref'] < 0:
                    v['ref'], v['pos'] = 0, 10
            elif kind == 'xa':
                v['tags'].append(['XA', 'Z', r.choice(['chr1,+5,20M;', 'chrUn_alt,+5,20M,0;chr1;', 'chr1,+5,20M,0;bad;'])])
            elif kind == 'nh0':
                v['tags'].append(['NH', 'i', 0])
            elif kind == 'nmstr':
                v['tags'].append(['NM', 'Z', r.choice(['2', 'x', '-1'])])
            elif kind == 'xaint':
                v['tags'].append(['XA', 'i', 3])
            else:
                v['tags'].append(['NH', 'Z', r.choice(['2', 'two'])])
        return {'contigs': CONTIGS, 'reads': reads}

    def flib(self, nfrag):
        """library with float typed tags (f: float32, d: double) for exact by-value sums; all weights are dyadic
        (NH in 1, 2, 4; no XA)"""
        r = self.rng
        reads = []
        for i in range(nfrag):
            frag = {'name': 'f%d' % i, 'sm': r.choice(['c1', 'c2', 'c3']), 'ly': r.choice(['L1', 'L2']), 'ds': r.choice([0, 5, 17])}
            ref = r.choice([0, 0, 0, 1])
            pos = r.choice([0, 10, 50, 99, 100, 101, 120, 300, r.randint(0, 450)])

            def tags():
                t = [['SM', 'Z', frag['sm']]] if r.random() < 0.95 else []
                if r.random() < 0.6:
                    t.append(['LY', 'Z', frag['ly']])
                if r.random() < 0.85:
                    t.append(['GN', 'Z', r.choice(['g1', 'g2', 'g3', 'g1,g2'])])
                x = r.random()
                if x < 0.75:
                    t.append(['fv', 'f', r.choice(FLOATS32)])
                elif x < 0.85:
                    t.append(['fv', 'Z', r.choice(['0.5', '1.25', '-2', 'x', '3.'])])
                elif x < 0.92:
                    t.append(['fv', 'i', r.choice([1, 2, -3])])
                if r.random() < 0.5:
                    t.append(['dv', 'd', r.choice(FLOATS64)])
                if r.random() < 0.3:
                    t.append(['NH', 'i', r.choice([1, 2, 2, 4])])
                if r.random() < 0.5:
                    t.append(['NM', r.choice(['i', 'i', 'f']), None])
                    t[-1][2] = r.choice([0, 1, 2, 3]) if t[-1][1] == 'i' else r.choice([0.0, 1.5, 2.0, 2.75, -0.5])
                if r.random() < 0.1:
                    t.append(['RR', 'Z', 'dup'])
                if r.random() < 0.1:
                    t.append(['mp', r.choice(['Z', 'f']), None])
                    t[-1][2] = 'unique' if t[-1][1] == 'Z' else 1.0
                r.shuffle(t)
                return t
            kind = r.random()
            mq = lambda: r.choice([0, 20, 60, 60, 60])
            fl = lambda: (512 if r.random() < 0.08 else 0) | (1024 if r.random() < 0.12 else 0)
            if kind < 0.5:
                reads.append({'name': frag['name'], 'flag': fl(), 'ref': ref, 'pos': pos, 'mapq': mq(),
                              'cigar': r.choice(CIGARS), 'tags': tags()})
            elif kind < 0.9:
                reads.append({'name': frag['name'], 'flag': 1 | 64 | 2 | fl(), 'ref': ref, 'pos': pos, 'mapq': mq(),
                              'cigar': r.choice(CIGARS), 'tags': tags()})
                reads.append({'name': frag['name'], 'flag': 1 | 128 | 2 | 16 | fl(), 'ref': ref, 'pos': pos + r.choice([0, 30]),
                              'mapq': mq(), 'cigar': r.choice(CIGARS), 'tags': tags()})
            else:
                reads.append({'name': frag['name'], 'flag': 4, 'ref': ref, 'pos': pos, 'mapq': 0, 'cigar': None, 'tags': tags()})
        return {'contigs': CONTIGS, 'reads': reads[:30], 'floats': True}

    def fopts(self):
        """option sets that exercise float tags: by-value on fv / dv, float tags as key components"""
        r = self.rng
        o = {k: r.random() < pr for k, pr in (('dedup', .25), ('doNotDivideFragments', .3), ('divideMultimapping', .35),
                                             ('no_indels', .15), ('r1only', .1), ('proper_pairs_only', .1), ('filterMP', .08))}
        o['minMQ'] = r.choice([0, 0, 0, 20, 60])
        o['max_base_edits'] = r.choice([None, None, 0, 1, 2])
        tags = r.choice([['GN'], ['GN'], ['chrom'], ['GN', 'chrom'], ['GN', 'fv'], ['dv'], ['SM', 'GN'], ['fv', 'dv']])
        if r.random() < 0.65:
            o['joinedFeatureTags'] = ','.join(tags)
        else:
            o['featureTags'] = ','.join(tags)
        if r.random() < 0.8:
            o['byValue'] = r.choice(['fv', 'fv', 'fv', 'dv', 'dv', 'GN', 'XX'])
        if r.random() < 0.1 and 'joinedFeatureTags' not in o:
            o['splitFeatures'] = True
        o['sampleTags'] = r.choice(['SM', 'SM', 'SM', 'SM,LY', 'LY'])
        if r.random() < 0.15:
            o['contig'] = r.choice(['chr1', 'chr2'])
        if r.random() < 0.15:
            o['bed'] = [self.interval() + ['b%d' % r.randint(0, 2)] for _ in range(r.randint(1, 3))]
        o['noNames'] = r.random() < 0.3
        return o

    def xopt(self, nreads, allow_csv=True):
        """the options around the accumulation; -head is drawn around the number of records (0, 1, n-1, n, n+1 ...)"""
        r = self.rng
        x = {}
        if r.random() < 0.6:
            x['head'] = r.choice([0, 0, 1, 1, 2, 3, max(0, nreads - 2), max(0, nreads - 1), nreads, nreads + 1, -1, -3,
                                  r.randint(0, max(1, nreads))])
        x['mode'] = r.choice(['df', 'df', 'pickle', 'pickle', 'pickle', 'pickle.gz', 'csv', 'csv'] if allow_csv
                             else ['df', 'df', 'pickle', 'pickle', 'pickle.gz'])
        x['bulk'] = r.random() < 0.5
        if x['mode'] == 'csv':
            x['bulk'] = True            # only the one-column --bulk CSV is read back
        if r.random() < 0.06:
            x['showtags'] = True
        if r.random() < 0.03:
            x['mode'] = 'none'
        return x

    def opts(self):
        r = self.rng
        o = {}
        p = {'r1only': .12, 'r2only': .08, 'filterMP': .1, 'proper_pairs_only': .15, 'no_indels': .25, 'no_softclips': .25,
             'filterXA': .2, 'dedup': .3, 'doNotDivideFragments': .4, 'divideMultimapping': .35}
        for k in BOOL_OPTS:
            o[k] = r.random() < p[k]
        o['minMQ'] = r.choice([0, 0, 0, 0, 1, 20, 30, 60, 61])
        o['max_base_edits'] = r.choice([None, None, None, 0, 1, 2, 3])
        if r.random() < 0.25:
            o['blacklist'] = [self.interval() for _ in range(r.randint(1, 3))]
        feats = ['chrom', 'reference_name', 'RC', 'DS', 'GN', 'BI', 'bi', 'mapping_quality', 'XX', 'SM', 'fv',
                 'reference_start']
        tags = [r.choice(feats) for _ in range(r.choice([1, 1, 2, 2, 3]))]
        if r.random() < 0.6:
            o['joinedFeatureTags'] = ','.join(tags)
            if r.random() < 0.1:
                o['featureTags'] = 'RC'        # ignored when joined tags are given
        else:
            o['featureTags'] = ','.join(tags)
        if r.random() < 0.3:
            o['byValue'] = r.choice(['RC', 'RC', 'fv', 'DS', 'XX', tags[0], '', 'fe', 'na', 'en', 'me', 'fe', 'na'])
        if r.random() < 0.25:
            o['splitFeatures'] = True
            o['featureDelimiter'] = r.choice([',', ',', ',', ',,', 'g', '1', ''])
        o['sampleTags'] = r.choice(['SM', 'SM', 'SM', 'SM,LY', 'LY', 'XX', 'SM,RC', 'chrom'])
        if r.random() < 0.25:
            o['contig'] = r.choice(['chr1', 'chr1', 'chr2', 'chrUn_alt'])
        if r.random() < 0.25:
            o['bed'] = [self.interval() + ['b%d' % r.randint(0, 2)] for _ in range(r.randint(1, 4))]
        o['noNames'] = r.random() < 0.3
        return o

    def interval(self):
        r = self.rng
        s = r.choice([0, 10, 50, 99, 100, 101, 119, 120, 121, 300])
        return [r.choice(['chr1', 'chr1', 'chr2', 'chrUn_alt']), s, s + r.choice([1, 2, 20, 21, 100, 500])]


def ref_end(r):
    import re
    if not r['cigar']:
        return None
    return r['pos'] + sum(int(n) for n, op in re.findall(r'(\d+)([MIDNSHP=X])', r['cigar']) if op in 'MDN=X')


def directed_intervals(rng, lib, n):
    """intervals whose borders sit on / next to the start and end of records of the library"""
    placed = [r for r in lib['reads'] if r['ref'] >= 0 and r['cigar']]
    out = []
    for _ in range(n):
        if not placed:
            break
        r = rng.choice(placed)
        p, e = r['pos'], ref_end(r)
        s, t = rng.choice([(p, p + 1), (p - 5, p), (p - 5, p + 1), (p + 1, p + 9), (e, e + 1), (e - 1, e), (e + 1, e + 5),
                           (e - 3, e + 1), (p, e), (p + 1, e), (e, e + 30), (p - 3, e + 3)])
        s = max(0, s)
        out.append([lib['contigs'][r['ref']][0], s, max(s + 1, t)])
    return out


def fixed_lib():
    """the fixed ~40 read library for the exhaustive option enumeration (seed independent)"""
    import random
    g = Gen(random.Random(20240611))
    return g.lib(24)


def exhaustive_opts():
    base = {'joinedFeatureTags': 'chrom,RC', 'sampleTags': 'SM'}
    names = BOOL_OPTS + ['minMQ', 'max_base_edits', 'blacklist']
    out = []
    for bits in itertools.product([False, True], repeat=len(names)):
        o = dict(base)
        for n, b in zip(names, bits):
            if n == 'minMQ':
                o[n] = 30 if b else 0
            elif n == 'max_base_edits':
                o[n] = 1 if b else None
            elif n == 'blacklist':
                if b:
                    o[n] = [['chr1', 100, 120], ['chr2', 0, 51]]
            else:
                o[n] = b
        out.append(o)
    return out


# ----------------------------------------------------------------------------- the property
def describe(o):
    return {k: v for k, v in o.items() if v not in (False, None) and not (k == 'minMQ' and v == 0)}


class Prop(fw.PropBase):
    ID = 'C11'
    PROPS = 'Props/C11.v'
    TRUSTED = [
        'modelled not verified: pysam/htslib (record attributes, has_tag/get_tag which look at the first two characters of '
        'the tag name, fetch(contig) / fetch(contig,start,end) overlap semantics), collections.Counter accumulation, pandas '
        'DataFrame.from_dict and index naming (an EMPTY table with >= 2 sample tags raises ValueError in '
        'df.columns.set_names - observed, outside the statement; the captured Counter is compared there)',
        'float accumulation is modelled by exact rationals (QArith); K converts a DataFrame value v to Fraction(v) itself '
        'when its denominator is <= 2^40 (weights 1, 1/2, 1/4, float tags), else to Fraction(v).limit_denominator(10^6) and '
        'verifies |float - fraction| <= 1e-9 (thirds, fifths ...)',
        'float(str(x)) of by-value tags is modelled for plain decimal literals [+-]digits[.digits]; exponents, inf/nan '
        'and underscores are outside the model',
        'float typed tags (BAM f = float32, d = double): the model carries the exact rational value of the float pysam '
        'returns (float.as_integer_ratio of the implementation\'s own value) and the text str() gives for it; modelled not '
        'verified: float(str(x)) == x (repr round trip) and that IEEE accumulation of the generated values is exact - the '
        'generator keeps every float tag a multiple of 2^-40 with |v| <= 256, at most 32 records per library, and all pair / '
        'multimapping weights dyadic on those libraries (checked on the read-back of every generated library); NaN / inf '
        'tags and float typed SAMPLE tags (Python equates the dict keys 1.0 and 1, the model does not) are not generated',
        '-head: the break test and its place before / after the assignReads call are regenerated from the two record '
        'loops of create_count_table on every run (translate_head, fail closed: any other control flow in the loop bodies '
        'is refused) and proved equal to the hand-written loops (loop_plain: test before the call, loop_bed: test after the '
        'call); that the counter restarts at 0 per file and per BED region, and the loop nesting, are hand-modelled and tied '
        'by K (every head value -1 .. n+2 on small libraries, plain / -contig / BED)',
        '--bulk: DataFrame.sum(axis=1) is modelled as the per-key sum over all samples; pickle / gzip pickle / CSV '
        'writing and reading back are trusted; a CSV holds key components as text, so CSV outcomes are compared after '
        'str() of every key component and only for the one-column --bulk table; where pandas itself is lossy (empty '
        'tuple key, ragged tuple keys) the Counter handed to DataFrame.from_dict, summed over the samples, is the observation',
        '--showtags: any way of ending the call without a table (SystemExit, or returning nothing and writing no file) is '
        'the observation "exit"; what is printed is not compared',
        'attribute fall-back of metaFromRead is modelled for reference_name, mapping_quality, reference_start only; every '
        'other name that is not a tag is modelled as AttributeError -> None',
        'the binned branch (-bin) is C10; index / column NAMES (--noNames) are not compared (not constrained by the '
        'statement); blacklist / BED file parsing is modelled as the parsed rows',
    ]
    ASSUMPTIONS = [
        'no-raise / table theorems assume wf_read: a mapped record has a CIGAR and a reference end, NM is not a string tag '
        '(integer, or float: int() truncates), NH is an integer tag <> 0, XA is a string tag whose non-empty entries have 4 '
        'comma separated fields; and wf_opts: at least one feature tag, a non-empty delimiter with --splitFeatures, not '
        '(joined tags + --splitFeatures + -byValue: documented NotImplementedError); the extended statements (xpre) assume '
        'the same of every record of every file',
        'float typed tags are finite (no NaN / inf) and are not used as sample tags',
        '-head theorems describe the code as it is (N + 1 records, N + 2 per BED region), not the documented "first N '
        'reads" (refuted: C11_head_documented_refuted, finding D33, fixes/C11-D33.patch)',
        '-contig and BED contigs are contigs of the BAM header (pysam raises otherwise); BED regions have start < end',
        'int()/float() of tag strings: surrounding ASCII whitespace is modelled; underscores, exponents, inf/nan and '
        'non-ASCII whitespace are not generated',
    ]

    def regen(self):
        return regen_filter()

    # ---------------------------------------------------------------- cases
    def build_cases(self):
        quick = self.tier == 'quick'
        g = Gen(self.rng)
        libs, cases = [], []
        nlib = 160 if quick else 1400
        per = 10 if quick else 14
        for i in range(nlib):
            libs.append(g.lib(self.rng.choice([1, 2, 3, 5, 8, 12, 20, 30]), malformed=self.rng.random() < 0.1))
            for _ in range(per):
                c = {'lib': i, 'opts': g.opts()}
                o = c['opts']
                if 'blacklist' in o and self.rng.random() < 0.6:
                    o['blacklist'] = directed_intervals(self.rng, libs[i], len(o['blacklist'])) or o['blacklist']
                if 'bed' in o and self.rng.random() < 0.6:
                    d = directed_intervals(self.rng, libs[i], len(o['bed']))
                    if d:
                        o['bed'] = [iv + ['b%d' % (k % 3)] for k, iv in enumerate(d)]
                if i > 0 and self.rng.random() < 0.05:
                    c['lib'] = [i, self.rng.randrange(i)]
                cases.append(c)
        # directed: every single boolean option alone and pairs of them on the fixed library
        libs.append(fixed_lib())
        fx = len(libs) - 1
        for tagset in ({'joinedFeatureTags': 'chrom'}, {'featureTags': 'chrom,GN'}):
            for k in BOOL_OPTS:
                o = dict(tagset); o[k] = True
                cases.append({'lib': fx, 'opts': o})
            for k1, k2 in itertools.combinations(BOOL_OPTS, 2):
                if quick and self.rng.random() < 0.6:
                    continue
                o = dict(tagset); o[k1] = True; o[k2] = True
                cases.append({'lib': fx, 'opts': o})
        self.n_exhaustive = 0
        if not quick:
            ex = exhaustive_opts()
            self.n_exhaustive = len(ex)
            cases += [{'lib': fx, 'opts': o} for o in ex]
        return libs, cases

    def corpus_cases(self):
        d = os.path.join(fw.VERIF, 'corpus', 'C11')
        libs, cases = [], []
        if os.path.isdir(d):
            for f in sorted(os.listdir(d)):
                if f.endswith('.json'):
                    c = json.load(open(os.path.join(d, f)))
                    libs.append(c['lib'])
                    cases.append({'lib': len(libs) - 1, 'opts': c['opts'], 'corpus': f})
        return libs, cases

    def reads_of(self, res, case):
        ids = case['lib'] if isinstance(case['lib'], list) else [case['lib']]
        return [b for i in ids for b in res['libs'][i]]

    @staticmethod
    def observed(r, nstags):
        """impl result -> (kind, table, note).  kind 'ok' / 'raise'"""
        if 'error' in r:
            name = r['error'].split(':')[0]
            if name == 'ValueError' and 'Length of new names' in r['error'] and r.get('raw') == [] and nstags >= 2:
                return 'ok', {}, 'empty-table-naming'
            return 'raise', name, None
        df = cells_dict(r['cells'])
        raw = cells_dict(r['raw']) if r.get('raw') is not None else None
        if raw is not None and raw != df:
            # pandas is lossy for an empty tuple key and for tuple keys of different lengths (ragged MultiIndex):
            # the Counter handed to DataFrame.from_dict is the observation there
            lens = set(len(k[1]) for k in raw)
            if 0 in lens:
                return 'ok', raw, 'empty-key(pandas drops it)'
            if len(lens) > 1 and min(lens) >= 2:
                return 'ok', raw, 'ragged-keys(pandas drops them)'
            return 'ok', df, 'dataframe-differs-from-counter'
        return 'ok', df, None

    # ---------------------------------------------------------------- running the implementation
    @staticmethod
    def direct_spec(o):
        """what create_count_table derives from the options and hands to assignReads"""
        orc = Oracle(o)
        return {'joined': orc.joined, 'ft': orc.ft, 'stags': orc.stags} if orc.ft else None

    @staticmethod
    def direct_opts(o):
        d = dict(o)
        d.pop('contig', None); d.pop('bed', None)
        return d

    def build_histories(self, libs, nlib, fx):
        """sequences of option sets run on ONE namespace; consecutive steps differ in a few options"""
        quick = self.tier == 'quick'
        g = Gen(self.rng)
        hs = []
        base = {'joinedFeatureTags': 'chrom', 'sampleTags': 'SM'}
        for sel in ('r1only', 'r2only'):
            for extra in ({}, {'divideMultimapping': True}, {'featureTags': 'chrom,RC', 'joinedFeatureTags': None}):
                b = dict(base); b.update(extra)
                on = dict(b); on[sel] = True
                hs.append({'lib': fx, 'steps': [dict(b), on, dict(b)]})
                hs.append({'lib': fx, 'steps': [on, dict(b, doNotDivideFragments=True), dict(b)]})
        for _ in range(40 if quick else 400):
            i = self.rng.randrange(nlib)
            o = g.opts()
            o.pop('bed', None)
            steps = [o]
            for _ in range(self.rng.choice([1, 2, 3])):
                n = dict(steps[-1])
                for k in self.rng.sample(['r1only', 'r2only', 'r1only', 'r2only', 'doNotDivideFragments', 'divideMultimapping',
                                          'dedup', 'no_indels', 'filterXA', 'minMQ', 'byValue', 'contig', 'splitFeatures'],
                                         self.rng.choice([1, 1, 2, 3])):
                    if k == 'minMQ':
                        n[k] = self.rng.choice([0, 20, 60])
                    elif k == 'byValue':
                        n[k] = None if n.get(k) is not None else self.rng.choice(['RC', 'fv', 'fe'])
                    elif k == 'contig':
                        n[k] = None if n.get(k) is not None else 'chr1'
                    else:
                        n[k] = not n.get(k, False)
                steps.append(n)
            hs.append({'lib': i, 'steps': steps})
        return hs

    def run_all(self):
        clibs, ccases = self.corpus_cases()
        libs, cases = self.build_cases()
        off = len(clibs)
        for c in cases:
            c['lib'] = [i + off for i in c['lib']] if isinstance(c['lib'], list) else c['lib'] + off
        hists = self.build_histories(libs, len(libs) - 1, len(libs) - 1)
        for h in hists:
            h['lib'] += off
        libs, cases = clibs + libs, ccases + cases
        xcases = self.build_xcases(libs, cases, first_regular=off, n_regular=len(libs) - off - 1)
        for c in cases:
            c['direct'] = self.direct_spec(c['opts'])
        res = fw.run_impl('impl_c11.py', {'libs': libs, 'cases': cases, 'filter': True, 'histories': hists,
                                          'xcases': xcases})
        lift_floats(res['libs'])
        for k, l in enumerate(libs):
            if l.get('floats') and not exact_floats_ok(res['libs'][k]):
                raise RuntimeError('generated float library %d leaves the exactly summable range' % k)
        self.libs, self.cases, self.hists, self.res, self.n_corpus = libs, cases, hists, res, len(ccases)
        self.xcases = xcases
        nst = lambda o: len(o.get('sampleTags', 'SM').split(','))
        items, notes = [], {}
        for i, (c, r) in enumerate(zip(cases, res['cases'])):
            kind, table, note = self.observed(r, nst(c['opts']))
            items.append({'t': 'call', 'opts': c['opts'], 'lib': c['lib'], 'obs': (kind, table), 'i': i})
            if note:
                notes[note] = notes.get(note, 0) + 1
            d = r.get('direct')
            if d is not None:
                ob = ('raise', d['error'].split(':')[0]) if 'error' in d else ('ok', cells_dict(d['raw']))
                items.append({'t': 'direct', 'opts': self.direct_opts(c['opts']), 'lib': c['lib'], 'obs': ob, 'i': i})
        for hi, (h, steps) in enumerate(zip(hists, res.get('histories', []))):
            for k, r in enumerate(steps):
                kind, table, note = self.observed(r, nst(h['steps'][k]))
                items.append({'t': 'history', 'opts': h['steps'][k], 'lib': h['lib'], 'obs': (kind, table), 'h': hi, 'k': k})
        for n, (c, r) in enumerate(zip(xcases, res.get('xcases', []))):
            kind, table, note = self.observed_x(r, c['opts'], c['x'])
            items.append({'t': 'x', 'opts': c['opts'], 'x': c['x'], 'lib': c['lib'], 'obs': (kind, table), 'i': n,
                          'csv': bool(r.get('csv')) or c['x'].get('mode') == 'csv'})
            if note:
                notes[note] = notes.get(note, 0) + 1
        self.items, self.obs_notes = items, notes
        return items

    # ---------------------------------------------------------------- extension: cases and observation
    def build_xcases(self, libs, cases, first_regular, n_regular):
        """appends float-tag libraries (and plain `call` cases on them) to libs / cases; returns the x cases:
        several files, -head around the number of records, --bulk, --showtags, output modes"""
        quick = self.tier == 'quick'
        g = Gen(self.rng)
        r = self.rng
        regular = list(range(first_regular, first_regular + n_regular))
        fixed = first_regular + n_regular
        floats = []
        for _ in range(24 if quick else 100):
            libs.append(g.flib(r.choice([1, 2, 3, 4, 6, 8, 12, 16])))
            floats.append(len(libs) - 1)
            for _ in range(3 if quick else 5):
                cases.append({'lib': floats[-1], 'opts': g.fopts()})
        xcases = []

        def add(ids, o, x):
            xcases.append({'lib': ids, 'opts': o, 'x': x})

        def pick(pool):
            k = r.choice([1, 1, 1, 1, 2, 2, 3])
            return [r.choice(pool) for _ in range(k)]
        nx = 420 if quick else 2500
        for _ in range(nx):
            fl = r.random() < 0.45
            ids = pick(floats if fl else regular)
            o = g.fopts() if (fl and r.random() < 0.75) else g.opts()
            if 'bed' in o and r.random() < 0.6:
                d = directed_intervals(r, libs[ids[0]], len(o['bed']))
                if d:
                    o['bed'] = [iv + ['b%d' % (k % 3)] for k, iv in enumerate(d)]
            nmax = max(len(libs[i]['reads']) for i in ids)
            add(ids, o, g.xopt(r.choice([nmax, nmax, len(libs[ids[0]]['reads']), 3])))
        # directed: every head value -1 .. n+2 on small libraries, plain / contig / BED, with and without --bulk
        small = [i for i in floats + regular if 2 <= len(libs[i]['reads']) <= 6][:(6 if quick else 30)]
        for i in small:
            n = len(libs[i]['reads'])
            for h in range(-1, n + 3):
                for o in ({'joinedFeatureTags': 'chrom'}, {'featureTags': 'GN', 'contig': 'chr1'},
                          {'joinedFeatureTags': 'chrom', 'bed': [['chr1', 0, 1000, 'all'], ['chr1', 0, 120, 'left']]}):
                    add([i], dict(o), {'head': h, 'mode': r.choice(['df', 'pickle']), 'bulk': r.random() < 0.5})
        add([], {'joinedFeatureTags': 'chrom'}, {'mode': 'df'})
        add([], {'joinedFeatureTags': 'chrom'}, {'mode': 'pickle', 'showtags': True})
        add([fixed], {'joinedFeatureTags': 'chrom'}, {'mode': 'df', 'showtags': True})
        add([fixed], {'joinedFeatureTags': 'chrom'}, {'mode': 'none'})
        add([fixed, fixed], {'joinedFeatureTags': 'chrom,RC'}, {'mode': 'pickle', 'bulk': True, 'head': 7})
        add([fixed], {'joinedFeatureTags': 'chrom,RC', 'sampleTags': 'SM,LY'}, {'mode': 'csv', 'bulk': True})
        add([fixed], {'featureTags': 'GN', 'splitFeatures': True}, {'mode': 'pickle.gz', 'bulk': True})
        return xcases

    def files_of(self, res, it):
        return [res['libs'][i] for i in it['lib']]

    @staticmethod
    def bulk_of(table):
        out = {}
        for (smp, key), v in table.items():
            out[(XOracle.BULK, key)] = out.get((XOracle.BULK, key), 0) + v
        return {k: v for k, v in out.items() if v != 0}

    def observed_x(self, r, o, x):
        """impl outcome of an x case -> (kind, table, note); kind 'ok' / 'raise' / 'exit'"""
        if r.get('exit'):
            return 'exit', None, None
        nst = len(o.get('sampleTags', 'SM').split(','))
        bulk = bool(x.get('bulk')) and x.get('mode') != 'df'
        csv = bool(r.get('csv'))
        if 'error' in r or not (bulk or csv):
            return self.observed(r, nst)
        df = cells_dict(r['cells'])
        if r.get('raw') is None:
            return 'ok', df, None
        raw = cells_dict(r['raw'])
        exp = self.bulk_of(raw) if bulk else raw
        if csv:
            exp = strkeys(exp)
        if exp == df:
            return 'ok', df, None
        # pandas is lossy for an empty tuple key and for tuple keys of different lengths; a CSV of such an index holds
        # tuple texts: the Counter handed to DataFrame.from_dict (summed over the samples) is the observation there
        lens = set(len(k[1]) for k in raw)
        if 0 in lens:
            return 'ok', exp, 'empty-key(pandas drops it)'
        if len(lens) > 1 and (csv or min(lens) >= 2):
            return 'ok', exp, 'ragged-keys(pandas drops them)'
        return 'ok', df, 'dataframe-differs-from-counter'

    # ---------------------------------------------------------------- K
    def correspondence(self):
        all_items = self.run_all()
        items = [it for it in all_items if it['t'] != 'x']
        xitems = [it for it in all_items if it['t'] == 'x']
        libs, cases, res = self.libs, self.cases, self.res
        hist = {'raise': 0, 'ok_empty': 0, 'ok_nonempty': 0, 'notes': self.obs_notes}
        opt_hist, kinds = {}, {}
        hist['exit'] = 0
        for it in all_items:
            kind, table = it['obs']
            kinds[it['t']] = kinds.get(it['t'], 0) + 1
            if kind == 'raise':
                hist['raise'] += 1
            elif kind == 'exit':
                hist['exit'] += 1
            else:
                hist['ok_nonempty' if table else 'ok_empty'] += 1
            if it['t'] != 'direct':
                for k, v in describe(it['opts']).items():
                    if k in BOOL_OPTS or k in ('blacklist', 'bed', 'contig', 'byValue', 'splitFeatures', 'max_base_edits'):
                        opt_hist[k] = opt_hist.get(k, 0) + 1
                m = 'joined' if it['opts'].get('joinedFeatureTags') is not None else 'single'
                opt_hist[m] = opt_hist.get(m, 0) + 1
        nreads = sum(len(l['reads']) for l in libs)
        distinct = set()
        for it in all_items:
            kind, table = it['obs']
            if kind == 'ok' and table:
                l0 = it['lib'] if isinstance(it['lib'], int) else it['lib'][0]
                distinct.add(fw.canon_hash([it['t'], json.dumps(it['opts'], sort_keys=True), str(it['lib']),
                                            str(it.get('h')), str(it.get('k')), json.dumps(it.get('x'), sort_keys=True),
                                            json.dumps(libs[l0], sort_keys=True)]))
        weights = {}
        for it in all_items:
            if it['obs'][0] == 'ok':
                for v in it['obs'][1].values():
                    weights[str(v.denominator)] = weights.get(str(v.denominator), 0) + 1
        substr_bv = sum(1 for it in items if it['t'] == 'call' and it['opts'].get('byValue') and it['opts'].get('joinedFeatureTags')
                        and it['opts']['byValue'] not in it['opts']['joinedFeatureTags'].split(',')
                        and it['opts']['byValue'] in it['opts']['joinedFeatureTags'])
        self.cov.update({
            'evaluations': len(all_items), 'distinct_nontrivial': len(distinct),
            'rule': 'one evaluation = one count table produced by the implementation on a synthetic BAM: a create_count_table('
                    'args, return_df=True) call with a fresh namespace (call), one step of a history of calls on ONE namespace '
                    'whose options are edited between the calls (history), or assignReads called directly on every record with '
                    'the caller\'s options (direct), or one create_count_table call of the extended kind (x: 0-3 BAM files, '
                    '-head, --bulk, --showtags, return_df / pickle / pickle.gz / csv output, float typed tags); distinct by '
                    'hash of (kind, options, position in the history, extended options, library); non-trivial = the table '
                    'is non-empty',
            'evaluation_kinds': kinds, 'histories': len(self.hists),
            'byvalue_tag_substring_of_feature_names': substr_bv,
            'libraries': len(libs), 'records': nreads, 'result_histogram': hist, 'option_histogram': opt_hist,
            'cell_denominator_histogram': dict(sorted(weights.items(), key=lambda x: int(x[0]))),
            'exhaustive': False,
            'exhaustive_scope': ('all 2^%d combinations of %s on the fixed %d-record library (%d calls)'
                           % (len(BOOL_OPTS) + 3, BOOL_OPTS + ['minMQ', 'max_base_edits', 'blacklist'],
                              len(fixed_lib()['reads']), self.n_exhaustive)) if self.n_exhaustive else False,
            'corpus_cases': self.n_corpus,
        })
        s = [it for it in items if it['obs'][0] == 'ok' and it['obs'][1] and it['t'] == 'call'][:2] + \
            [it for it in items if it['obs'][0] == 'ok' and it['obs'][1] and it['t'] == 'history' and it['k'] > 0][:1]
        self.cov['samples'] = [{'kind': it['t'], 'opts': describe(it['opts']), 'records': len(self.reads_of(res, it)),
                                'impl_table': [[list(k[0]), list(k[1]), str(v)] for k, v in sorted(it['obs'][1].items(), key=str)][:6]}
                               for it in s]
        xs = [it for it in xitems if it['obs'][0] == 'ok' and it['obs'][1] and it['x'].get('head') is not None
              and it['x'].get('bulk') and it['x'].get('mode') not in ('df', 'csv') and it['opts'].get('byValue') in ('fv', 'dv')][:1] + \
             [it for it in xitems if it['obs'][0] == 'ok' and it['obs'][1] and len(it['lib']) > 1 and it['x'].get('head') is not None][:1]
        self.cov['samples'] += [{'kind': 'x', 'opts': describe(it['opts']), 'x': it['x'],
                                 'records_per_file': [len(f) for f in self.files_of(res, it)],
                                 'impl_table': [[[str(c) for c in k[0]], list(k[1]), str(v)]
                                                for k, v in sorted(it['obs'][1].items(), key=str)][:6]} for it in xs]
        self.cov['extension'] = self.x_histograms(xitems, items)
        if not self.model_ok:
            return
        minputs = [[enc_opts(it['opts']), [enc_read(b) for b in self.reads_of(res, it)]] for it in items]
        mout = fw.run_model('C11', 0, minputs)
        mpre = fw.run_model('C11', 1, minputs)
        callidx = [n for n, it in enumerate(items) if it['t'] == 'call']
        mflt = dict(zip(callidx, fw.run_model('C11', 3, [minputs[n] for n in callidx])))
        dis, fdis, nflt = [], [], 0
        for n, it in enumerate(items):
            if it['obs'] != dec_model(mout[n]):
                dis.append(n)
            if it['t'] == 'call':
                r = res['cases'][it['i']]
                # per-read filter decisions against read_should_be_counted called directly with a fresh namespace
                if r.get('filter') is not None and len(r['filter']) == len(mflt[n]):
                    for j, (fi, fm) in enumerate(zip(r['filter'], mflt[n])):
                        nflt += 1
                        fm = bool(fm[1]) if fm[0] == 0 else ERRNAME.get(fm[1], 'E')
                        if fi != fm:
                            fdis.append((n, j, fi, fm))
        # the proved executable specification (C11_specb_sound) evaluated on the implementation's own output
        sp = fw.run_model('C11', 2, [[minputs[n], enc_out(*items[n]['obs'])] for n in range(len(items))])
        spbad = [n for n, v in enumerate(sp) if v != 1]
        self.cov['specb_on_impl_output'] = {'evaluated': len(sp), 'violated': len(spbad)}
        dis = sorted(set(dis) | set(spbad))
        xdis = self.x_correspondence(xitems)
        self.cov['traces_validated_against_impl'] = len(items) + len(xitems)
        self.cov['filter_decisions_validated'] = nflt
        self.cov['precondition_hit_rate'] = round(sum(1 for v in mpre if v == 1) / max(1, len(mpre)), 4)
        self.cov['disagreements'] = len(dis) + len(fdis) + len(xdis)
        # python transcription of the specification against the model (keeps the search oracle honest)
        bad_oracle = 0
        for n, it in enumerate(items):
            exp = Oracle(it['opts']).table(self.reads_of(res, it))
            if (exp is None) != (mpre[n] == 0):
                bad_oracle += 1
            elif exp is not None and dec_model(mout[n]) != ('ok', exp):
                bad_oracle += 1
        self.cov['oracle_vs_model_mismatches'] = bad_oracle
        if bad_oracle:
            self.notes.append('python oracle and Coq model disagree on %d cases (harness defect)' % bad_oracle)
        small = [n for n in range(len(items)) if len(minputs[n][1]) <= 6]
        idx = sorted(self.rng.sample(small, min(100, len(small))))
        ok, nm, log = fw.vm_crosscheck('C11', 0, [(minputs[n], mout[n]) for n in idx])
        self.cov['vm_compute_crosscheck'] = {'cases': len(idx), 'mismatches': nm}
        if not ok:
            raise fw.Broken('extraction', 'vm_compute and extracted model disagree: ' + log[-800:])
        if bad_oracle:
            raise fw.Broken('harness', 'python oracle and Coq model disagree on %d cases' % bad_oracle)
        if xdis and not (dis or fdis):
            n, m = xdis[0]
            it = xitems[n]
            raise fw.Broken('correspondence', 'model (xrun) and implementation disagree on %d extended calls; first: x case %d '
                            'files=%r opts=%r x=%r: impl=%s model=%s' % (len(xdis), it['i'], it['lib'], describe(it['opts']),
                                                                         it['x'], self.show(it['obs']), self.show(m)))
        if dis or fdis:
            if dis:
                it = items[dis[0]]
                d = '%s %s opts=%r: impl=%s model=%s' % (it['t'], self.where(it), describe(it['opts']), self.show(it['obs']),
                                                          self.show(dec_model(mout[dis[0]])))
            else:
                n, j, fi, fm = fdis[0]
                d = 'read_should_be_counted on record %d of case %d opts=%r: impl=%r model=%r' % (j, items[n]['i'], describe(items[n]['opts']), fi, fm)
            raise fw.Broken('correspondence', 'model and implementation disagree on %d tables and %d filter decisions; first: %s'
                            % (len(dis), len(fdis), d))

    # ---------------------------------------------------------------- K, extension
    def x_histograms(self, xitems, items):
        res = self.res
        modes, heads, nfiles, kinds = {}, {}, {}, {}
        bulk = fl = bvfloat = 0
        for it in xitems:
            x = it['x']
            modes[x.get('mode', 'df')] = modes.get(x.get('mode', 'df'), 0) + 1
            nfiles[str(len(it['lib']))] = nfiles.get(str(len(it['lib'])), 0) + 1
            kinds[it['obs'][0]] = kinds.get(it['obs'][0], 0) + 1
            bulk += bool(x.get('bulk')) and x.get('mode') != 'df'
            if any(self.libs[i].get('floats') for i in it['lib']):
                fl += 1
            h = x.get('head')
            if h is None:
                c = 'none'
            else:
                pres = XOracle(it['opts'], dict(x, head=None)).presented(self.files_of(res, it))
                n = len(pres)
                full = len(XOracle(it['opts'], x).presented(self.files_of(res, it)))
                c = 'negative' if h < 0 else ('cuts' if full < n else 'beyond-the-end')
            heads[c] = heads.get(c, 0) + 1
        for it in list(items) + list(xitems):
            bv = it['opts'].get('byValue')
            if bv and it['obs'][0] == 'ok' and it['obs'][1]:
                files = self.files_of(res, it) if it['t'] == 'x' else [self.reads_of(res, it)]
                if any(isinstance(v, Flt) for f in files for b in f for k, t, v in b['tags'] if k == bv[:2]):
                    bvfloat += 1
        return {'x_calls': len(xitems), 'output_mode': modes, 'files_per_call': nfiles, 'outcome': kinds,
                'bulk_on_file_output': bulk, 'head': heads, 'calls_on_float_tag_libraries': fl,
                'float_tag_libraries': sum(1 for l in self.libs if l.get('floats')),
                'nonempty_tables_by_value_on_a_float_typed_tag': bvfloat}

    def x_inputs(self, xitems):
        return [[enc_x(it['opts'], it['x']), [[enc_read(b) for b in f] for f in self.files_of(self.res, it)]] for it in xitems]

    def x_correspondence(self, xitems):
        """model xrun (mode 5) / proved specification xspecb (mode 7) / python transcription against the implementation"""
        if not xitems:
            return []
        xin = self.x_inputs(xitems)
        xout = fw.run_model('C11', 5, xin)
        xpre = fw.run_model('C11', 6, xin)
        xdis = []
        for n, it in enumerate(xitems):
            m = dec_xmodel(xout[n])
            if it['csv'] and m[0] == 'ok':
                m = ('ok', strkeys(m[1]))
            if it['obs'] != m:
                xdis.append((n, m))
        typed = [n for n, it in enumerate(xitems) if not it['csv']]
        sp = fw.run_model('C11', 7, [[xin[n], enc_xobs(*xitems[n]['obs'])] for n in typed])
        spbad = [typed[k] for k, v in enumerate(sp) if v != 1]
        self.cov['extension']['xspecb_on_impl_outcome'] = {'evaluated': len(sp), 'violated': len(spbad),
                                                          'skipped_csv(keys are text)': len(xitems) - len(typed)}
        known = set(n for n, _ in xdis)
        xdis += [(n, dec_xmodel(xout[n])) for n in spbad if n not in known]
        self.cov['extension']['precondition_hit_rate'] = round(sum(1 for v in xpre if v == 1) / max(1, len(xpre)), 4)
        bad_oracle = 0
        for n, it in enumerate(xitems):
            files = self.files_of(self.res, it)
            xo = XOracle(it['opts'], it['x'])
            exp = xo.outcome(files)
            if (exp is None) != (xpre[n] == 0 and bool(files) and not xo.exits()):
                bad_oracle += 1
            elif exp is not None and dec_xmodel(xout[n]) != exp:
                bad_oracle += 1
        self.cov['extension']['oracle_vs_model_mismatches'] = bad_oracle
        small = [n for n in range(len(xitems)) if sum(len(f) for f in xin[n][1]) <= 6]
        idx = sorted(self.rng.sample(small, min(100, len(small))))
        ok, nm, log = fw.vm_crosscheck('C11', 5, [(xin[n], xout[n]) for n in idx], run_name='run_C11x', require='Model.C11x')
        self.cov['extension']['vm_compute_crosscheck'] = {'cases': len(idx), 'mismatches': nm}
        if not ok:
            raise fw.Broken('extraction', 'vm_compute and extracted model (xrun) disagree: ' + log[-800:])
        if bad_oracle:
            self.notes.append('python oracle (XOracle) and Coq model disagree on %d cases (harness defect)' % bad_oracle)
            raise fw.Broken('harness', 'python oracle (XOracle) and Coq model disagree on %d cases' % bad_oracle)
        return xdis

    @staticmethod
    def where(it):
        if it['t'] == 'history':
            return 'history %d step %d' % (it['h'], it['k'])
        return 'case %d' % it['i']

    @staticmethod
    def show(x):
        kind, t = x
        if kind == 'raise':
            return 'raise ' + str(t)
        if kind == 'exit':
            return 'ended without a table (exit)'
        return str(sorted(([list(k[0]), list(k[1]), str(v)] for k, v in t.items()), key=str))[:700]

    # ---------------------------------------------------------------- search
    def violates(self, opts, reads, kind, table):
        """spec (python transcription) evaluated on an implementation result. returns description or None"""
        exp = Oracle(opts).table(reads)
        if exp is None:
            return None
        if kind == 'raise':
            return 'raised %s; the filter/weight specification gives the table %s' % (table, self.show(('ok', exp)))
        if table != exp:
            diff = sorted(set(table.items()) ^ set(exp.items()), key=str)[:4]
            return 'table differs from the group-by sum over the reads passing the filters: got %s expected %s (diff %s)' % (
                self.show(('ok', table)), self.show(('ok', exp)), [[list(k[0]), list(k[1]), str(v)] for k, v in diff])
        return None

    def search(self):
        if getattr(self, 'items', None) is None:
            self.run_all()
        res, items = self.res, self.items
        bad, xbad = [], []
        for n, it in enumerate(items):
            if it['t'] == 'x':
                files = self.files_of(res, it)
                why = self.violates_x(it['opts'], it['x'], files, it['obs'], it['csv'])
                if why:
                    xbad.append((sum(len(f) for f in files), len(describe(it['opts'])) + len(it['x']), n, why))
                continue
            why = self.violates(it['opts'], self.reads_of(res, it), *it['obs'])
            if why:
                bad.append((len(self.reads_of(res, it)) + (50 if it['t'] == 'history' else 0), len(describe(it['opts'])), n, why))
        if self.model_ok and xbad:
            sel = [b[2] for b in sorted(xbad)[:20] if not items[b[2]]['csv']]
            try:
                sp = fw.run_model('C11', 7, [[self.x_inputs([items[n]])[0], enc_xobs(*items[n]['obs'])] for n in sel])
                self.notes.append('xspecb (mode 7) on the implementation outcome of %d suspicious extended calls: %d violated'
                                  % (len(sel), sum(1 for v in sp if v == 0)))
            except Exception as e:
                self.notes.append('xspecb evaluation failed: %r' % (e,))
        if self.model_ok and bad:
            # the same question put to the proved specification (mode 2 specb) for the first few
            sel = [b[2] for b in sorted(bad)[:20]]
            inp = [[[enc_opts(items[n]['opts']), [enc_read(b) for b in self.reads_of(res, items[n])]], enc_out(*items[n]['obs'])] for n in sel]
            try:
                sp = fw.run_model('C11', 2, inp)
                self.notes.append('specb (mode 2) on the implementation output of %d suspicious cases: %d violated' % (len(sel), sum(1 for v in sp if v == 0)))
            except Exception as e:
                self.notes.append('specb evaluation failed: %r' % (e,))
        seen = set()
        for _, _, n, why in sorted(bad):
            it = items[n]
            cat = it['t'] + ':' + ('raise:' + it['obs'][1] if it['obs'][0] == 'raise' else 'cells')
            if cat in seen:
                continue
            seen.add(cat)
            w = self.shrink(it, why)
            w['key'] = 'table:' + cat
            self.witnesses.append(w)
            if len(self.witnesses) >= 4:
                break
        nx, max_x = 0, (1 if self.witnesses else 3)     # the plain calls already gave witnesses: one extended one suffices
        for _, _, n, why in sorted(xbad):
            it = items[n]
            kind = it['obs'][0]
            cat = 'x:' + ('raise:' + str(it['obs'][1]) if kind == 'raise' else ('exit' if kind == 'exit' else 'cells')) \
                + (':head' if it['x'].get('head') is not None else '') \
                + (':bulk' if (it['x'].get('bulk') and it['x'].get('mode') != 'df') else '') \
                + (':exit-expected' if XOracle(it['opts'], it['x']).exits() else '')
            if cat in seen:
                continue
            seen.add(cat)
            w = self.shrink_x(it, why)
            w['key'] = 'table:' + cat
            self.witnesses.append(w)
            nx += 1
            if nx >= max_x:
                break

    # ---------------------------------------------------------------- search, extension
    def violates_x(self, opts, x, files, obs, csv=False):
        """the extended specification (python transcription XOracle) evaluated on an implementation outcome"""
        xo = XOracle(opts, x)
        exp = xo.outcome(files)
        if exp is None:
            return None
        if csv and exp[0] == 'ok':
            exp = ('ok', strkeys(exp[1]))
        kind, table = obs
        if (kind, table) == exp:
            return None
        if exp[0] == 'raise':
            return 'no alignment file given: ValueError expected, got: %s' % self.show(obs)
        if exp[0] == 'exit':
            return ('--showtags (or neither -o nor return_df): the call must end without counting anything, got: %s'
                    % self.show(obs))
        if kind == 'raise':
            return 'raised %s; the specification gives the table %s' % (table, self.show(exp))
        if kind == 'exit':
            return 'ended without a table; the specification gives the table %s' % self.show(exp)
        if x.get('head') is not None:
            doc = XOracle(opts, dict(x, head_documented=True)).outcome(files)
            if csv and doc and doc[0] == 'ok':
                doc = ('ok', strkeys(doc[1]))
            if doc == (kind, table):
                msg = ('-head now follows its documented meaning (the first N records) on some inputs; Model/C11x.v and the '
                       'C11_head theorems state the coded N+1 (plain) / N+2 (BED) prefix: the model has to follow the source')
                if msg not in self.notes:
                    self.notes.append(msg)
                return None
        diff = sorted(set(table.items()) ^ set(exp[1].items()), key=str)[:4]
        what = ('the Bulkseq column differs from the per-key sum, over all samples, of the contributions of the records handed '
                'to assignReads' if xo.bulk_mode() else
                'table differs from the group-by sum over the records the loops hand to assignReads')
        if x.get('head') is not None:
            what += ' (-head %s: first N+1 records of each file; BED: first N+2 of each region)' % x['head']
        return '%s: got %s expected %s (diff %s)' % (what, self.show(obs), self.show(exp),
                                                     [[list(k[0]), list(k[1]), str(v)] for k, v in diff])

    def rerun_x(self, cands):
        """cands: [(opts, x, [readspec list per file])] -> [(files as pysam sees them, (kind, table), csv)]"""
        libs, xcases = [], []
        for o, x, files in cands:
            ids = []
            for f in files:
                libs.append({'contigs': CONTIGS, 'reads': f})
                ids.append(len(libs) - 1)
            xcases.append({'lib': ids, 'opts': o, 'x': x})
        out = fw.run_impl('impl_c11.py', {'libs': libs, 'cases': [], 'xcases': xcases})
        lift_floats(out['libs'])
        res = []
        for c, r in zip(xcases, out['xcases']):
            kind, table, _ = self.observed_x(r, c['opts'], c['x'])
            res.append(([out['libs'][i] for i in c['lib']], (kind, table), bool(r.get('csv')) or c['x'].get('mode') == 'csv'))
        return res

    def shrink_x(self, it, why):
        """greedy: drop files, drop single records, drop options, while the implementation's outcome still violates the
        extended specification (every candidate is re-run on the implementation)"""
        o, x = dict(it['opts']), dict(it['x'])
        files = [list(self.libs[i]['reads']) for i in it['lib']]
        how = ('create_count_table(args%s) with a fresh options namespace; one coordinate-sorted BAM per entry of `files`; '
               'x.mode: df = return_df=True, pickle / pickle.gz / csv = -o <file>, none = neither'
               % (', return_df=True' if x.get('mode', 'df') == 'df' else ''))

        def pack(o, x, files, obs, why):
            return {'what': why, 'impl': self.show(obs),
                    'input': {'how': how, 'opts': describe(o), 'x': x,
                              'files': [{'contigs': CONTIGS, 'reads': f} for f in files]}}
        best = pack(o, x, files, it['obs'], why)
        try:
            for _ in range(30):
                cands = []
                for k in range(len(files)):
                    if len(files) > 1:
                        cands.append((o, x, files[:k] + files[k + 1:]))
                for k, f in enumerate(files):
                    for j in range(len(f)):
                        cands.append((o, x, files[:k] + [f[:j] + f[j + 1:]] + files[k + 1:]))
                for key in [k for k in describe(o) if k not in ('joinedFeatureTags', 'featureTags', 'sampleTags')]:
                    o2 = dict(o); o2.pop(key)
                    cands.append((o2, x, files))
                for key, val in (('bulk', False), ('showtags', False), ('mode', 'df'), ('head', None)):
                    if x.get(key) not in (val, None):
                        cands.append((o, dict(x, **{key: val}), files))
                cands = cands[:120]
                hit = None
                for (o2, x2, f2), (back, obs, csv) in zip(cands, self.rerun_x(cands)):
                    y = self.violates_x(o2, x2, back, obs, csv)
                    if y:
                        hit = (o2, x2, f2, obs, y, back)
                        break
                if hit is None:
                    break
                o, x, files = hit[0], hit[1], hit[2]
                best = pack(o, x, files, hit[3], hit[4])
                exp = XOracle(o, x).outcome(hit[5])
                best['expected'] = self.show(exp) if exp else None
            return best
        except Exception as e:
            self.notes.append('shrinking (extended call) failed: %r' % (e,))
            return best

    def replay_known(self, finding):
        """D33: -head N hands N+1 records (plain) to assignReads instead of the documented N"""
        if not str(finding.get('key', '')).startswith('D33'):
            return True
        rd = lambda p: {'name': 'r%d' % p, 'flag': 0, 'ref': 0, 'pos': p, 'mapq': 60, 'cigar': '20M', 'tags': [['SM', 'Z', 'c1']]}
        back, obs, _ = self.rerun_x([({'joinedFeatureTags': 'chrom'}, {'head': 1, 'mode': 'df'}, [[rd(10), rd(40), rd(70)]])])[0]
        return obs[0] == 'ok' and sum(obs[1].values()) != 1

    def rerun(self, t, opts_or_steps, contigs, sublibs):
        """run one item kind on several small libraries; returns [(reads as pysam sees them, (kind, table))]"""
        nst = lambda o: len(o.get('sampleTags', 'SM').split(','))
        libs = [{'contigs': contigs, 'reads': c} for c in sublibs]
        if t == 'history':
            out = fw.run_impl('impl_c11.py', {'libs': libs, 'cases': [],
                                              'histories': [{'lib': k, 'steps': opts_or_steps} for k in range(len(libs))]})
            return [(out['libs'][k], self.observed(out['histories'][k][-1], nst(opts_or_steps[-1]))[:2]) for k in range(len(libs))]
        o = opts_or_steps
        cases = [{'lib': k, 'opts': o, 'direct': self.direct_spec(o) if t == 'direct' else None} for k in range(len(libs))]
        out = fw.run_impl('impl_c11.py', {'libs': libs, 'cases': cases})
        obs = []
        for k, r in enumerate(out['cases']):
            if t == 'direct':
                d = r.get('direct') or {'error': 'Unavailable: assignReads could not be called'}
                obs.append((out['libs'][k], ('raise', d['error'].split(':')[0]) if 'error' in d else ('ok', cells_dict(d['raw']))))
            else:
                obs.append((out['libs'][k], self.observed(r, nst(o))[:2]))
        return obs

    def shrink(self, it, why):
        """re-run the implementation on every single record / pair of records of the failing library and on reduced
        option sets (shorter histories); keep the smallest input that still violates the specification"""
        ids = it['lib'] if isinstance(it['lib'], list) else [it['lib']]
        reads = [r for k in ids for r in self.libs[k]['reads']]
        contigs = self.libs[ids[0]]['contigs']
        t = it['t']
        steps = self.hists[it['h']]['steps'][:it['k'] + 1] if t == 'history' else None
        how = {'call': 'create_count_table(args, return_df=True) with a fresh options namespace',
               'direct': 'assignReads called on every record with these options (joinFeatures / featureTags / sampleTags as '
                         'create_count_table derives them)',
               'history': 'create_count_table called once per listed option set on ONE namespace object; between calls only the '
                          'attributes whose requested value changes are assigned; the LAST table is wrong'}[t]

        def pack(opts_or_steps, sub, ob, why):
            inp = {'how': how, 'lib': {'contigs': contigs, 'reads': sub}}
            if t == 'history':
                inp['history'] = [describe(o) for o in opts_or_steps]
            else:
                inp['opts'] = describe(opts_or_steps)
            return {'what': why, 'input': inp, 'impl': self.show(ob)}
        cur = steps if t == 'history' else dict(it['opts'])
        best = pack(cur, reads, it['obs'], why)
        cands = [[r] for r in reads]
        names = {}
        for r in reads:
            names.setdefault(r['name'], []).append(r)
        cands += [v for v in names.values() if len(v) == 2]
        try:
            hit = None
            for sub, (back, ob) in zip(cands, self.rerun(t, cur, contigs, cands)):
                y = self.violates(cur[-1] if t == 'history' else cur, back, *ob)
                if y:
                    hit = (sub, y, ob)
                    break
            if hit is None:
                return best
            sub, why, ob = hit
            best = pack(cur, sub, ob, why)
            for _ in range(10):
                trial = []
                if t == 'history':
                    if len(cur) > 2:
                        trial = [cur[1:], cur[:-2] + cur[-1:]]
                    for j in range(len(cur)):
                        for k in [k for k in describe(cur[j]) if k not in ('joinedFeatureTags', 'featureTags', 'sampleTags')]:
                            if all(k in describe(s) for s in cur):      # an option the whole history shares
                                trial.append([{kk: vv for kk, vv in s.items() if kk != k} for s in cur])
                        break
                else:
                    for k in [k for k in describe(cur) if k not in ('joinedFeatureTags', 'featureTags', 'sampleTags')]:
                        o = dict(cur); o.pop(k)
                        if k == 'minMQ':
                            o['minMQ'] = 0
                        trial.append(o)
                nxt = None
                for tr in trial:
                    back, ob2 = self.rerun(t, tr, contigs, [sub])[0]
                    y = self.violates(tr[-1] if t == 'history' else tr, back, *ob2)
                    if y:
                        nxt = (tr, y, ob2)
                        break
                if nxt is None:
                    break
                cur, why, ob = nxt
                best = pack(cur, sub, ob, why)
            back = self.rerun('call', {'joinedFeatureTags': 'chrom'}, contigs, [sub])[0][0]
            best['expected'] = self.show(('ok', Oracle(cur[-1] if t == 'history' else cur).table(back)))
            return best
        except Exception as e:
            self.notes.append('shrinking failed: %r' % (e,))
            return best
