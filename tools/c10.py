"""C10 - binned count tables: each counted read lands in exactly the bins containing it."""
import os, itertools
import fw, py2coq

UTIL = 'singlecellmultiomics/utils/binning.py'
TABLE = 'singlecellmultiomics/bamProcessing/bamToCountTable.py'


def regen_bins():
    chunks, meta = [], []
    for pre, rel in (('u_', UTIL), ('t_', TABLE)):
        p = os.path.join(fw.REPO, rel)
        t, m = py2coq.translate_function(p, 'coordinate_to_sliding_bin_locations',
                                         coqname=pre + 'sliding_bin_locations', repo_rel=rel)
        chunks.append(t); meta.append(m)
        t, m = py2coq.translate_function(p, 'coordinate_to_bins', coqname=pre + 'coordinate_to_bins',
                                         known_funcs={'coordinate_to_sliding_bin_locations': pre + 'sliding_bin_locations'},
                                         repo_rel=rel)
        chunks.append(t); meta.append(m)
    t, m = py2coq.translate_inline_test(
        os.path.join(fw.REPO, TABLE), 'assignReads', ['keepOverBounds'],
        {'args.keepOverBounds': 'keep', 'args.ref_lengths[read.reference_name]': 'reflen'},
        'skip_bin', '(keep : bool) (start end_ reflen : Z)', repo_rel=TABLE,
        must_use=('keep', 'start', 'end_', 'reflen'), body_is=('continue',))
    chunks.append(t); meta.append(m)
    t, m = regen_split_call()
    chunks.append(t); meta.append(m)
    py2coq.write_gen(os.path.join(fw.COQ, 'Gen', 'GenBins.v'), '', chunks)
    return meta


SPLIT = 'singlecellmultiomics/bamProcessing/split_double_BAM.py'


def regen_split_call():
    """split_double_BAM.py looks a read's bin up as coordinate_to_bins(DS, binsize, binsize)[0]:
    translate the call's argument expressions and the constant subscript."""
    import ast, hashlib
    path = os.path.join(fw.REPO, SPLIT)
    src = open(path).read()
    tree = ast.parse(src)
    imp = [n for n in ast.walk(tree) if isinstance(n, ast.ImportFrom) and n.module and n.module.endswith('bamToCountTable')
           and any(a.name == 'coordinate_to_bins' for a in n.names)]
    if len(imp) != 1:
        raise py2coq.Untranslatable('split_double_BAM: coordinate_to_bins is not imported from bamToCountTable')
    subs = [n for n in ast.walk(tree) if isinstance(n, ast.Subscript) and isinstance(n.value, ast.Call)
            and isinstance(n.value.func, ast.Name) and n.value.func.id == 'coordinate_to_bins']
    if len(subs) != 1:
        raise py2coq.Untranslatable('split_double_BAM: expected exactly one subscripted coordinate_to_bins call, found %d' % len(subs))
    n = subs[0]
    if not (isinstance(n.slice, ast.Constant) and isinstance(n.slice.value, int) and n.slice.value >= 0) \
            or len(n.value.args) != 3 or n.value.keywords:
        raise py2coq.Untranslatable('split_double_BAM: call form outside subset')
    tr = py2coq.ExprTranslator(env={"R1.get_tag('DS')": 'ds', 'args.binsize': 'binsize'})
    a = [tr.z(x) for x in n.value.args]
    seg = ast.get_source_segment(src, n)
    sha = hashlib.sha256(seg.encode()).hexdigest()
    text = ('(* source: %s line %d sha256 %s\n   %s *)\nDefinition split_double_bin (ds binsize : Z) : option (Z * Z) :=\n'
            '  nth_error (t_coordinate_to_bins %s %s %s) %d%%nat.' % (SPLIT, n.lineno, sha, seg, a[0], a[1], a[2], n.slice.value))
    return text, {'source': SPLIT, 'lines': [n.lineno, n.end_lineno], 'sha256': sha, 'coq': 'split_double_bin'}


class Prop(fw.PropBase):
    ID = 'C10'
    PROPS = 'Props/C10.v'
    TRUSTED = [
        'py2coq division idioms: int(np.floor(a/b)) -> Z.div, int(np.ceil(a/b)) -> -((-a)/b): assumes the IEEE quotient '
        'of two integers below 2^52 followed by floor/ceil equals the exact floor/ceil (watched by sampling up to 2^40)',
        'modelled not verified: pysam BAM reading, pandas DataFrame construction, the read filters of '
        'assignReads (C11), collections.Counter accumulation',
    ]
    ASSUMPTIONS = ['0 < sliding increment <= bin size (the command line does not enforce it; s > b leaves gaps by design)']

    def regen(self):
        return regen_bins()

    # ---------------------------------------------------------------- generators
    def kernel_cases(self):
        quick = self.tier == 'quick'
        N = 300 if quick else 1500
        B = 24 if quick else 64
        cases = []
        for b in range(1, B + 1):
            for s in range(1, b + 1):
                if quick and b > 8 and (b * 7 + s) % 5:
                    continue
                step = 1 if b <= 8 else (3 if quick else 1)
                for dp in itertools.chain(range(-2 * b - 1, 3 * b + 2), range(3 * b + 2, N, step)):
                    cases.append((dp, b, s))
        # large coordinates, boundary biased
        for _ in range(400 if quick else 5000):
            b = self.rng.choice([1, 2, 3, 10, 100, 1000, 250000, 10 ** 6, self.rng.randint(1, 10 ** 7)])
            s = self.rng.choice([b, max(1, b // 2), max(1, b // 3), self.rng.randint(max(1, b // 40), b)])
            k = self.rng.randint(0, 2 ** 40 // b)
            dp = self.rng.choice([k * b, k * b - 1, k * b + 1, k * s, k * s + b, self.rng.randint(0, 2 ** 40)])
            cases.append((dp, b, s))
        # s > b (outside the theorem's precondition; model and code must still agree)
        for _ in range(100):
            b = self.rng.randint(1, 20); s = self.rng.randint(b + 1, 50)
            cases.append((self.rng.randint(-50, 300), b, s))
        return cases

    def table_cases(self):
        """histories of create_count_table calls in ONE process on ONE reused options namespace; each call
        reads 1-2 synthetic BAMs, each with 1-2 contigs of different length (the same contig name may have
        different lengths in different files); reads carry DS values on bin multiples, 0, contig ends"""
        n = 20 if self.tier == 'quick' else 150
        out = []
        for _ in range(n):
            calls = []
            b0 = self.rng.choice([1, 2, 5, 10, 30, 100])
            for c in range(self.rng.choice([1, 1, 2, 3])):
                b = b0 if self.rng.random() < 0.7 else self.rng.choice([1, 2, 5, 10, 30, 100])
                s = self.rng.choice([None, None, b, max(1, b // 2), max(1, b // 3), 1])
                bams = []
                for f in range(self.rng.choice([1, 1, 2])):
                    contigs = []
                    for cn in range(self.rng.choice([1, 2, 2])):
                        contigs.append(['chr%d' % (cn + 1), self.rng.choice([b * 7, b * 7 + 3, b * 3, 95, 200, b * 12 + 1])])
                    reads = []
                    for r in range(self.rng.randint(4, 25)):
                        ci = self.rng.randrange(len(contigs))
                        reflen = contigs[ci][1]
                        other_lens = [x[1] for x in contigs] + [reflen]
                        L = self.rng.choice(other_lens)
                        k = self.rng.randint(0, max(0, L // b))
                        ds = self.rng.choice([k * b, k * b - 1, k * b + 1, 0, L, L - 1, L - b, L - b + 1, 3,
                                              self.rng.randint(-3, L + 3)])
                        reads.append({'ds': ds, 'contig': ci, 'pos': self.rng.randint(0, reflen - 1),
                                      'sample': 'c%d' % self.rng.randint(0, 2), 'paired': self.rng.random() < 0.5,
                                      'other': self.rng.choice(['x', 'y'])})
                    bams.append({'contigs': contigs, 'reads': reads})
                bintag = self.rng.choice(['DS', 'DS', 'fe', 'reference_start', 'reference_end'])
                feats = [f for f in ['reference_name', 'XX'] if self.rng.random() < 0.5]
                self.rng.shuffle(feats)
                if self.rng.random() < 0.5 or not feats:
                    feats.insert(self.rng.randint(0, len(feats)), bintag)   # bin tag listed explicitly or auto-appended
                calls.append({'bin': b, 'sliding': s, 'bams': bams, 'keep': self.rng.random() < 0.35,
                              'divide': self.rng.random() < 0.5, 'bintag': bintag, 'features': feats})
            out.append({'calls': calls, 'extra_tag': True})
        # directed: every kind of bin tag (SAM tags DS / fe, read attributes reference_start / reference_end),
        # auto-appended (not listed among the feature tags) next to attribute-named features
        for bintag in ['DS', 'fe', 'reference_start', 'reference_end']:
            for feats in (['reference_name'], ['XX', 'reference_name'], ['reference_name', bintag]):
                b = self.rng.choice([2, 5, 10])
                contigs = [['chr1', b * 6], ['chr2', b * 4 + 1]]
                reads = [{'ds': self.rng.choice([0, b, b - 1, 2 * b, b * 4, 3]), 'contig': self.rng.randrange(2),
                          'pos': self.rng.choice([0, b, b * 4 - 1, self.rng.randint(0, b * 4 - 1)]),
                          'sample': 'c%d' % self.rng.randint(0, 2), 'paired': self.rng.random() < 0.5,
                          'other': self.rng.choice(['x', 'y'])} for _ in range(8)]
                out.append({'calls': [{'bin': b, 'sliding': self.rng.choice([None, max(1, b // 2)]),
                                       'bams': [{'contigs': contigs, 'reads': reads}], 'keep': self.rng.random() < 0.5,
                                       'divide': self.rng.random() < 0.5, 'bintag': bintag, 'features': list(feats)}],
                            'extra_tag': True})
        return out

    # ---------------------------------------------------------------- K
    def correspondence(self):
        cases = self.kernel_cases()
        tables = self.table_cases()
        res = fw.run_impl('impl_c10.py', {'kernel': cases, 'tables': tables})
        self.impl_res, self.cases, self.tables = res, cases, tables
        boundary = sum(1 for dp, b, s in cases if dp % s == 0 or (dp - b) % s == 0)
        distinct = len(set(cases))
        self.cov.update({
            'evaluations': len(cases) * 2 + sum(len(h['calls']) for h in tables),
            'distinct_nontrivial': len(set(c for c in cases if c[0] % c[2] == 0 or (c[0] - c[1]) % c[2] == 0)),
            'rule': 'kernel: (dp,b,s) exhaustive for small b (all s<=b, dp around -2b..N) plus boundary-biased samples up to '
                    '2^40, both copies of coordinate_to_bins; table: histories of 1-3 create_count_table(return_df) calls in one process on one reused options namespace, 1-2 synthetic BAMs per call, 1-2 contigs of different lengths per BAM. '
                    'non-trivial = coordinate on a window boundary (dp mod s = 0 or (dp-b) mod s = 0); distinct by tuple',
            'kernel_cases': len(cases), 'kernel_distinct': distinct, 'on_boundary': boundary,
            'precondition_hit_rate': round(sum(1 for c in cases if 0 < c[2] <= c[1]) / len(cases), 4),
            'table_histories': len(tables),
            'samples': [{'input': list(cases[i]), 'impl': res['kernel_u'][i]} for i in (0, len(cases) // 2, len(cases) - 150)],
            'exhaustive': False,
        })
        if not self.model_ok:
            return
        mu = fw.run_model('C10', 0, [[0] + list(c) for c in cases])
        mt = fw.run_model('C10', 0, [[1] + list(c) for c in cases])
        dis = []
        for i, c in enumerate(cases):
            if mu[i] != res['kernel_u'][i]:
                dis.append({'fn': 'utils.binning.coordinate_to_bins', 'input': list(c), 'model': mu[i], 'impl': res['kernel_u'][i]})
            if mt[i] != res['kernel_t'][i]:
                dis.append({'fn': 'bamToCountTable.coordinate_to_bins', 'input': list(c), 'model': mt[i], 'impl': res['kernel_t'][i]})
        # table level: every call of every history
        ncalls = 0
        for i, h in enumerate(tables):
            impl_calls = res['tables'][i]
            mins = [self.table_model_input(h, c) for c in h['calls']]
            mouts = fw.run_model('C10', 2, mins)
            for j, c in enumerate(h['calls']):
                ncalls += 1
                impl = impl_calls[j]
                if impl.get('error'):
                    dis.append({'fn': 'create_count_table', 'input': h, 'call': j, 'impl_error': impl['error']})
                    continue
                got = sorted([k, v] for k, v in impl['cells'])
                exp = sorted(self.decode_table(h, c, mouts[j]))
                if got != exp:
                    dis.append({'fn': 'create_count_table', 'input': h, 'call': j, 'model': exp, 'impl': got})
        self.cov['table_calls'] = ncalls
        self.cov['table_calls_with_several_files_or_contig_lengths'] = sum(
            1 for h in tables for c in h['calls'] if len(set(x[1] for bm in c['bams'] for x in bm['contigs'])) > 1)
        self.cov['table_histories_with_several_calls'] = sum(1 for h in tables if len(h['calls']) > 1)
        self.cov['traces_validated_against_impl'] = len(cases) * 2 + ncalls
        self.cov['disagreements'] = len(dis)
        # vm_compute cross-check of the extracted binary on a sample
        idx = sorted(self.rng.sample(range(len(cases)), 100))
        ok, nm, log = fw.vm_crosscheck('C10', 0, [([1] + list(cases[i]), mt[i]) for i in idx])
        self.cov['vm_compute_crosscheck'] = {'cases': len(idx), 'mismatches': nm}
        if not ok:
            raise fw.Broken('extraction', 'vm_compute and extracted model disagree: ' + log[-800:])
        if dis:
            self.dis = dis
            raise fw.Broken('correspondence', 'model and implementation disagree on %d cases; first: %r' % (len(dis), dis[0]))

    SAMPLES = ['c0', 'c1', 'c2']

    @staticmethod
    def coord(c, r):
        """the value of the bin tag of read r in call c: DS / fe are SAM tags holding r['ds'];
        reference_start / reference_end are read attributes (1 bp reads)"""
        if c['bintag'] == 'reference_start':
            return r['pos']
        if c['bintag'] == 'reference_end':
            return r['pos'] + 1
        return r['ds']

    @staticmethod
    def keyof(c, bm, r):
        """the non-bin feature values of the read, in the order of the requested feature tags"""
        out = []
        for f in c['features']:
            if f == c['bintag']:
                continue
            out.append(bm['contigs'][r['contig']][0] if f == 'reference_name' else r['other'])
        return out

    def table_model_input(self, h, c):
        # weights in half units: paired & mate mapped & fragments divided -> 1 half, else 2 halves
        s = c['sliding'] if c['sliding'] is not None else c['bin']
        reads = []
        self._keys = []
        for bm in c['bams']:
            for r in bm['reads']:
                w = 1 if (c['divide'] and r['paired']) else 2
                k = [r['sample'], self.keyof(c, bm, r)]
                if k not in self._keys:
                    self._keys.append(k)
                reads.append([self.coord(c, r), w, self._keys.index(k), bm['contigs'][r['contig']][1]])
        c['_keys'] = self._keys
        return [1 if c['keep'] else 0, c['bin'], s, reads]

    def decode_table(self, h, c, mv):
        out = []
        for key, lo, hi, w in mv:
            sample, feats = c['_keys'][key]
            out.append([[sample, feats, lo, hi], w])
        return out

    # ---------------------------------------------------------------- search
    def search(self):
        """spec evaluated on the implementation's own output (no model needed):
        bins(dp,b,s) must be exactly the windows [i*s, i*s+b) containing dp."""
        res = getattr(self, 'impl_res', None)
        if res is None:
            self.cases, self.tables = self.kernel_cases(), self.table_cases()
            res = fw.run_impl('impl_c10.py', {'kernel': self.cases, 'tables': self.tables})
        best = None
        for name, outs in (('utils.binning.coordinate_to_bins', res['kernel_u']), ('bamToCountTable.coordinate_to_bins', res['kernel_t'])):
            for c, o in zip(self.cases, outs):
                dp, b, s = c
                if not (0 < s <= b):
                    continue
                exp = [[i * s, i * s + b] for i in range((dp - b) // s + 1, dp // s + 1)]
                if o != exp and (best is None or abs(dp) + b + s < best[0]):
                    best = (abs(dp) + b + s, {'key': 'bins:%s' % name, 'what': '%s(%d,%d,%d) = %r, windows containing the coordinate = %r'
                                               % (name, dp, b, s, o, exp), 'input': [dp, b, s], 'impl': o, 'expected': exp})
        if best:
            self.witnesses.append(best[1])
        for h, impl_calls in zip(self.tables, res['tables']):
            bad = False
            for j, (c, impl) in enumerate(zip(h['calls'], impl_calls)):
                if impl.get('error'):
                    self.witnesses.append({'key': 'table:error', 'what': 'create_count_table raised %s in call %d of the history' % (impl['error'], j), 'input': h})
                    bad = True
                    break
                s = c['sliding'] if c['sliding'] is not None else c['bin']
                exp = {}
                for bm in c['bams']:
                    for r in bm['reads']:
                        w = 1 if (c['divide'] and r['paired']) else 2
                        reflen = bm['contigs'][r['contig']][1]
                        dp = self.coord(c, r)
                        for i in range((dp - c['bin']) // s + 1, dp // s + 1):
                            lo, hi = i * s, i * s + c['bin']
                            if not c['keep'] and (lo < 0 or hi > reflen):
                                continue
                            k = (r['sample'], tuple(self.keyof(c, bm, r)), lo, hi)
                            exp[k] = exp.get(k, 0) + w
                got = {(k[0], tuple(k[1]), k[2], k[3]): v for k, v in impl['cells']}
                if got != exp:
                    diff = sorted(set(got.items()) ^ set(exp.items()), key=str)[:4]
                    self.witnesses.append({'key': 'table:cells', 'what': 'call %d of %d (one process, one options namespace): count table differs from the '
                                           'windows containing each read inside its own contig: %r' % (j, len(h['calls']), diff), 'input': h})
                    bad = True
                    break
            if bad:
                break
