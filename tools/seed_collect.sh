#!/bin/sh
# usage: seed_collect.sh Cxx [first-number]  -- store round-4 seeded changes under seeded/Cxx-<n> and drop the worktree
p=$1; n=${2:-11}
for k in 1 2 3 4; do
  d=/tmp/seedwork_${p}r4/m$k
  if [ -f $d/patch.diff ] && [ -f $d/demo.py ] && [ -f $d/meta.json ]; then
    mkdir -p /verif/seeded/$p-$n && cp $d/patch.diff $d/demo.py $d/meta.json /verif/seeded/$p-$n/
    for extra in $d/*.py; do [ "$(basename $extra)" != demo.py ] && [ "$(basename $extra)" != apply.py ] && cp $extra /verif/seeded/$p-$n/ 2>/dev/null; done
    n=$((n+1))
  fi
done
[ -f /tmp/seedwork_${p}r4/demo_common.py ] && for d in /verif/seeded/$p-1[1-4]; do cp /tmp/seedwork_${p}r4/demo_common.py $d/ 2>/dev/null; done
git -C /repo worktree remove --force /tmp/seed4_$p 2>/dev/null
rm -rf /tmp/seedwork_${p}r4
ls -d /verif/seeded/$p-1[1-9] | tr '\n' ' '; echo
