"""runs the REAL tagger for C08: the molecule loop of run_tagging_task on scripted molecules,
utils.binning.bp_chunked, and synthetic scmo-style NLA libraries through the serial command, the
region-tiling API and --multiprocess (job lists and per-task writes captured by wrapping
tagging.generate_tasks / tagging.run_tagging_task from here; nothing inside /repo is touched).

payload: {'loops': [...], 'chunks': [...], 'libs': [...]}
"""
import os, sys, io, json, hashlib, random, shutil, contextlib
import fw

PER_RUN_TAGS = ('mi', 'ix')      # per-run molecule identifiers (mi: serial only, ix: job-local index)
SHOW_TAGS = ('DS', 'RS', 'RZ', 'RC', 'af', 'TF', 'RG', 'SM', 'RX', 'MX', 'RR', 'ms', 'TR', 'rt', 'rd', 'rp', 'mI')


# ------------------------------------------------------------------ molecule loop on scripted molecules
class _Frag:
    def __init__(self, site):
        self.site = None if site is None else (site[0], site[1])

    def get_site_location(self):
        return self.site

    def get_read_group(self, *a, **k):
        return 'rg'


class _Mol:
    def __init__(self, idx, sites, log):
        self.idx, self.frags, self.log = idx, [_Frag(s) for s in sites], log

    def __iter__(self):
        return iter(self.frags)

    def __len__(self):
        return len(self.frags)

    def set_meta(self, *a, **k):
        pass

    def write_tags(self):
        pass

    def write_pysam(self, output, **k):
        self.log.append(self.idx)


def run_loop(case, tagging):
    log = []
    seen = {}

    class It:
        def __init__(self, alignments, contig=None, start=None, end=None, progress_callback_function=None, **kw):
            seen['window'] = [contig, start, end]
            self.m = [_Mol(i, s, log) for i, s in enumerate(case['mols'])]

        def __iter__(self):
            return iter(self.m)
    t = case['task']
    kw = dict(zip(('contig', 'start', 'end', 'fetch_start', 'fetch_end'), t))
    try:
        st = tagging.run_tagging_task(object(), object(), molecule_iterator_class=It, molecule_iterator_args={},
                                      read_groups=None, **kw)
        return {'written': log, 'window': seen.get('window'), 'n': st.get('total_molecules_written')}
    except BaseException as e:
        return {'error': '%s: %s' % (type(e).__name__, e)}


# ------------------------------------------------------------------ synthetic libraries
BARCODES = ['ACTCGATG', 'TTGACCAA', 'GGCATTAC']


def qname(i, sample, umi):
    bc = BARCODES[sample]
    return ('Is:NS500414;RN:518;Fc:H2GV2BGX9;La:1;Ti:11101;CX:%d;CY:%d;Fi:N;CN:0;aa:CCGTCC;aA:CCGTCC;aI:2;LY:LIB1;'
            'RX:%s;RQ:GGG;BI:%d;bc:%s;BC:%s;QT:GGKKKKKK;MX:NLAIII384C8U3' % (1000 + i, 2000 + i, umi, sample + 1, bc, bc))


def mkseq(n, catg, rev, seed):
    r = random.Random(seed)
    body = ''.join(r.choice('ACGT') for _ in range(n))
    body = body.replace('ATG', 'ACG')
    if n >= 4:
        if rev:
            body = body[:-4] + ('CATG' if catg else 'CTTG')
            if not catg:
                body = 'CT' + body[2:]
        else:
            body = ('CATG' if catg else 'CTTG') + body[4:]
            if not catg:
                body = body[:-2] + 'CT'
    return body


def write_bam(path, lib):
    """lib = {'contigs': [[name, len], ...], 'frags': [frag, ...]}
    frag = {'contig': name|None, 'start': int, 'len': int, 'rev': bool, 'catg': bool, 'sample': int, 'umi': str,
            'r2': None | {'start': int, 'len': int} | {'unmapped': True} | {'contig': name, 'start': int, 'len': int},
            'dup': bool}   contig None = unmapped without coordinates (r2 truthy -> unmapped pair)"""
    import pysam
    contigs = lib['contigs']
    h = pysam.AlignmentHeader.from_dict({'HD': {'VN': '1.6', 'SO': 'coordinate'},
                                         'SQ': [{'SN': c, 'LN': l} for c, l in contigs]})
    names = [c for c, _ in contigs]
    recs = []
    BIG = 10 ** 12
    for i, f in enumerate(lib['frags']):
        qn = qname(i, f['sample'], f['umi'])
        r2 = f.get('r2')
        if f['contig'] is None:
            a = pysam.AlignedSegment(h)
            a.query_name = qn
            a.query_sequence = mkseq(30, True, False, i)
            a.query_qualities = pysam.qualitystring_to_array('I' * 30)
            a.flag = 4
            if r2:
                a.flag = 1 | 4 | 8 | 64
                b = pysam.AlignedSegment(h)
                b.query_name = qn
                b.query_sequence = mkseq(30, False, False, i + 7)
                b.query_qualities = pysam.qualitystring_to_array('I' * 30)
                b.flag = 1 | 4 | 8 | 128
                recs.append((BIG, 0, 2 * i + 1, b))
            recs.append((BIG, 0, 2 * i, a))
            continue
        cid = names.index(f['contig'])
        if f.get('placed'):
            # unmapped record placed on a contig (at the coordinate of a mate that is not in the file): 'single' is an
            # unpaired record, 'paired' a read 1 whose mate is said to be mapped at the same coordinate
            a = pysam.AlignedSegment(h)
            a.query_name = qn
            a.query_sequence = mkseq(30, True, False, i)
            a.query_qualities = pysam.qualitystring_to_array('I' * 30)
            a.reference_id = cid
            a.reference_start = f['start']
            a.flag = 4 if f['placed'] == 'single' else (1 | 4 | 32 | 64)
            if f['placed'] != 'single':
                a.next_reference_id = cid
                a.next_reference_start = f['start']
            recs.append((cid, f['start'], 2 * i, a))
            continue
        a = pysam.AlignedSegment(h)
        a.query_name = qn
        a.query_sequence = mkseq(f['len'], f['catg'], f['rev'], i)
        a.query_qualities = pysam.qualitystring_to_array('I' * f['len'])
        a.reference_id = cid
        a.reference_start = f['start']
        a.mapping_quality = 60
        a.cigartuples = [(0, f['len'])]
        fl = 16 if f['rev'] else 0
        if f.get('dup'):
            fl |= 1024
        if r2 is not None:
            b = pysam.AlignedSegment(h)
            b.query_name = qn
            if r2.get('unmapped'):
                # mate unmapped, placed at the position of the mapped read
                b.query_sequence = mkseq(30, False, False, i + 100000)
                b.query_qualities = pysam.qualitystring_to_array('I' * 30)
                b.reference_id = cid
                b.reference_start = f['start']
                b.flag = 1 | 4 | 128 | (32 if f['rev'] else 0)
                b.next_reference_id = cid
                b.next_reference_start = f['start']
                fl |= 1 | 8 | 64
                a.next_reference_id = cid
                a.next_reference_start = f['start']
                recs.append((cid, f['start'], 2 * i + 1, b))
            else:
                cid2 = names.index(r2.get('contig', f['contig']))
                b.query_sequence = mkseq(r2['len'], False, False, i + 100000)
                b.query_qualities = pysam.qualitystring_to_array('I' * r2['len'])
                b.reference_id = cid2
                b.reference_start = r2['start']
                b.mapping_quality = 60
                b.cigartuples = [(0, r2['len'])]
                fl |= 1 | 64 | (0 if f['rev'] else 32)
                b.flag = 1 | 128 | (32 if f['rev'] else 16)
                if cid2 == cid:
                    fl |= 2
                    b.flag |= 2
                    lo = min(f['start'], r2['start'])
                    hi = max(f['start'] + f['len'], r2['start'] + r2['len'])
                    a.template_length = (hi - lo) * (1 if f['start'] <= r2['start'] else -1)
                    b.template_length = -a.template_length
                a.next_reference_id = cid2
                a.next_reference_start = r2['start']
                b.next_reference_id = cid
                b.next_reference_start = f['start']
                recs.append((cid2, r2['start'], 2 * i + 1, b))
        a.flag = fl
        recs.append((cid, f['start'], 2 * i, a))
    recs.sort(key=lambda x: (x[0], x[1], x[2]))
    with pysam.AlignmentFile(path, 'wb', header=h) as o:
        for _, _, _, a in recs:
            o.write(a)
    pysam.index(path)


def canon(path):
    """{rid: [digest, shown]}; rid = 2*fragment index + mate (from the CX tag the demultiplexer format carries)"""
    import pysam
    out = {}
    dup_rids = []
    with pysam.AlignmentFile(path) as f:
        for r in f.fetch(until_eof=True):
            tags = {k: (round(v, 6) if isinstance(v, float) else (v if isinstance(v, (int, str)) else str(v)))
                    for k, v in r.get_tags() if k not in PER_RUN_TAGS}
            rid = 2 * (int(tags['CX']) - 1000) + (1 if r.is_read2 else 0)
            rec = [r.query_name, r.flag, r.reference_id, r.reference_start, r.next_reference_id, r.next_reference_start,
                   r.cigarstring, sorted(tags.items())]
            dig = hashlib.sha256(json.dumps(rec, sort_keys=True).encode()).hexdigest()[:16]
            shown = {'flag': r.flag, 'ref': r.reference_id, 'pos': r.reference_start}
            for t in SHOW_TAGS:
                if t in tags:
                    shown[t] = tags[t]
            shown['_all'] = {k: v for k, v in tags.items()}
            if str(rid) in out:
                dup_rids.append(rid)
                out[str(rid) + '#%d' % len(dup_rids)] = [dig, shown]
            else:
                out[str(rid)] = [dig, shown]
    return out


def diff(ser, par):
    """human readable differences of a parallel output against the serial one"""
    d = []
    for rid in sorted(set(ser) | set(par), key=lambda x: (len(x), x)):
        if rid not in par:
            d.append({'rid': rid, 'what': 'missing in parallel output', 'serial': _brief(ser[rid][1])})
        elif rid not in ser:
            d.append({'rid': rid, 'what': 'extra in parallel output', 'parallel': _brief(par[rid][1])})
        elif ser[rid][0] != par[rid][0]:
            a, b = ser[rid][1], par[rid][1]
            ch = {k: [a['_all'].get(k), b['_all'].get(k)] for k in set(a['_all']) | set(b['_all'])
                  if a['_all'].get(k) != b['_all'].get(k)}
            for k in ('flag', 'ref', 'pos'):
                if a[k] != b[k]:
                    ch[k] = [a[k], b[k]]
            d.append({'rid': rid, 'what': 'differs', 'serial_vs_parallel': ch})
    return d


def _brief(s):
    return {k: v for k, v in s.items() if k != '_all'}


class Recorder:
    def __init__(self, target, log):
        self._t, self._log = target, log

    def write(self, read):
        cx = int(read.get_tag('CX')) if read.has_tag('CX') else None
        self._log.append(None if cx is None else 2 * (cx - 1000) + (1 if read.is_read2 else 0))
        return self._t.write(read)

    def __getattr__(self, k):
        return getattr(self._t, k)


def nla_iterator_args():
    import singlecellmultiomics.molecule, singlecellmultiomics.fragment
    return {'query_name_flagger': None, 'molecule_class': singlecellmultiomics.molecule.NlaIIIMolecule,
            'fragment_class': singlecellmultiomics.fragment.NlaIIIFragment,
            'molecule_class_args': {'umi_hamming_distance': 1, 'reference': None},
            'fragment_class_args': {'read_group_format': 0},
            'yield_invalid': True, 'yield_overflow': True, 'start': None, 'end': None, 'contig': None,
            'every_fragment_as_molecule': False, 'skip_contigs': set(), 'progress_callback_function': None,
            'pooling_method': 1, 'perform_allele_clustering': False}


def run_lib(n, case, tm, tagging, scratch):
    d = os.path.join(scratch, 'lib%d' % n)
    os.makedirs(d, exist_ok=True)
    inp = os.path.join(d, 'in.bam')
    res = {'runs': []}
    try:
        write_bam(inp, case['lib'])
        ser = os.path.join(d, 'serial.bam')
        tm.run_multiome_tagging_cmd([inp, '-method', 'nla', '-o', ser])
        serial = canon(ser)
        res['serial'] = {k: v[0] for k, v in serial.items()}
        res['serial_shown'] = {} if case.get('deep') else {k: _brief(v[1]) for k, v in serial.items()}
    except BaseException as e:
        res['error'] = 'serial: %s: %s' % (type(e).__name__, e)
        return res
    for k, run in enumerate(case['runs']):
        out = os.path.join(d, 'run%d.bam' % k)
        tmp = os.path.join(d, 'tmp%d' % k)
        os.makedirs(tmp, exist_ok=True)
        captured = {}
        tasklog = []
        orig_gen, orig_task = tm.generate_tasks, tagging.run_tagging_task

        def gen(*a, **kw):
            # record the jobs while the implementation consumes them; the job list object is handed on as it is
            # consumed (lazily when it is a generator), so this wrapper neither repairs nor causes exhaustion
            src, rec = kw['job_gen'], []
            captured['jobs'] = rec

            def passthrough():
                for job in src:
                    job = list(job)
                    rec.append([list(t) for t in job])
                    yield job
            kw['job_gen'] = passthrough()
            return orig_gen(*a, **kw)

        def task(alignments, output, **kw):
            log = []
            st = orig_task(alignments, Recorder(output, log), **kw)
            tasklog.append([[kw.get('contig'), kw.get('start'), kw.get('end'), kw.get('fetch_start'), kw.get('fetch_end')], log])
            return st
        tm.generate_tasks = gen
        tagging.run_tagging_task = task
        r = {}
        try:
            # options that only concern bookkeeping and must not change the output: where the temporary files go, the
            # job BED file (.bed / .bed.gz), ignore_bam_issues, the (unused) molecule_iterator argument
            if run.get('nested_tmp'):
                tmp = os.path.join(tmp, 'a', 'b.c')
                os.makedirs(tmp, exist_ok=True)
            bed = os.path.join(d, 'jobs%d.%s' % (k, run['job_bed'])) if run.get('job_bed') else None
            if run['mode'] == 'tiled':
                tm.tag_multiome_multi_processing(
                    input_bam_path=inp, out_bam_path=out, molecule_iterator=(tm.MoleculeIterator if run.get('pass_iterator', True) else None),
                    molecule_iterator_args=nla_iterator_args(), fragment_size=run['fragment_size'],
                    bp_per_job=run['bp_per_job'], bp_per_segment=run['bp_per_segment'], temp_folder_root=tmp,
                    use_pool=run['use_pool'], one_contig_per_process=False, additional_args={'consensus_mode': None},
                    n_threads=run['n_threads'], job_bed_file=bed, ignore_bam_issues=bool(run.get('ignore_bam_issues')))
            else:
                tm.run_multiome_tagging_cmd([inp, '-method', 'nla', '-o', out, '--multiprocess', '-tagthreads',
                                             str(run['n_threads']), '-temp_folder', tmp])
                # (--ignore_bam_issues is not used on the command line: run_multiome_tagging opens the input with
                #  ignore_truncation=True, threads=4, which pysam 0.24 refuses for serial and parallel runs alike)
            if bed is not None:
                import gzip
                if os.path.exists(bed):
                    with (gzip.open(bed, 'rt') if bed.endswith('.gz') else open(bed)) as fh:
                        r['bed'] = [l.rstrip('\n').split('\t') for l in fh]
                else:
                    r['bed'] = None
            r['tmp_left'] = sorted(os.listdir(tmp))
            par = canon(out) if os.path.exists(out) else {}
            r['out'] = {k: v[0] for k, v in par.items()}
            r['diff'] = diff(serial, par)[:12]
            r['n_diff'] = len(diff(serial, par))
        except BaseException as e:
            r['error'] = '%s: %s' % (type(e).__name__, e)
        finally:
            tm.generate_tasks, tagging.run_tagging_task = orig_gen, orig_task
        r['jobs'] = captured.get('jobs')
        r['tasklog'] = tasklog if not (run['mode'] == 'tiled' and run['use_pool']) and run['mode'] != 'cpp' and not case.get('deep') else None
        res['runs'].append(r)
    shutil.rmtree(d, ignore_errors=True)
    return res


def run_d11(tm, scratch):
    """finding D11 on the real code: Molecule + FragmentStartPosition (the classes of method qflag) through the region-tiling
    API; the unmapped placed mate has no site (get_site_location -> None)"""
    import singlecellmultiomics.molecule, singlecellmultiomics.fragment
    d = os.path.join(scratch, 'd11')
    os.makedirs(d, exist_ok=True)
    lib = {'contigs': [['chr1', 200000], ['chr2', 200000]], 'frags': [
        dict(contig='chr1', start=100, len=40, rev=False, catg=True, sample=0, umi='ACG', r2=None, dup=False),
        dict(contig='chr1', start=1700, len=40, rev=False, catg=True, sample=1, umi='TTT', r2={'unmapped': True}, dup=False),
        dict(contig='chr2', start=300, len=40, rev=False, catg=True, sample=1, umi='TTT', r2=None, dup=False)]}
    inp = os.path.join(d, 'in.bam')
    write_bam(inp, lib)

    def args():
        a = nla_iterator_args()
        a.update({'molecule_class': singlecellmultiomics.molecule.Molecule,
                  'fragment_class': singlecellmultiomics.fragment.FragmentStartPosition, 'every_fragment_as_molecule': True})
        return a
    out = {}
    try:
        tm.tag_multiome_single_thread(inp, os.path.join(d, 'ser.bam'), molecule_iterator=tm.MoleculeIterator, molecule_iterator_args=args())
        out['serial'] = sorted(canon(os.path.join(d, 'ser.bam')), key=int)
        for name, ocp in (('tiled', False), ('contig_per_process', True)):
            tm.tag_multiome_multi_processing(
                input_bam_path=inp, out_bam_path=os.path.join(d, name + '.bam'), molecule_iterator=tm.MoleculeIterator,
                molecule_iterator_args=args(), fragment_size=100, bp_per_job=100000, bp_per_segment=100000, temp_folder_root=d,
                use_pool=False, one_contig_per_process=ocp, additional_args={'consensus_mode': None}, n_threads=1)
            out[name] = sorted(canon(os.path.join(d, name + '.bam')), key=int)
    except BaseException as e:
        out['error'] = '%s: %s' % (type(e).__name__, e)
    return out


def run_gen(c, bp_chunked):
    """the region generator as run_multiome_tagging calls it (no blacklist): regions and the bp_chunked jobs"""
    try:
        from singlecellmultiomics.bamProcessing.bamBinCounts import blacklisted_binning_contigs
        contigs = [(n, l) for n, l in c['contigs']]
        regions = [list(t) for t in blacklisted_binning_contigs(contig_length_resource=contigs, bin_size=c['bs'],
                                                                fragment_size=c['f'], blacklist_path=None, contig_whitelist=None)]
        jobs = [[list(t) for t in job] for job in bp_chunked([tuple(t) for t in regions], c['bp'])]
        return {'regions': regions, 'jobs': jobs}
    except BaseException as e:
        return {'error': '%s: %s' % (type(e).__name__, e)}


def handler(p):
    scratch = os.environ.get('SCMO_SCRATCH', '.')
    real_stdout = sys.stdout
    sys.stdout = open(os.devnull, 'w')
    try:
        import pysam
        pysam.set_verbosity(0)
        import singlecellmultiomics.universalBamTagger.tagging as tagging
        import singlecellmultiomics.universalBamTagger.bamtagmultiome as tm
        from singlecellmultiomics.utils.binning import bp_chunked
        tm.sleep = lambda s: None        # the 5 s pause before the temp dir is removed
        loops = [run_loop(c, tagging) for c in p.get('loops', [])]
        chunks = []
        for c in p.get('chunks', []):
            try:
                chunks.append([[list(t) for t in job] for job in bp_chunked([tuple(t) for t in c['tasks']], c['bp'])])
            except BaseException as e:
                chunks.append({'error': '%s: %s' % (type(e).__name__, e)})
        gens = [run_gen(c, bp_chunked) for c in p.get('gens', [])]
        libs = [run_lib(n, c, tm, tagging, scratch) for n, c in enumerate(p.get('libs', []))]
        d11 = run_d11(tm, scratch) if p.get('d11') else None
    finally:
        sys.stdout = real_stdout
    return {'loops': loops, 'chunks': chunks, 'libs': libs, 'd11': d11, 'gens': gens}


if __name__ == '__main__':
    fw.impl_main(handler)
