"""C16 - feature lookups return exactly the overlapping features after any add history.

K: random and small-exhaustive operation histories (addFeature / sort / findFeaturesAt / findFeaturesBetween /
findFeaturesAtPysamAlign on real pysam reads / FeatureAnnotatedMolecule.annotate) are run on the REAL
FeatureContainer and on the extracted Coq machine [run_ops cfg_fixed] (mode 0); the traces must agree answer by
answer.  The specification the theorems state (brute force over everything added so far) is evaluated on the
implementation's answers as well: through the model (mode 2, [spec_run]) in correspondence() and through a direct
Python transcription in search() (no model needed there)."""
import os, json, itertools, collections
import fw

ERR = {'TypeError': 1, 'OverflowError': 2}


# ----------------------------------------------------------------------------- helpers shared by K and search
def cigar_blocks(pos, cigar):
    """half open reference blocks of the aligned (M/=/X) operations, as pysam's get_blocks()"""
    out, p = [], pos
    for o, l in cigar:
        if o in (0, 7, 8):
            out.append([p, p + l]); p += l
        elif o in (2, 3):
            p += l
    return out


def merged_closed(blocks):
    """Molecule.get_aligned_blocks(): closed runs of consecutive aligned positions"""
    pos = sorted(set(p for a, b in blocks for p in range(a, b)))
    out = []
    for p in pos:
        if out and out[-1][1] == p - 1:
            out[-1][1] = p
        else:
            out.append([p, p])
    return out


def annot_strand(stranded, reverse):
    # strand = None if stranded is None else '+-'[(not self.strand if self.stranded else self.strand)]
    if stranded == 0:
        return 0
    s = (not reverse) if stranded == 2 else reverse
    return 2 if s else 1


def model_ops(op):
    """one harness op -> list of model ops (Val encoding of Model/C16.v dec_op)"""
    k = op[0]
    if k == 'add':
        return [[0, op[1], [op[2], op[3], op[4], op[5], op[6]]]]
    if k == 'sort':
        return [[1]]
    if k == 'at':
        return [[2, op[1], op[2], op[3], op[4]]]
    if k == 'between':
        return [[3, op[1], op[2], op[3], op[4]]]
    if k == 'blocks':
        _, c, pos, cigar, q, meth = op
        return [[4, c, cigar_blocks(pos, cigar), q, 0 if meth == 0 else 1]]
    if k == 'annot':
        _, c, pos, cigar, stranded, reverse, meth = op
        q = annot_strand(stranded, reverse)
        bl = cigar_blocks(pos, cigar)
        if meth == 0:   # findFeaturesBetween on every closed run of aligned bases
            return [[3, c, a, b, q] for a, b in merged_closed(bl)]
        # findFeaturesAt on every aligned base: same queries as findFeaturesAtPysamAlign(method=0)
        return [[2, c, p, q, 0] for a, b in bl for p in range(a, b)]
    raise ValueError(op)


def wf_history(ops):
    """Python transcription of hist_wfb (Model/C16.v): precondition of C16_history"""
    feats = []
    for op in ops:
        k = op[0]
        if k == 'add':
            _, c, s, e, n, st, d = op
            if not (s <= e and 0 <= e):
                return False
            if 0 <= st <= 2:
                feats.append((c, s, e, n, st))
        elif k == 'at' and not (0 <= op[4] <= 2):
            return False
        elif k == 'between' and not op[2] <= op[3]:
            return False
    seen = {}
    for c, s, e, n, st in feats:
        seen.setdefault((c, s, e, n), set()).add(st == 0)
    return all(len(v) == 1 for v in seen.values())


def spec_answer(all_feats, op):
    """the specification of C16 (statement of the theorems): brute force over everything added so far.
    returns ('list'|'set'|'hits', sorted answer)"""
    def match(q, f):
        return q == 0 or f[3] == q
    k = op[0]
    fs = [f for c, f in all_feats if c == op[1]]
    if k == 'at':
        _, c, x, q, o = op
        r = [f for f in fs if f[0] <= x <= f[1] and match(q, f)]
        return ('list', sorted(r)) if o == 0 else ('set', sorted(set(r)))
    if k == 'between':
        _, c, a, b, q = op
        return 'set', sorted(set(f for f in fs if max(a, f[0]) <= min(b, f[1]) and match(q, f)))
    if k in ('blocks', 'annot'):
        if k == 'blocks':
            _, c, pos, cigar, q, meth = op
        else:
            _, c, pos, cigar, stranded, reverse, meth = op
            q = annot_strand(stranded, reverse)
        bases = [p for a, b in cigar_blocks(pos, cigar) for p in range(a, b)]
        r = set(f for f in fs if match(q, f) and any(f[0] <= p <= f[1] for p in bases))
        if k == 'annot':
            return 'hits', sorted(set(f[4] for f in r))
        return 'set', sorted(r)
    return None


def check_case_against_spec(ops, impl):
    """first answer of the implementation that is not the specification's; None if all are"""
    allf = []
    for i, (op, r) in enumerate(zip(ops, impl)):
        k = op[0]
        if k == 'add':
            bad = not 0 <= op[5] <= 2
            if bad != ('error' in r and r['error'].startswith('ValueError')):
                return i, 'addFeature: %r' % (r,), None
            if not bad:
                allf.append((op[1], (op[2], op[3], op[4], op[5], op[6])))
            continue
        if 'error' in r:
            return i, 'raised ' + r['error'], None
        if k == 'sort':
            continue
        kind, exp = spec_answer(allf, op)
        if kind == 'hits':
            got = r['hits']
        else:
            got = [tuple(t) for t in r['ok']]
            if kind == 'set' and len(set(got)) != len(got):
                return i, 'duplicates in a set valued answer', exp
            got = sorted(got)
        if [list(t) if isinstance(t, tuple) else t for t in got] != [list(t) if isinstance(t, tuple) else t for t in exp]:
            return i, got, exp
    return None


def classify(ops, impl):
    """None, or (stable key, index of the failing call, answer, expected) for a history inside the precondition"""
    if not wf_history(ops):
        return None
    f = check_case_against_spec(ops, impl)
    if not f:
        return None
    i, got, exp = f
    if isinstance(got, str):
        cls = 'raise' if got.startswith('raised') else 'malformed'
    else:
        g = set(map(str, got)); e = set(map(str, exp))
        cls = 'missing' if e - g and not g - e else 'extra' if g - e and not e - g else 'different'
    return '%s:%s' % (ops[i][0], cls), i, got, exp


def shrink_with(run, ops, key):
    """greedy delta debugging of a history; [run] executes a history on the real implementation"""
    def bad(c):
        f = classify(c, run(c))
        return f is not None and f[0] == key
    cur = list(ops)
    f = classify(cur, run(cur))
    cur = cur[:f[1] + 1]
    chunk = max(1, len(cur) // 2)
    while True:
        i, progressed = 0, False
        while i < len(cur) - 1:
            cand = cur[:i] + cur[i + chunk:-1] + cur[-1:] if i + chunk < len(cur) else cur[:i] + cur[-1:]
            if len(cand) < len(cur) and bad(cand):
                cur, progressed = cand, True
            else:
                i += chunk
        if chunk == 1 and not progressed:
            break
        chunk = max(1, chunk // 2) if not progressed else chunk
    return cur


class Prop(fw.PropBase):
    ID = 'C16'
    PROPS = 'Props/C16.v'
    TRUSTED = [
        'modelled not verified: numpy (np.searchsorted on an ascending array = index of the first element >= v; np.fromiter / '
        'np.max / argsort), Python list.sort on tuples (= the unique ascending arrangement; raises TypeError iff a None strand '
        'meets a str strand behind equal (start, end, name)), set()/list(set) (= duplicate removal, order ignored), '
        'functools.lru_cache(maxsize=512) (LRU list keyed on the logical arguments (contig, coordinate, strand, optim); the '
        'dependence of the real key on positional/keyword call shape is not modelled, the harness uses one shape per query)',
        'modelled not verified: pysam AlignedSegment.get_blocks()/get_aligned_pairs(matches_only=True) (half open M/=/X blocks and '
        'exactly their bases - re-checked on every generated read), Molecule.get_aligned_blocks() (closed runs of aligned bases), '
        'Molecule.strand (= is_reverse of the read)',
        'the lru_cache is shared by all FeatureContainer instances: other instances can only evict entries or (after the fix) '
        'clear the cache; the proved invariant (every cached answer is the answer of the current index) is stable under removal',
        'feature names and data objects are abstracted to integers in an order preserving way (harness: names n%06d, data '
        '((gene_id, g%06d),)); contig names to integers',
        'not modelled: the fourth, unnamed lookup variant of _findFeaturesAt (optim not in bdbnb/nb/optim), findNearest*, '
        'annotateUTRs (rewrites feature data in place), GTF/BED loaders (they call addFeature + sort)',
    ]
    ASSUMPTIONS = [
        'coordinates are Python ints with |x| < 2^53 (int64/uint64/float64 conversions in numpy are exact there); the model uses Z',
        'features satisfy start <= end and 0 <= end (otherwise sort() raises ValueError / OverflowError: modelled as Raise, outside the theorem)',
        'no two features of one contig share (start, end, name) while exactly one of them has strand None (list.sort raises TypeError: modelled as Raise)',
        'range queries have sampleStart <= sampleEnd; every pysam block is non empty (start < end)',
    ]

    # ------------------------------------------------------------------ generators
    def gen_feature(self, U, nstrand, pool):
        r = self.rng
        if pool and r.random() < 0.18:      # identical copy / same interval other name or strand
            c, s, e, n, st, d = r.choice(pool)
            m = r.random()
            if m < 0.4:
                return [c, s, e, n, st, d]
            if m < 0.7:
                return [c, s, e, r.randint(0, 30), st, r.randint(0, 30)]
            return [c, s, e, n, (r.choice([1, 2]) if st else 0), d]
        c = r.choice(self.contigs)
        s = r.randint(0, U)
        L = r.choice([0, 0, 1, 1, 2, 3, r.randint(0, max(1, U // 4)), r.randint(0, U), r.randint(0, 2 * U)])
        if pool and r.random() < 0.3:       # nest inside / share an end with an existing feature
            _, ps, pe, _, _, _ = r.choice(pool)
            s = r.choice([ps, pe, ps + 1, max(0, pe - 1), r.randint(min(ps, pe), max(ps, pe))])
            L = r.choice([0, 1, max(0, pe - s), max(0, pe - s - 1), L])
        st = 0 if nstrand else r.choice([1, 1, 2])
        return [c, s, s + L, r.randint(0, 30), st, r.randint(0, 30)]

    def gen_query(self, U, pool, asked):
        r = self.rng
        c = r.choice(self.contigs + [7]) if r.random() < 0.1 else r.choice(self.contigs)
        q = r.choice([0, 0, 0, 1, 2]) if r.random() < 0.97 else 3

        def coord():
            m = r.random()
            if pool and m < 0.55:
                _, s, e, _, _, _ = r.choice(pool)
                return r.choice([s, e, s - 1, e + 1, s + 1, e - 1])
            if m < 0.65:
                return r.randint(-U - 3, -1)
            if m < 0.75:
                return r.randint(U, 3 * U + 5)
            return r.randint(-2, U + 2)
        m = r.random()
        if asked and m < 0.30:      # ask an earlier question again (what a stale memo would answer wrongly)
            return list(r.choice(asked))
        if m < 0.62:
            return ['at', c, coord(), q, r.choice([0, 0, 0, 0, 1, 1, 2])]
        if m < 0.84:
            a, b = coord(), coord()
            if a > b and r.random() < 0.93:
                a, b = b, a
            return ['between', c, a, b, q]
        cigar, pos = self.gen_cigar(max(0, coord()))
        if m < 0.93:
            return ['blocks', c, pos, cigar, q, r.choice([0, 1, 1])]
        return ['annot', c, pos, cigar, r.choice([0, 0, 1, 2]), r.random() < 0.5, r.choice([0, 0, 1])]

    def gen_cigar(self, pos):
        r = self.rng
        cig = []
        if r.random() < 0.2:
            cig.append([4, r.randint(1, 3)])
        for i in range(r.choice([1, 1, 2, 2, 3, 4])):
            if i:
                cig.append([r.choice([1, 2, 3, 3]), r.randint(1, 6)])
            cig.append([r.choice([0, 0, 0, 7, 8]), r.randint(1, 7)])
        if r.random() < 0.2:
            cig.append([4, r.randint(1, 3)])
        return cig, pos

    def gen_case(self, size=None):
        r = self.rng
        U = r.choice([6, 12, 30, 30, 100, 1000, 10 ** 6])
        self.contigs = list(range(r.choice([1, 1, 2, 3, 5])))
        nstrand = r.random() < 0.15
        total = size if size is not None else r.choice([1, 2, 3, 5, 8, 12, 20, 40, 80, 200])
        rounds = r.choice([1, 2, 2, 3, 3, 4])
        ops, pool, asked = [], [], []
        left = total
        for rd in range(rounds):
            n = left if rd == rounds - 1 else r.randint(0 if rd else 1, max(1, left // 2))
            left -= n
            for _ in range(n):
                f = self.gen_feature(U, nstrand, pool)
                pool.append(f)
                ops.append(['add'] + f)
                if r.random() < 0.04:          # a query between two additions, no explicit sort
                    qy = self.gen_query(U, pool, asked); asked.append(qy); ops.append(qy)
            m = r.random()
            if m < 0.75:
                ops.append(['sort'])
            elif m < 0.8:
                ops += [['sort'], ['sort']]
            for _ in range(r.choice([2, 4, 8, 12, 20])):
                qy = self.gen_query(U, pool, asked); asked.append(qy); ops.append(qy)
                if r.random() < 0.03:
                    ops.append(['sort'])
        return ops

    def gen_error_case(self):
        """histories that leave the theorem's precondition: the model must still agree (Raise kinds)"""
        r = self.rng
        ops = self.gen_case(size=r.choice([2, 4, 8]))
        i = r.randint(0, len(ops))
        c = r.choice(self.contigs)
        m = r.random()
        if m < 0.25:
            bad = [['add', c, r.randint(-9, 5), r.randint(-9, -1), 1, 1, 1]]                # negative end
        elif m < 0.5:
            s = r.randint(3, 20)
            bad = [['add', c, s, s - r.randint(1, 3), 1, 1, 1]]                             # inverted
        elif m < 0.75:
            bad = [['add', c, 4, 9, 5, 0, 1], ['add', c, 4, 9, 5, r.choice([1, 2]), 1]]     # None vs str strand
        else:
            bad = [['add', c, 4, 9, 5, 3, 1]]                                               # invalid strand
        return ops[:i] + bad + ops[i:] + [['sort'], ['at', c, 5, 0, 0]]

    def exhaustive_cases(self, K, two_second):
        """every pair (first round feature, second round feature(s)) over coordinates 0..K-1, one contig, asked at every
        point and every range before and after the second round; both with and without an explicit re-index"""
        ivs = [(s, e) for s in range(K) for e in range(s, K)]
        pts = list(range(-1, K + 1))
        qs = [['at', 0, x, 0, 0] for x in pts] + [['between', 0, a, b, 0] for a in pts for b in pts if a <= b]
        cases = []
        seconds = [[iv] for iv in ivs] + ([[i1, i2] for i1 in ivs for i2 in ivs if i1 <= i2] if two_second else [])
        for (s1, e1) in ivs:
            for n, sec in enumerate(seconds):
                ops = [['add', 0, s1, e1, 1, 1, 1], ['sort']] + qs
                ops += [['add', 0, s, e, 2 + j, 1 + (j % 2), 2] for j, (s, e) in enumerate(sec)]
                if n % 2:
                    ops.append(['sort'])
                ops += qs
                cases.append(ops)
        return cases

    def long_case(self):
        """more than 512 distinct questions: the LRU bound of the cache is reached"""
        r = self.rng
        self.contigs = [0, 1]
        ops, pool = [], []
        for rd in range(2):
            for _ in range(15):
                f = self.gen_feature(60, False, pool); pool.append(f); ops.append(['add'] + f)
            ops.append(['sort'])
            for x in range(-5, 150):
                for c in (0, 1):
                    ops.append(['at', c, x, r.choice([0, 1, 2]), 0])
            ops += [['at', 0, x, 0, 0] for x in range(0, 40)]
        return ops

    def all_cases(self):
        quick = self.tier == 'quick'
        corpus = []
        d = os.path.join(fw.VERIF, 'corpus', 'C16')
        if os.path.isdir(d):
            for fn in sorted(os.listdir(d)):
                if fn.endswith('.json'):
                    corpus.append(json.load(open(os.path.join(d, fn)))['ops'])
        rnd = [self.gen_case() for _ in range(260 if quick else 10000)]
        err = [self.gen_error_case() for _ in range(40 if quick else 1000)]
        exh = self.exhaustive_cases(3, False) if quick else self.exhaustive_cases(5, False) + self.exhaustive_cases(4, True)
        lng = [self.long_case() for _ in range(1 if quick else 6)]
        self.groups = {'corpus': len(corpus), 'random': len(rnd), 'error_paths': len(err), 'exhaustive': len(exh), 'lru_bound': len(lng)}
        return corpus + rnd + err + exh + lng

    # ------------------------------------------------------------------ K
    def run_impl_cases(self, cases):
        n = max(1, min(fw.NPROC, 8, len(cases) // 40 + 1))
        chunks = [cases[i::n] for i in range(n)]
        from concurrent.futures import ThreadPoolExecutor
        with ThreadPoolExecutor(max_workers=n) as ex:
            outs = list(ex.map(lambda ch: fw.run_impl('impl_c16.py', {'cases': ch}), chunks))
        res = [None] * len(cases)
        for j, o in enumerate(outs):
            for i, r in enumerate(o['results']):
                res[j + i * n] = r
        self.impl_file = outs[0]['file']
        return res

    @staticmethod
    def canon_impl(op, r):
        """implementation answer -> the model's result encoding (order kept for the list valued default lookup)"""
        k = op[0]
        if 'error' in r:
            name = r['error'].split(':')[0]
            if name == 'ValueError':
                return [1, 4 if k == 'add' else 3]
            return [1, ERR.get(name, 99)]
        if k == 'annot':
            return ['hits', r['hits']]
        if k == 'at' and op[4] == 0:
            return [0, r['ok']]
        return [0, sorted(r['ok'])]

    @staticmethod
    def canon_model(op, ms):
        k = op[0]
        for m in ms:
            if m[0] == 1:
                if k == 'annot' and op[6] == 0 and m[1] == 1:
                    return ['hits', []]      # annotate(method=0) swallows TypeError ("no reads map")
                return m
        if k == 'annot':
            return ['hits', sorted(set(f[4] for m in ms for f in m[1]))]
        if k == 'at' and op[4] == 0:
            return [0, ms[0][1]]
        return [0, sorted(ms[0][1])]

    def correspondence(self):
        cases = self.all_cases()
        impl = self.run_impl_cases(cases)
        self.cases, self.impl = cases, impl
        cov = self.cov
        nq = sum(1 for c, r in zip(cases, impl) for op in c[:len(r)] if op[0] not in ('add', 'sort'))
        hist_feats = collections.Counter()
        hist_kind = collections.Counter()
        hist_ans = collections.Counter()
        hist_contigs = collections.Counter()
        requery = 0
        pysam_bad = []
        nontrivial = set()
        for c, r in zip(cases, impl):
            nf = sum(1 for op in c if op[0] == 'add')
            hist_feats['<=2' if nf <= 2 else '<=5' if nf <= 5 else '<=20' if nf <= 20 else '<=80' if nf <= 80 else '<=200'] += 1
            hist_contigs[len(set(op[1] for op in c if op[0] == 'add'))] += 1
            seen, dirty, state = {}, set(), []
            for op, a in zip(c, r):
                k = op[0]
                hist_kind[k] += 1
                if k == 'add':
                    state.append(tuple(op[1:]))
                    dirty = set(seen)
                    continue
                if k == 'sort' or 'error' in a:
                    continue
                key = json.dumps(op)
                if key in dirty:
                    requery += 1
                    dirty.discard(key)
                seen[key] = 1
                size = len(a['hits']) if k == 'annot' else len(a['ok'])
                hist_ans['0' if size == 0 else '1' if size == 1 else '2-4' if size <= 4 else '5-19' if size <= 19 else '20+'] += 1
                if size:
                    nontrivial.add(fw.canon_hash([sorted(state), op]))
                if k == 'blocks':
                    _, cc, pos, cigar, q, meth = op
                    bl = cigar_blocks(pos, cigar)
                    if a['get_blocks'] != bl or a['pairs'] != [p for x, y in bl for p in range(x, y)]:
                        pysam_bad.append([op, a['get_blocks']])
        pre = [wf_history(c) for c in cases]
        cov.update({
            'evaluations': nq,
            'distinct_nontrivial': len(nontrivial),
            'rule': 'one evaluation = one query answered by the real container inside a history and compared with the model. '
                    'non-trivial = the answer is not empty; distinct by hash of (sorted feature multiset at that moment, query)',
            'histories': len(cases), 'groups': self.groups,
            'features_per_history': dict(hist_feats), 'contigs_per_history': {str(k): v for k, v in hist_contigs.items()},
            'ops': dict(hist_kind), 'answer_size': dict(hist_ans),
            'queries_repeated_after_a_later_addFeature': requery,
            'precondition_hit_rate': round(sum(pre) / len(pre), 4),
            'pysam_block_contract_violations': len(pysam_bad),
            'implementation_file': self.impl_file,
            'exhaustive': False,
            'exhaustive_small_scope': 'every (first feature; second round of 1%s features) over coordinates 0..%d, all points and ranges asked '
                          'before and after the second round' % ('' if self.tier == 'quick' else ' (0..4) or 1-2 (0..3)', 2 if self.tier == 'quick' else 4),
            'samples': [{'history': c[:14], 'impl': r[:14]} for c, r in list(zip(cases, impl))[self.groups['corpus']:self.groups['corpus'] + 2]],
        })
        if pysam_bad:
            raise fw.Broken('correspondence', 'pysam get_blocks / get_aligned_pairs differ from the modelled contract: %r' % pysam_bad[0])
        if not self.model_ok:
            return
        # model runs
        mcases, spans = [], []
        for c in cases:
            mo, sp = [], []
            for op in c:
                e = model_ops(op)
                sp.append((len(mo), len(mo) + len(e)))
                mo += e
            mcases.append(mo); spans.append(sp)
        mres = fw.run_model('C16', 0, mcases)
        mpre = fw.run_model('C16', 1, mcases)
        mspec = fw.run_model('C16', 2, mcases)
        if [bool(x) for x in mpre] != pre:
            i = [bool(x) for x in mpre].index(not pre[0]) if False else next(j for j in range(len(pre)) if bool(mpre[j]) != pre[j])
            raise fw.Broken('correspondence', 'harness precondition and hist_wfb differ on %r' % (cases[i][:30],))
        dis, specdis, compared = [], [], 0
        for ci, (c, r) in enumerate(zip(cases, impl)):
            for oi, (op, a) in enumerate(zip(c, r)):
                lo, hi = spans[ci][oi]
                gi = self.canon_impl(op, a)
                gm = self.canon_model(op, mres[ci][lo:hi])
                compared += 1
                if gi != gm:
                    dis.append({'case': ci, 'op_index': oi, 'op': op, 'impl': gi, 'model': gm})
                    break
                if pre[ci] and op[0] not in ('add', 'sort'):
                    ms = mspec[ci][lo:hi]
                    if op[0] == 'annot':
                        want = ['hits', sorted(set(f[4] for m in ms for f in m[1]))]
                        got = gi
                    else:
                        want = [0, ms[0][1]]
                        got = [0, sorted(gi[1])] if gi[0] == 0 else gi
                        if op[0] == 'blocks' or op[0] == 'annot':
                            pass
                    if got != want:
                        specdis.append({'case': ci, 'op_index': oi, 'op': op, 'impl': got, 'spec': want})
                        break
                if op[0] != 'add' and ('error' in a or any(m[0] == 1 for m in mres[ci][lo:hi])):
                    break       # the object is left half indexed after an exception inside sort(): not compared further
            if pre[ci] and any('error' in a for op, a in zip(c, r) if op[0] != 'add'):
                specdis.append({'case': ci, 'op': 'exception inside the precondition', 'impl': r[-1]})
        cov['traces_validated_against_impl'] = len(cases)
        cov['answers_compared'] = compared
        cov['disagreements'] = len(dis)
        cov['spec_disagreements'] = len(specdis)
        idx = sorted(self.rng.sample(range(len(cases)), min(100, len(cases))), key=lambda i: len(mcases[i]))
        small = [i for i in idx if len(mcases[i]) <= 120][:100]
        ok, nm, log = fw.vm_crosscheck('C16', 0, [(mcases[i], mres[i]) for i in small])
        cov['vm_compute_crosscheck'] = {'cases': len(small), 'mismatches': nm}
        if not ok:
            raise fw.Broken('extraction', 'vm_compute and extracted model disagree: ' + log[-800:])
        self.dis = dis + specdis
        if dis:
            # diagnosis only: does the tree behave like the code before the repairs (model switches all off, mode 3)?
            try:
                bad = sorted(set(d['case'] for d in dis))
                m3 = fw.run_model('C16', 3, [mcases[i] for i in bad])
                same = 0
                for j, ci in enumerate(bad):
                    ok3 = True
                    for oi, (op, a) in enumerate(zip(cases[ci], impl[ci])):
                        lo, hi = spans[ci][oi]
                        if self.canon_impl(op, a) != self.canon_model(op, m3[j][lo:hi]):
                            ok3 = False
                            break
                        if op[0] != 'add' and ('error' in a or any(m[0] == 1 for m in m3[j][lo:hi])):
                            break
                    same += ok3
                self.notes.append('%d of the %d disagreeing histories are reproduced answer by answer by the model of the '
                                  'unrepaired code (cfg_head: no cache clear D19, no re-index in range/read lookups D32, '
                                  'inclusive block end D20)' % (same, len(bad)))
            except Exception as e:
                self.notes.append('cfg_head diagnosis failed: %r' % (e,))
            raise fw.Broken('correspondence', 'model and implementation disagree on %d histories; first: %s'
                            % (len(dis), json.dumps({k: (cases[v][:40] if k == 'case' else v) for k, v in dis[0].items()})[:1500]))
        if specdis:
            raise fw.Broken('correspondence', 'implementation answers differ from the specification (spec_run) on %d histories; first: %s'
                            % (len(specdis), json.dumps(specdis[0])[:1500]))

    # ------------------------------------------------------------------ search (no model)
    def search(self):
        """the specification (Python transcription of spec_at / spec_between / spec_blocks of Model/C16.v, see
        spec_answer) is evaluated on the implementation's own answers; the smallest failing history of every failure
        class is shrunk by delta debugging inside one process on the real implementation"""
        cases = getattr(self, 'cases', None)
        impl = getattr(self, 'impl', None)
        if cases is None:
            cases = self.all_cases()
            impl = self.run_impl_cases(cases)
        found = {}
        for c, r in zip(cases, impl):
            f = classify(c, r)
            if f and (f[0] not in found or f[1] < found[f[0]][1]):
                found[f[0]] = (c, f[1])
        # one witness per kind of call first (at / between / blocks / annot), then the remaining classes
        keys, rest = [], sorted(found)
        while rest and len(keys) < 5:
            kinds = set()
            for k in list(rest):
                if k.split(':')[0] not in kinds:
                    kinds.add(k.split(':')[0]); keys.append(k); rest.remove(k)
        todo = [[k, found[k][0]] for k in keys[:5]]
        if not todo:
            return
        out = fw.run_impl('impl_c16.py', {'shrink': todo})
        for (key, c), small in zip(todo, out['shrunk']):
            f = classify(small['ops'], small['impl'])
            if f is None:
                continue
            k2, i, got, exp = f
            ops = small['ops']
            if exp is None:
                what = ('after the history %s the call %s: %s; the history is inside the precondition of C16_history, where every '
                        'call returns normally' % (json.dumps(ops[:i]), json.dumps(ops[i]), got))
            else:
                what = ('after the history %s the call %s returns %s; the specification (features of everything added so far that '
                        'overlap the query) is %s' % (json.dumps(ops[:i]), json.dumps(ops[i]), json.dumps(got), json.dumps(exp)))
            self.witnesses.append({
                'key': k2,
                'what': what,
                'input': ops[:i + 1], 'impl': got, 'expected': exp})
