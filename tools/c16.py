"""C16 - feature lookups return exactly the overlapping features after any add history.
(extension, second half of this file: loadGTF / loadBED on real text files, findNearest*Feature, findFeaturesBetweenBRK -
Model/C16x.v, correspondence_x / search_x)

K: random and small-exhaustive operation histories (addFeature / sort / findFeaturesAt / findFeaturesBetween /
findFeaturesAtPysamAlign on real pysam reads / FeatureAnnotatedMolecule.annotate) are run on the REAL
FeatureContainer and on the extracted Coq machine [run_ops cfg_fixed] (mode 0); the traces must agree answer by
answer.  The specification the theorems state (brute force over everything added so far) is evaluated on the
implementation's answers as well: through the model (mode 2, [spec_run]) in correspondence() and through a direct
Python transcription in search() (no model needed there)."""
import os, json, itertools, collections, ast, hashlib
import fw, py2coq
from py2coq import Untranslatable

ERR = {'TypeError': 1, 'OverflowError': 2}

# ============================================================================= T: translator tie
# The kernel the window lemmas hinge on is regenerated from the current source into coq/Gen/GenFeatures.v on every run;
# Model/C16.v is written in terms of these definitions and Proofs/C16_a.v ("shape lemmas") connects them to the
# reference kernel the large proofs are about.  Anything not of the expected shape raises Untranslatable (fail closed).
SRC = 'singlecellmultiomics/features/features.py'
CLS = 'FeatureContainer'
E_STARTS = 'self.startCoordinates[chromosome]'
E_ENDS = 'self.endCoordinates[chromosome]'
E_N = 'len(self.features[chromosome])'
E_FEAT_I = 'self.features[chromosome][i]'


def _sha(t):
    return hashlib.sha256(t.encode()).hexdigest()


class _Gen:
    def __init__(self, repo):
        self.path = os.path.join(repo, SRC)
        self.src = open(self.path).read()
        self.tree = ast.parse(self.src)
        self.chunks, self.meta = [], []

    def fn(self, name):
        f = py2coq.find_function(self.tree, CLS + '.' + name)
        if not isinstance(f, ast.FunctionDef):
            raise Untranslatable('%s is not a function' % name)
        return f

    def emit(self, node, coqname, params, body, note=''):
        seg = ast.get_source_segment(self.src, node) or ast.unparse(node)
        self.chunks.append('(* source: %s line %d-%d sha256 %s %s\n   %s *)\nDefinition %s %s :=\n  %s.' % (
            SRC, node.lineno, node.end_lineno, _sha(seg), note, ' '.join(seg.split()).replace('*)', '* )')[:300],
            coqname, params, body))
        self.meta.append({'source': SRC, 'lines': [node.lineno, node.end_lineno], 'sha256': _sha(seg), 'coq': coqname})

    # ---- small recognisers
    @staticmethod
    def body_wo_doc(f):
        b = list(f.body)
        if b and isinstance(b[0], ast.Expr) and isinstance(b[0].value, ast.Constant) and isinstance(b[0].value.value, str):
            b = b[1:]
        return b

    @staticmethod
    def is_autosort(st):
        return (isinstance(st, ast.If) and ast.unparse(st.test) == 'not self.sorted' and not st.orelse
                and len(st.body) == 1 and ast.unparse(st.body[0]) == 'self.sort()')

    def autosort_first(self, fname, coqname):
        """true iff the first statement re-indexes an unsorted container; a re-index anywhere else is not recognised as one"""
        f = self.fn(fname)
        b = self.body_wo_doc(f)
        first = bool(b) and self.is_autosort(b[0])
        self.emit(b[0] if b else f, coqname, ': bool', 'true' if first else 'false',
                  note='(first statement of %s is `if not self.sorted: self.sort()`: %s)' % (fname, first))

    def clears(self, fname, coqname, before=None):
        """true iff a top level statement of fname (before the first statement of kind `before`) drops the lru caches"""
        helper = self.fn('_clear_lookup_cache') if any(
            isinstance(c, ast.FunctionDef) and c.name == '_clear_lookup_cache'
            for c in ast.walk(self.tree)) else None
        helper_ok = helper is not None and any(ast.unparse(st) == 'self.findFeaturesAt.cache_clear()' for st in helper.body)
        f = self.fn(fname)

        def is_clear(st):
            u = ast.unparse(st)
            return u == 'self.findFeaturesAt.cache_clear()' or (u == 'self._clear_lookup_cache()' and helper_ok)
        top = []
        for st in f.body:
            if before is not None and isinstance(st, before):
                break
            top.append(st)
        hit = [st for st in top if is_clear(st)]
        nested = [n for n in ast.walk(f) if isinstance(n, ast.Expr) and is_clear(n) and n not in top]
        if nested:
            raise Untranslatable('%s: cache_clear under a condition / inside a loop (line %d) is outside the recognised shape'
                                 % (fname, nested[0].lineno))
        self.emit(hit[0] if hit else f.body[0], coqname, ': bool', 'true' if hit else 'false',
                  note='(%s clears the lru_cache of findFeaturesAt unconditionally: %s)' % (fname, bool(hit)))

    def ss_call(self, node, array, what):
        """np.searchsorted(<array>, key, side) -> (key node, side 0/1)"""
        if not (isinstance(node, ast.Call) and ast.unparse(node.func) == 'np.searchsorted'):
            raise Untranslatable('%s: expected np.searchsorted(...), got %s' % (what, ast.unparse(node)[:80]))
        args, kw = list(node.args), {k.arg: k.value for k in node.keywords}
        if len(args) not in (2, 3) or set(kw) - {'side'} or (len(args) == 3 and 'side' in kw):
            raise Untranslatable('%s: argument form of np.searchsorted outside subset' % what)
        if ast.unparse(args[0]) != array:
            raise Untranslatable('%s: searched array is %s, expected %s' % (what, ast.unparse(args[0]), array))
        side = args[2] if len(args) == 3 else kw.get('side')
        if side is None:
            sv = 'left'
        elif isinstance(side, ast.Constant) and side.value in ('left', 'right'):
            sv = side.value
        else:
            raise Untranslatable('%s: side argument %s' % (what, ast.unparse(side)))
        return args[1], 0 if sv == 'left' else 1

    def only_ss(self, node, what):
        calls = [n for n in ast.walk(node) if isinstance(n, ast.Call) and ast.unparse(n.func) == 'np.searchsorted']
        if len(calls) != 1:
            raise Untranslatable('%s: expected exactly one np.searchsorted, found %d' % (what, len(calls)))
        return calls[0]

    def z(self, node, env):
        free = {n.id for n in ast.walk(node) if isinstance(n, ast.Name)} - {'max', 'min', 'int', 'len', 'self', 'np'}
        tr = py2coq.ExprTranslator(env=env)
        out = tr.z(node)
        return out

    def bexp(self, node, env):
        tr = py2coq.ExprTranslator(env=env)
        return tr.b(node)

    @staticmethod
    def assigns(stmts, name):
        return [st for st in stmts if isinstance(st, ast.Assign) and len(st.targets) == 1
                and isinstance(st.targets[0], ast.Name) and st.targets[0].id == name]

    def one_assign(self, stmts, name, what):
        a = self.assigns(stmts, name)
        if len(a) != 1:
            raise Untranslatable('%s: expected exactly one assignment to %s, found %d' % (what, name, len(a)))
        return a[0]

    @staticmethod
    def skip_debug(stmts):
        return [st for st in stmts if not (isinstance(st, ast.If) and ast.unparse(st.test) == 'self.debug')]

    def comp(self, node, what, lo_hi=('startRange', 'endRange')):
        """[self.features[chromosome][i] for i in range(lo, hi) if COND]  (list comprehension or generator) -> (iter args, COND)"""
        if not isinstance(node, (ast.ListComp, ast.GeneratorExp)) or len(node.generators) != 1:
            raise Untranslatable('%s: not a single comprehension' % what)
        g = node.generators[0]
        if ast.unparse(node.elt) != E_FEAT_I or ast.unparse(g.target) != 'i' or len(g.ifs) != 1 or g.is_async:
            raise Untranslatable('%s: comprehension form outside subset: %s' % (what, ast.unparse(node)[:120]))
        it = g.iter
        if not (isinstance(it, ast.Call) and ast.unparse(it.func) == 'range' and len(it.args) == 2 and not it.keywords):
            raise Untranslatable('%s: not over range(a, b)' % what)
        if lo_hi is not None and [ast.unparse(a) for a in it.args] != list(lo_hi):
            raise Untranslatable('%s: range bounds %s' % (what, ast.unparse(it)))
        return it.args, g.ifs[0]

    # ---- the functions
    def find_at(self):
        f = self.fn('_findFeaturesAt')
        self.autosort_first('_findFeaturesAt', 'g_autosort_at')
        w = self.fn('findFeaturesAt')
        decos = [ast.unparse(d) for d in w.decorator_list]
        if not any(d.startswith('functools.lru_cache') for d in decos) or len(w.body) != 1 or ast.unparse(w.body[0]) != \
                'return self._findFeaturesAt(chromosome, lookupCoordinate, strand=strand, optim=optim)':
            raise Untranslatable('findFeaturesAt is not the lru_cache wrapper of _findFeaturesAt')
        body = self.body_wo_doc(f)
        XE = {'lookupCoordinate': 'x'}
        sa = self.one_assign(body, 's', '_findFeaturesAt')
        key, side = self.ss_call(sa.value, E_STARTS, '_findFeaturesAt: s')
        self.emit(sa, 'g_s_side', ': Z', str(side), note="(side: 0 'left', 1 'right')")
        self.emit(key, 'g_s_key', '(x : Z) : Z', self.z(key, XE))
        chain = [st for st in body if isinstance(st, ast.If) and ast.unparse(st.test) == "optim == 'bdbnb'"]
        if len(chain) != 1 or body.index(chain[0]) < body.index(sa):
            raise Untranslatable("_findFeaturesAt: expected one `if optim == 'bdbnb'` after the assignment of s")
        br = chain[0]
        KEEP = {E_FEAT_I + '[1]': 'e', 'lookupCoordinate': 'x', 'strand is None': 'snone', E_FEAT_I + '[3] == strand': 'seq'}
        # bdbnb
        b = self.skip_debug(br.body)
        sr = self.one_assign(b, 'startRange', 'bdbnb')
        if ast.unparse(sr.value) != 'self.fastIndex[chromosome][s - 1]':
            raise Untranslatable('bdbnb: startRange = %s' % ast.unparse(sr.value))
        er = self.one_assign(b, 'endRange', 'bdbnb')
        self.emit(er, 'g_fast_end', '(s n : Z) : Z', self.z(er.value, {E_N: 'n'}))
        rets = [st for st in b if isinstance(st, ast.Return)]
        if len(rets) != 1 or len(b) != 3:
            raise Untranslatable('bdbnb: expected startRange, endRange, return')
        _, cond = self.comp(rets[0].value, 'bdbnb')
        self.emit(cond, 'g_fast_keep', '(e x : Z) (snone seq : bool) : bool', self.bexp(cond, KEEP))
        # nb
        if len(br.orelse) != 1 or not isinstance(br.orelse[0], ast.If) or ast.unparse(br.orelse[0].test) != "optim == 'nb'":
            raise Untranslatable("_findFeaturesAt: expected `elif optim == 'nb'`")
        nb = br.orelse[0]
        b = self.skip_debug(nb.body)
        ml = self.one_assign(b, 'ml', 'nb')
        sr = self.one_assign(b, 'startRange', 'nb')
        key, side = self.ss_call(sr.value, E_STARTS, 'nb: startRange')
        if ast.unparse(key) != 'ml' or b.index(ml) > b.index(sr):
            raise Untranslatable('nb: search key %s' % ast.unparse(key))
        self.emit(sr, 'g_nb_side', ': Z', str(side))
        self.emit(ml, 'g_nb_key', '(x maxlen : Z) : Z', self.z(ml.value, {'lookupCoordinate': 'x', 'self.maxFeatureSizes[chromosome]': 'maxlen'}))
        er = self.one_assign(b, 'endRange', 'nb')
        self.emit(er, 'g_nb_end', '(s n : Z) : Z', self.z(er.value, {E_N: 'n'}))
        ca = self.one_assign(b, 'candidates', 'nb')
        if len(b) != 4 or not (isinstance(ca.value, ast.Call) and ast.unparse(ca.value.func) == 'set' and len(ca.value.args) == 1):
            raise Untranslatable('nb: expected ml, startRange, endRange, candidates = set(...)')
        _, cond = self.comp(ca.value.args[0], 'nb')
        self.emit(cond, 'g_nb_keep', '(e x : Z) : bool', self.bexp(cond, {E_FEAT_I + '[1]': 'e', 'lookupCoordinate': 'x'}))
        # optim
        if len(nb.orelse) != 1 or not isinstance(nb.orelse[0], ast.If) or ast.unparse(nb.orelse[0].test) != "optim == 'optim'":
            raise Untranslatable("_findFeaturesAt: expected `elif optim == 'optim'`")
        op = nb.orelse[0]
        b = self.skip_debug(op.body)
        sa2 = self.one_assign(b, 's', 'optim')
        key, side = self.ss_call(sa2.value, E_STARTS, 'optim: s')
        self.emit(sa2, 'g_optim_side', ': Z', str(side))
        self.emit(key, 'g_optim_key', '(x : Z) : Z', self.z(key, XE))
        ca = self.one_assign(b, 'candidates', 'optim')
        if len(b) != 2 or not (isinstance(ca.value, ast.Call) and ast.unparse(ca.value.func) == 'set' and len(ca.value.args) == 1):
            raise Untranslatable('optim: expected s, candidates = set(...)')
        rng, cond = self.comp(ca.value.args[0], 'optim', lo_hi=None)
        if ast.unparse(rng[0]) != '0':
            raise Untranslatable('optim: range starts at %s' % ast.unparse(rng[0]))
        self.emit(rng[1], 'g_optim_end', '(s n : Z) : Z', self.z(rng[1], {E_N: 'n'}))
        self.emit(cond, 'g_optim_keep', '(e x : Z) : bool', self.bexp(cond, {E_FEAT_I + '[1]': 'e', 'lookupCoordinate': 'x'}))
        # common tail:  return [candidate for candidate in candidates if (strand is None or candidate[3] == strand)]
        tail = [st for st in body[body.index(br) + 1:] if isinstance(st, ast.Return)]
        if len(tail) != 1:
            raise Untranslatable('_findFeaturesAt: expected one return after the optim chain')
        lc = tail[0].value
        if not (isinstance(lc, ast.ListComp) and len(lc.generators) == 1 and ast.unparse(lc.elt) == 'candidate'
                and ast.unparse(lc.generators[0].target) == 'candidate' and ast.unparse(lc.generators[0].iter) == 'candidates'
                and len(lc.generators[0].ifs) == 1):
            raise Untranslatable('_findFeaturesAt: final strand filter has another shape')
        cond = lc.generators[0].ifs[0]
        self.emit(cond, 'g_strand_keep', '(snone seq : bool) : bool', self.bexp(cond, {'strand is None': 'snone', 'candidate[3] == strand': 'seq'}))

    def between(self):
        f = self.fn('findFeaturesBetween')
        self.autosort_first('findFeaturesBetween', 'g_autosort_between')
        body = self.body_wo_doc(f)
        AB = {'sampleStart': 'a', 'sampleEnd': 'b'}
        si = self.assigns(body, 'startIndex')
        if len(si) != 2:
            raise Untranslatable('findFeaturesBetween: expected two assignments to startIndex, found %d' % len(si))
        c1 = self.only_ss(si[0].value, 'findFeaturesBetween: first startIndex')
        key, side = self.ss_call(c1, E_STARTS, 'findFeaturesBetween: starts')
        self.emit(c1, 'g_btw_s_side', ': Z', str(side))
        self.emit(key, 'g_btw_s_key', '(a b : Z) : Z', self.z(key, AB))
        self.emit(si[0], 'g_btw_i0', '(ssa : Z) : Z', self.z(si[0].value, {ast.unparse(c1): 'ssa'}))
        c2 = self.only_ss(si[1].value, 'findFeaturesBetween: second startIndex')
        key, side = self.ss_call(c2, E_ENDS, 'findFeaturesBetween: ends')
        self.emit(c2, 'g_btw_e_side', ': Z', str(side))
        self.emit(key, 'g_btw_e_key', '(a b : Z) : Z', self.z(key, AB))
        self.emit(si[1], 'g_btw_start', '(i0 sse : Z) : Z', self.z(si[1].value, {ast.unparse(c2): 'sse', 'startIndex': 'i0'}))
        loops = [st for st in body if isinstance(st, ast.While)]
        if len(loops) != 1 or ast.unparse(loops[0].test) != 'x and startIndex < %s' % E_N or loops[0].orelse:
            raise Untranslatable('findFeaturesBetween: scan loop has another shape')
        lb = loops[0].body
        if not (len(lb) == 4 and ast.unparse(lb[0]) == 'd = self.features[chromosome][startIndex]'
                and ast.unparse(lb[1]) in ('hitStart, hitEnd, name, hitStrand, data = d', '(hitStart, hitEnd, name, hitStrand, data) = d')
                and isinstance(lb[2], ast.If) and ast.unparse(lb[3]) == 'startIndex += 1'):
            raise Untranslatable('findFeaturesBetween: loop body has another shape')
        stop = lb[2]
        if not (len(stop.body) == 1 and ast.unparse(stop.body[0]) == 'x = False' and len(stop.orelse) == 1
                and isinstance(stop.orelse[0], ast.If)):
            raise Untranslatable('findFeaturesBetween: stop test has another shape')
        ov = stop.orelse[0]
        if not (not ov.orelse and len(ov.body) == 1 and isinstance(ov.body[0], ast.If) and not ov.body[0].orelse
                and len(ov.body[0].body) == 1 and ast.unparse(ov.body[0].body[0]) == 'hits.add(d)'):
            raise Untranslatable('findFeaturesBetween: overlap / strand tests have another shape')
        H = {'sampleStart': 'a', 'sampleEnd': 'b', 'hitStart': 'hs', 'hitEnd': 'he'}
        self.emit(stop.test, 'g_btw_stop', '(hs b : Z) : bool', self.bexp(stop.test, H))
        self.emit(ov.test, 'g_btw_overlap', '(a b hs he : Z) : bool', self.bexp(ov.test, H))
        st = ov.body[0].test
        self.emit(st, 'g_btw_strand', '(snone seq : bool) : bool', self.bexp(st, {'strand is None': 'snone', 'strand == hitStrand': 'seq'}))
        tail = [ast.unparse(x) for x in body[body.index(loops[0]) + 1:]]
        if tail != ['hits.update(set(self.findFeaturesAt(chromosome, sampleStart, strand)))',
                    'hits.update(set(self.findFeaturesAt(chromosome, sampleEnd, strand)))', 'return list(hits)']:
            raise Untranslatable('findFeaturesBetween: the two boundary lookups / the return have another shape: %r' % (tail,))
        pre = [ast.unparse(x) for x in body[body.index(si[1]) + 1:body.index(loops[0])]]
        if pre != ['hits = set()', 'x = True']:
            raise Untranslatable('findFeaturesBetween: statements before the loop: %r' % (pre,))

    def pysam_align(self):
        f = self.fn('findFeaturesAtPysamAlign')
        self.autosort_first('findFeaturesAtPysamAlign', 'g_autosort_blocks')
        calls = [n for n in ast.walk(f) if isinstance(n, ast.Call) and ast.unparse(n.func) == 'self.findFeaturesBetween']
        if len(calls) != 1:
            raise Untranslatable('findFeaturesAtPysamAlign: expected one call of findFeaturesBetween')
        c = calls[0]
        if not (len(c.args) == 3 and ast.unparse(c.args[0]) == 'pysamRead.reference_name'
                and [(k.arg, ast.unparse(k.value)) for k in c.keywords] == [('strand', 'strand')]):
            raise Untranslatable('findFeaturesAtPysamAlign: arguments of findFeaturesBetween')
        gens = [n for n in ast.walk(f) if isinstance(n, ast.comprehension) and ast.unparse(n.iter) == 'pysamRead.get_blocks()']
        if len(gens) != 1 or ast.unparse(gens[0].target) != '(lookupCoordinateStart, lookupCoordinateEnd)' or gens[0].ifs:
            raise Untranslatable('findFeaturesAtPysamAlign: loop over get_blocks() has another shape')
        E = {'lookupCoordinateStart': 'bs', 'lookupCoordinateEnd': 'be'}
        self.emit(c.args[1], 'g_block_start', '(bs be : Z) : Z', self.z(c.args[1], E))
        self.emit(c.args[2], 'g_block_end', '(bs be : Z) : Z', self.z(c.args[2], E))

    def sort_and_add(self):
        self.clears('addFeature', 'g_clear_add')
        self.clears('sort', 'g_clear_sort', before=ast.For)
        f = self.fn('sort')
        loops = [st for st in f.body if isinstance(st, ast.For)]
        if len(loops) != 1 or ast.unparse(loops[0].target) != 'chromosome' or ast.unparse(loops[0].iter) != 'self.features.keys()':
            raise Untranslatable('sort: loop over the contigs has another shape')
        lb = loops[0].body
        fi = [st for st in lb if isinstance(st, ast.Assign) and ast.unparse(st.targets[0]) == 'self.fastIndex[chromosome]']
        if len(fi) != 1:
            raise Untranslatable('sort: expected one assignment to self.fastIndex[chromosome]')
        key, side = self.ss_call(fi[0].value, E_STARTS, 'sort: fastIndex')
        if ast.unparse(key) != 'lowestStarts':
            raise Untranslatable('sort: fastIndex search key %s' % ast.unparse(key))
        self.emit(fi[0], 'g_fastidx_side', ': Z', str(side))
        ml = self.one_assign(lb, 'maxLengthFeature', 'sort')
        v = ml.value
        if not (isinstance(v, ast.Call) and ast.unparse(v.func) == 'np.max' and len(v.args) == 1 and not v.keywords
                and isinstance(v.args[0], ast.ListComp) and len(v.args[0].generators) == 1
                and ast.unparse(v.args[0].generators[0].target) == 'tup' and not v.args[0].generators[0].ifs
                and ast.unparse(v.args[0].generators[0].iter) == 'self.features[chromosome]'):
            raise Untranslatable('sort: maxLengthFeature = %s' % ast.unparse(v)[:120])
        self.emit(v.args[0].elt, 'g_len', '(s e : Z) : Z', self.z(v.args[0].elt, {'tup[1]': 'e', 'tup[0]': 's'}))
        if not any(ast.unparse(st) == 'self.maxFeatureSizes[chromosome] = maxLengthFeature' for st in lb):
            raise Untranslatable('sort: maxFeatureSizes[chromosome] is not maxLengthFeature')
        ls = self.one_assign(lb, 'lowestStarts', 'sort')
        want = ("np.fromiter((min((f[0] for f in self.findFeaturesAt(chromosome, feature[0], optim='nb'))) "
                "for feature in self.features[chromosome]), dtype=np.int64)")
        if ast.unparse(ls.value) != want:
            raise Untranslatable('sort: lowestStarts = %s' % ast.unparse(ls.value)[:200])
        order = [lb.index(x) for x in (ml, ls, fi[0])]
        if order != sorted(order):
            raise Untranslatable('sort: order of maxLengthFeature / lowestStarts / fastIndex')
        need = ['self.features[chromosome].sort()',
                'self.startCoordinates[chromosome] = np.fromiter((tup[0] for tup in self.features[chromosome]), dtype=np.int64)']
        have = [ast.unparse(st) for st in lb]
        if have[:2] != need:
            raise Untranslatable('sort: the loop does not start with features.sort() and startCoordinates = starts')


def _extension_switches(self):
    """switches of Model/C16x.v: does findFeaturesBetweenBRK re-index first; do addFeature and sort drop the lru_cache of
    findNearestFeature (directly or through _clear_lookup_cache)"""
    self.autosort_first('findFeaturesBetweenBRK', 'g_autosort_brk')
    NEAR = 'self.findNearestFeature.cache_clear()'
    helper = [c for c in ast.walk(self.tree) if isinstance(c, ast.FunctionDef) and c.name == '_clear_lookup_cache']
    helper_ok = bool(helper) and any(ast.unparse(st) == NEAR for st in helper[0].body)

    def clears_near(fname, before=None):
        for st in self.fn(fname).body:
            if before is not None and isinstance(st, before):
                break
            u = ast.unparse(st)
            if u == NEAR or (u == 'self._clear_lookup_cache()' and helper_ok):
                return True
        return False
    w = self.fn('findNearestFeature')
    if not any(ast.unparse(d).startswith('functools.lru_cache') for d in w.decorator_list):
        raise Untranslatable('findNearestFeature is not behind functools.lru_cache any more: the cache of Model/C16x.v is not the code')
    ok = clears_near('addFeature') and clears_near('sort', before=ast.For)
    self.emit(helper[0] if helper else w, 'g_clear_near', ': bool', 'true' if ok else 'false',
              note='(addFeature and sort clear the lru_cache of findNearestFeature unconditionally: %s)' % ok)


_Gen.extension_switches = _extension_switches


def regen_features():
    g = _Gen(fw.REPO)
    g.find_at()
    g.between()
    g.pysam_align()
    g.sort_and_add()
    g.extension_switches()
    py2coq.write_gen(os.path.join(fw.COQ, 'Gen', 'GenFeatures.v'), '', g.chunks)
    return g.meta


# ----------------------------------------------------------------------------- helpers shared by K and search
def cigar_blocks(pos, cigar):
    """half open reference blocks of the aligned (M/=/X) operations, as pysam's get_blocks()"""
    out, p = [], pos
    for o, l in cigar:
        if o in (0, 7, 8):
            out.append([p, p + l]); p += l
        elif o in (2, 3):
            p += l
    return out


def merged_closed(blocks):
    """Molecule.get_aligned_blocks(): closed runs of consecutive aligned positions"""
    pos = sorted(set(p for a, b in blocks for p in range(a, b)))
    out = []
    for p in pos:
        if out and out[-1][1] == p - 1:
            out[-1][1] = p
        else:
            out.append([p, p])
    return out


def annot_strand(stranded, reverse):
    # strand = None if stranded is None else '+-'[(not self.strand if self.stranded else self.strand)]
    if stranded == 0:
        return 0
    s = (not reverse) if stranded == 2 else reverse
    return 2 if s else 1


def model_ops(op):
    """one harness op -> list of model ops (Val encoding of Model/C16.v dec_op)"""
    k = op[0]
    if k == 'add':
        return [[0, op[1], [op[2], op[3], op[4], op[5], op[6]]]]
    if k == 'sort':
        return [[1]]
    if k == 'at':
        return [[2, op[1], op[2], op[3], op[4]]]
    if k == 'between':
        return [[3, op[1], op[2], op[3], op[4]]]
    if k == 'blocks':
        _, c, pos, cigar, q, meth = op
        return [[4, c, cigar_blocks(pos, cigar), q, 0 if meth == 0 else 1]]
    if k == 'annot':
        _, c, pos, cigar, stranded, reverse, meth = op
        q = annot_strand(stranded, reverse)
        bl = cigar_blocks(pos, cigar)
        if meth == 0:   # findFeaturesBetween on every closed run of aligned bases
            return [[3, c, a, b, q] for a, b in merged_closed(bl)]
        # findFeaturesAt on every aligned base: same queries as findFeaturesAtPysamAlign(method=0)
        return [[2, c, p, q, 0] for a, b in bl for p in range(a, b)]
    raise ValueError(op)


def wf_history(ops):
    """Python transcription of hist_wfb (Model/C16.v): precondition of C16_history"""
    feats = []
    for op in ops:
        k = op[0]
        if k == 'add':
            _, c, s, e, n, st, d = op
            if not (s <= e and 0 <= e):
                return False
            if 0 <= st <= 2:
                feats.append((c, s, e, n, st))
        elif k == 'at' and not (0 <= op[4] <= 2):
            return False
        elif k == 'between' and not op[2] <= op[3]:
            return False
    seen = {}
    for c, s, e, n, st in feats:
        seen.setdefault((c, s, e, n), set()).add(st == 0)
    return all(len(v) == 1 for v in seen.values())


def spec_answer(all_feats, op):
    """the specification of C16 (statement of the theorems): brute force over everything added so far.
    returns ('list'|'set'|'hits', sorted answer)"""
    def match(q, f):
        return q == 0 or f[3] == q
    k = op[0]
    fs = [f for c, f in all_feats if c == op[1]]
    if k == 'at':
        _, c, x, q, o = op
        r = [f for f in fs if f[0] <= x <= f[1] and match(q, f)]
        return ('list', sorted(r)) if o == 0 else ('set', sorted(set(r)))
    if k == 'between':
        _, c, a, b, q = op
        return 'set', sorted(set(f for f in fs if max(a, f[0]) <= min(b, f[1]) and match(q, f)))
    if k in ('blocks', 'annot'):
        if k == 'blocks':
            _, c, pos, cigar, q, meth = op
        else:
            _, c, pos, cigar, stranded, reverse, meth = op
            q = annot_strand(stranded, reverse)
        bases = [p for a, b in cigar_blocks(pos, cigar) for p in range(a, b)]
        r = set(f for f in fs if match(q, f) and any(f[0] <= p <= f[1] for p in bases))
        if k == 'annot':
            return 'hits', sorted(set(f[4] for f in r))
        return 'set', sorted(r)
    return None


def check_case_against_spec(ops, impl):
    """first answer of the implementation that is not the specification's; None if all are"""
    allf = []
    for i, (op, r) in enumerate(zip(ops, impl)):
        k = op[0]
        if k == 'add':
            bad = not 0 <= op[5] <= 2
            if bad != ('error' in r and r['error'].startswith('ValueError')):
                return i, 'addFeature: %r' % (r,), None
            if not bad:
                allf.append((op[1], (op[2], op[3], op[4], op[5], op[6])))
            continue
        if 'error' in r:
            return i, 'raised ' + r['error'], None
        if k == 'sort':
            continue
        kind, exp = spec_answer(allf, op)
        if kind == 'hits':
            got = r['hits']
        else:
            got = [tuple(t) for t in r['ok']]
            if kind == 'set' and len(set(got)) != len(got):
                return i, 'duplicates in a set valued answer', exp
            got = sorted(got)
        if [list(t) if isinstance(t, tuple) else t for t in got] != [list(t) if isinstance(t, tuple) else t for t in exp]:
            return i, got, exp
    return None


def classify(ops, impl):
    """None, or (stable key, index of the failing call, answer, expected) for a history inside the precondition"""
    if not wf_history(ops):
        return None
    f = check_case_against_spec(ops, impl)
    if not f:
        return None
    i, got, exp = f
    if isinstance(got, str):
        cls = 'raise' if got.startswith('raised') else 'malformed'
    else:
        g = set(map(str, got)); e = set(map(str, exp))
        cls = 'missing' if e - g and not g - e else 'extra' if g - e and not e - g else 'different'
    return '%s:%s' % (ops[i][0], cls), i, got, exp


def shrink_with(run, ops, key):
    """greedy delta debugging of a history; [run] executes a history on the real implementation"""
    def bad(c):
        f = classify(c, run(c))
        return f is not None and f[0] == key
    cur = list(ops)
    f = classify(cur, run(cur))
    cur = cur[:f[1] + 1]
    chunk = max(1, len(cur) // 2)
    while True:
        i, progressed = 0, False
        while i < len(cur) - 1:
            cand = cur[:i] + cur[i + chunk:-1] + cur[-1:] if i + chunk < len(cur) else cur[:i] + cur[-1:]
            if len(cand) < len(cur) and bad(cand):
                cur, progressed = cand, True
            else:
                i += chunk
        if chunk == 1 and not progressed:
            break
        chunk = max(1, chunk // 2) if not progressed else chunk
    return cur


# ============================================================================= extension: loaders, nearest lookups, BRK
# (Model/C16x.v).  x-cases use the real strings of the container (contig, name, data); towards the model every string is
# its position (from 1) in the sorted table of all strings of the case (None = 0), see x_encode.
XERR = {1: 'TypeError', 2: 'OverflowError', 3: 'ValueError', 4: 'ValueError', 5: 'KeyError', 6: 'ValueError'}
GTF_DEFAULT = {'identifierFields': ['gene_id'], 'offset': -1}


def gtf_text(rec):
    """one record of gen_gtf -> the text line of the file"""
    if rec['comment']:
        return '#' + rec['text']
    attrs = ' '.join('%s "%s";' % (k, v) for k, v in rec['attrs'])
    return '\t'.join([rec['chrom'], 'src', rec['type'], str(rec['start']), str(rec['end']), '.', rec['strand'], rec['frame'], attrs])


def gtf_tokens(line):
    """the tokenisation loadGTF applies to a line (transcribed; re-checked against the generator's structure on every record)"""
    if line[0] == '#':
        return {'comment': True}
    parts = line.rstrip().split(None, 8)
    kvs = []
    for part in parts[-1].split(';'):
        kv = part.strip().split()
        if len(kv) == 2:
            kvs.append([kv[0], kv[1].replace('"', '')])
    return {'comment': False, 'chrom': parts[0], 'type': parts[2], 'start': int(parts[3]), 'end': int(parts[4]),
            'strand': parts[6], 'frame': parts[7], 'attrs': kvs}


def bed_text(rec):
    if rec['track']:
        return 'track name=x'
    cols = [rec['chrom'], str(rec['start']), str(rec['end']), rec['name'], '0', rec['strand'], '0', '0', '0', '1', '5,', '0,'][:rec['n']]
    return '\t'.join(cols)


def x_kwargs(par):
    """gen parameters -> keyword arguments of loadGTF"""
    kw = {'remapKeys': dict(par.get('remapKeys') or {})}         # an attribute of the container, set before every loader call
    for a in ('contig', 'thirdOnly', 'select_feature_type', 'exon_select', 'head', 'parseBlocks'):
        if par.get(a) is not None:
            kw[a] = par[a]
    if par.get('identifierFields') is not None:
        kw['identifierFields'] = par['identifierFields']
    if par.get('ignChr'):
        kw['ignChr'] = True
    if par.get('offset') is not None:
        kw['offset'] = par['offset']
    if par.get('region') is not None:
        kw['region_start'], kw['region_end'] = par['region']
    return kw


def py_remap(m, c):
    return (m or {}).get(c, c)


def py_gtf_adds(par, recs):
    """Python transcription of gtf_compile (Model/C16x.v): ([(contig, start, end, name, strand code, data)], error name | None)"""
    out, added = [], 0
    m = par.get('remapKeys') or {}
    ident = par.get('identifierFields') or ['gene_id']
    off = par.get('offset', -1) if par.get('offset') is not None else -1
    for r in recs:
        if par.get('head') is not None and added > par['head']:
            break
        if r['comment']:
            continue
        if par.get('contig') is not None and r['chrom'] != par['contig']:
            continue
        if par.get('thirdOnly') is not None and r['type'] not in par['thirdOnly']:
            continue
        if par.get('select_feature_type') is not None and r['type'] not in par['select_feature_type']:
            continue
        if par.get('exon_select') is not None and r['frame'] not in par['exon_select']:
            continue
        kv = {}
        for k, v in r['attrs']:
            kv[k] = v
        chrom = py_remap(m, r['chrom'])
        chromosome = chrom.replace('chr', '') if par.get('ignChr') else chrom
        name = ','.join(kv[i] for i in ident if i in kv)
        s, e = r['start'] + off, r['end'] + off
        if par.get('region') is not None and (e < par['region'][0] or s > par['region'][1]):
            continue
        if 'gene_id' not in kv:
            return out, 'KeyError'
        st = {'+': 1, '-': 2}.get(r['strand'], 3)
        if st == 3:
            return out, 'ValueError'
        out.append((py_remap(m, chromosome), s, e, name, st, 'type:%s,gene_id:%s' % (r['type'], kv['gene_id'])))
        added += 1
    return out, None


def py_bed_adds(par, recs):
    out = []
    m = par.get('remapKeys') or {}
    for r in recs:
        if r['track']:
            continue
        if r['n'] < 2:
            return out, 'ValueError'
        has_strand = r['n'] in (6, 10, 12)
        name = r['name'] if r['n'] >= 4 else str(r['idx'])
        e = r['start'] + 1 if r['n'] == 2 else r['end']
        chrom = py_remap(m, r['chrom'])
        if par.get('ignChr'):
            chrom = chrom.replace('chr', '')
        st = 0
        if has_strand:
            st = {'+': 1, '-': 2}.get(r['strand'], 3)
            if st == 3:
                return out, 'ValueError'
        out.append((chrom, r['start'], e, name, st, None))
    return out, None


def x_loader_adds(op):
    return py_gtf_adds(op[1], op[3]) if op[0] == 'gtf' else py_bed_adds(op[1], op[3])


def x_strings(ops, impl):
    S = set()
    for op in ops:
        k = op[0]
        if k == 'add':
            S.update(x for x in (op[1], op[4], op[6]) if x is not None)
        elif k in ('gtf', 'bed'):
            adds, _ = x_loader_adds(op)
            for a in adds:
                S.update(x for x in (a[0], a[3], a[5]) if x is not None)
            for r in op[3]:
                c = r.get('chrom')
                if c is not None:
                    S.update([c, c.replace('chr', '')])
            S.update((op[1].get('remapKeys') or {}).values())
        elif k != 'sort':
            S.add(op[1])
    for r in impl:
        for key in ('ok', 'fresh'):
            for t in r.get(key, []):
                S.update(x for x in (t[2], t[4]) if x is not None)
        S.update(r.get('contigs', []))
    return sorted(S)


def x_encode(ops, impl):
    """-> (table, coded ops, coded implementation answers)"""
    tab = x_strings(ops, impl)
    code = {s: i + 1 for i, s in enumerate(tab)}
    code[None] = 0

    def feat(t):
        return [t[0], t[1], code[t[2]], t[3], code[t[4]]]
    cops = []
    for op in ops:
        k = op[0]
        if k == 'add':
            cops.append(['add', code[op[1]], op[2], op[3], code[op[4]], op[5], code[op[6]]])
        elif k in ('gtf', 'bed'):
            adds, err = x_loader_adds(op)
            cops.append([k, [[code[a[0]], a[1], a[2], code[a[3]], a[4], code[a[5]]] for a in adds], err])
        elif k == 'sort':
            cops.append(op)
        else:
            cops.append([k, code[op[1]]] + list(op[2:]))
    cimpl = []
    for r in impl:
        d = dict(r)
        for key in ('ok', 'fresh'):
            if key in d:
                d[key] = [feat(t) for t in d[key]]
        cimpl.append(d)
    return tab, cops, cimpl


def opt(x):
    return [] if x is None else [x]


def x_model_case(tab, ops, cops):
    """[table, operations] in the Val encoding of Model/C16x.v dec_xop"""
    mo = []
    for op, cop in zip(ops, cops):
        k = op[0]
        if k == 'add':
            mo.append([0, cop[1], cop[2:7]])
        elif k == 'sort':
            mo.append([1])
        elif k == 'at':
            mo.append([2] + cop[1:5])
        elif k == 'between':
            mo.append([3] + cop[1:5])
        elif k in ('nl', 'nr', 'near'):
            mo.append([{'nl': 5, 'nr': 6, 'near': 7}[k]] + cop[1:4])
        elif k == 'brk':
            mo.append([8] + cop[1:5])
        elif k == 'gtf':
            p = op[1]
            par = [opt(p.get('contig')), opt(p.get('thirdOnly')), opt(p.get('select_feature_type')), opt(p.get('exon_select')),
                   p.get('identifierFields') or ['gene_id'], 1 if p.get('ignChr') else 0,
                   p.get('offset') if p.get('offset') is not None else -1, opt(p.get('region')), opt(p.get('head')),
                   [[a, b] for a, b in sorted((p.get('remapKeys') or {}).items())]]
            recs = [[1, '', '', 0, 0, '', '', []] if r['comment'] else
                    [0, r['chrom'], r['type'], r['start'], r['end'], r['strand'], r['frame'], r['attrs']] for r in op[3]]
            mo.append([10, par, recs])
        elif k == 'bed':
            p = op[1]
            recs = [[1 if r['track'] else 0, r['n'], r['idx'], r['chrom'], r['start'], r['end'], r['name'], r['strand']] for r in op[3]]
            mo.append([11, 1 if p.get('ignChr') else 0, [[a, b] for a, b in sorted((p.get('remapKeys') or {}).items())], recs])
        else:
            raise ValueError(op)
    return [tab, mo]


def x_walk(cops):
    """abstract run over coded ops: yields (index, op, features added before it [(c, (s, e, n, st, d))], clean flag before it)"""
    allf, clean = [], True
    for i, op in enumerate(cops):
        yield i, op, list(allf), clean
        k = op[0]
        if k == 'add':
            if 0 <= op[5] <= 2:
                allf.append((op[1], tuple(op[2:7])))
                clean = False
        elif k in ('gtf', 'bed'):
            for a in op[1]:
                allf.append((a[0], tuple(a[1:6])))
            clean = True
        elif k in ('nl', 'nr'):
            clean = clean or any(c == op[1] for c, _ in allf)
        elif k == 'brk':
            pass
        else:
            clean = True


def x_wf(cops, brk_fixed):
    """Python transcription of xhist_wfb (Model/C16x.v)"""
    feats = []
    for i, op, allf, clean in x_walk(cops):
        k = op[0]
        if k == 'add':
            if not (op[2] <= op[3] and 0 <= op[3]):
                return False
            if 0 <= op[5] <= 2:
                feats.append((op[1], op[2], op[3], op[4], op[5]))
        elif k in ('gtf', 'bed'):
            if op[2] is not None:
                return False
            for a in op[1]:
                if not (a[1] <= a[2] and 0 <= a[2]):
                    return False
                feats.append(tuple(a[:5]))
        elif k == 'at' and not 0 <= op[4] <= 2:
            return False
        elif k == 'between' and not op[2] <= op[3]:
            return False
        elif k == 'brk' and not (brk_fixed or clean):
            return False
    seen = {}
    for c, s, e, n, st in feats:
        seen.setdefault((c, s, e, n), set()).add(st == 0)
    return all(len(v) == 1 for v in seen.values())


def x_wf_len(cops, brk_fixed):
    """number of leading operations inside the precondition"""
    if x_wf(cops, brk_fixed):
        return len(cops)
    lo, hi = 0, len(cops)          # x_wf is monotone on prefixes
    while lo < hi:
        mid = (lo + hi + 1) // 2
        if x_wf(cops[:mid], brk_fixed):
            lo = mid
        else:
            hi = mid - 1
    return lo


def x_spec_check(op, allf, r):
    """the statement evaluated on one answer of the implementation (coded).  None if it holds, else (got, expected).
    at / between / brk / nr: brute force over everything added so far; nl / near: the answer of a fresh container
    over everything added so far ('fresh', computed by the implementation itself: the history clause), and for near
    inside a feature the brute force point lookup"""
    def match(q, f):
        return q == 0 or f[3] == q
    k = op[0]
    got = [tuple(t) for t in r['ok']]
    fs = [f for c, f in allf if c == op[1]]
    if k in ('at', 'between'):
        kind, exp = spec_answer(allf, op)
        if kind == 'set' and len(set(got)) != len(got):
            return got, 'duplicates'
        return None if sorted(got) == [tuple(t) for t in exp] else (sorted(got), exp)
    if k == 'brk':
        exp = sorted(set(f for f in fs if f[0] <= op[2] <= f[1] and f[0] <= op[3] <= f[1] and match(op[4], f)))
        return None if sorted(got) == exp and len(set(got)) == len(got) else (sorted(got), exp)
    if k == 'nr':
        cand = sorted(f for f in fs if f[0] > op[2] and match(op[3], f))
        exp = cand[:1]
        return None if got == exp else (got, exp)
    fresh = [tuple(t) for t in r.get('fresh', [])]
    if k == 'near':
        inside = sorted(f for f in fs if f[0] <= op[2] <= f[1])
        if inside:
            return None if sorted(got) == inside else (sorted(got), inside)
    return None if sorted(got) == sorted(fresh) else (got, fresh)


def x_classify(ops, cops, cimpl, brk_fixed):
    """None, or (key, index, got, expected) for the first answer of a history inside the precondition that is not the statement's"""
    if not x_wf(cops, brk_fixed):
        return None
    for i, op, allf, clean in x_walk(cops):
        if i >= len(cimpl):
            break
        r = cimpl[i]
        k = op[0]
        if k == 'add':
            bad = not 0 <= op[5] <= 2
            if bad != ('error' in r and r['error'].startswith('ValueError')):
                return 'x-add:malformed', i, r, None
            continue
        if 'error' in r:
            return 'x-%s:raise' % k, i, 'raised ' + r['error'], None
        if k in ('sort', 'gtf', 'bed'):
            continue
        f = x_spec_check(op, allf, r)
        if f is not None:
            got, exp = f
            g = set(map(str, got)); e = set(map(str, exp))
            cls = 'missing' if e - g and not g - e else 'extra' if g - e and not e - g else 'different'
            return 'x-%s:%s' % (k, cls), i, got, exp
    return None


class Prop(fw.PropBase):
    ID = 'C16'
    PROPS = 'Props/C16.v'
    TRUSTED = [
        'T: tools/c16.py AST recognisers (regen_features): they locate the np.searchsorted calls (side + key), comprehension '
        'conditions, window ends, the scan loop tests, the findFeaturesBetween arguments of the read annotation, the first-statement '
        're-index and the top-level cache_clear calls by their position in _findFeaturesAt / findFeaturesBetween / '
        'findFeaturesAtPysamAlign / sort / addFeature and refuse (Untranslatable) any other statement shape; expressions go '
        'through py2coq.ExprTranslator. Control flow around these pieces (loop structure, set building, memo wrapper) stays hand modelled and is tied by K',
        'modelled not verified: numpy (np.searchsorted on an ascending array = index of the first element >= v; np.fromiter / '
        'np.max / argsort), Python list.sort on tuples (= the unique ascending arrangement; raises TypeError iff a None strand '
        'meets a str strand behind equal (start, end, name)), set()/list(set) (= duplicate removal, order ignored), '
        'functools.lru_cache(maxsize=512) (LRU list keyed on the logical arguments (contig, coordinate, strand, optim); the '
        'dependence of the real key on positional/keyword call shape is not modelled, the harness uses one shape per query)',
        'modelled not verified: pysam AlignedSegment.get_blocks()/get_aligned_pairs(matches_only=True) (half open M/=/X blocks and '
        'exactly their bases - re-checked on every generated read), Molecule.get_aligned_blocks() (closed runs of aligned bases), '
        'Molecule.strand (= is_reverse of the read)',
        'the lru_cache is shared by all FeatureContainer instances: other instances can only evict entries or (after the fix) '
        'clear the cache; the proved invariant (every cached answer is the answer of the current index) is stable under removal',
        'feature names and data objects are abstracted to integers in an order preserving way (harness: names n%06d, data '
        '((gene_id, g%06d),)); contig names to integers',
        'not modelled: the fourth, unnamed lookup variant of _findFeaturesAt (optim not in bdbnb/nb/optim), annotateUTRs (rewrites '
        'feature data in place)',
        'extension (Model/C16x.v), modelled not verified: loadGTF / loadBED at the level of TOKENISED columns - the tokenisation '
        '(line.rstrip().split(None, 8), split(\';\') / strip().split() / replace of the quotes for the attribute column, int() of the '
        'coordinates, line[0] == \'#\') is transcribed in the harness (gtf_tokens) and re-checked on every generated line against the '
        'structure it was printed from; file opening / gzip, GFF3 attribute syntax (is_gff), store_all=True, identifierFields=None, '
        'thirdOnly given as a string (substring test), loadBED with parseBlocks on block columns are not modelled. Control flow of the '
        'loaders and of findNearestLeftFeature / findNearestRightFeature / findNearestFeature / findFeaturesBetweenBRK is hand modelled '
        'and tied by K only; T covers two switches: g_autosort_brk (first statement of findFeaturesBetweenBRK re-indexes) and '
        'g_clear_near (addFeature and sort clear the lru_cache of findNearestFeature)',
        'extension: strings (contig, name, data) reach the machine as integers: the theorems hold for every numbering [code]; K uses '
        'the position in the sorted table of all strings of a case, which is order preserving (tuple comparison in list.sort). '
        'len(self.endCoordinates) (the clip bound in findNearestLeftFeature) = number of contigs added to so far; the lru_cache of '
        'findNearestFeature = LRU list keyed on (contig, coordinate, strand), cleared whenever sort() runs or addFeature succeeds',
        'extension: the specification of findNearestLeftFeature / findNearestFeature in the history theorem is the answer of a fresh '
        'index over everything added so far (the stale-state clause); K evaluates it on the implementation by asking a FRESH real '
        'FeatureContainer holding the same features (field fresh), i.e. the implementation is its own oracle for that clause. That '
        'these answers are not the nearest feature is proved (C16_near_left*_refuted) and listed as a discrepancy, not asserted',
    ]
    ASSUMPTIONS = [
        'coordinates are Python ints with |x| < 2^53 (int64/uint64/float64 conversions in numpy are exact there); the model uses Z',
        'features satisfy start <= end and 0 <= end (otherwise sort() raises ValueError / OverflowError: modelled as Raise, outside the theorem)',
        'no two features of one contig share (start, end, name) while exactly one of them has strand None (list.sort raises TypeError: modelled as Raise)',
        'range queries have sampleStart <= sampleEnd; every pysam block is non empty (start < end)',
        'extension: a loader call inside the theorem does not raise (every line that is not filtered out has a gene_id attribute and '
        'strand + or -; BED lines have at least 2 columns) and loads features with start <= end, 0 <= end; with the code as it is '
        '(g_autosort_brk = false) findFeaturesBetweenBRK is not the first lookup after an addFeature (C16_brk_stale_refuted, fixes/C16-D33)',
    ]

    def regen(self):
        try:
            return regen_features()
        except BaseException:
            # fail closed: never prove / run against definitions generated from another source
            for ext in ('.v', '.vo', '.vos', '.vok', '.glob'):
                try:
                    os.remove(os.path.join(fw.COQ, 'Gen', 'GenFeatures' + ext))
                except OSError:
                    pass
            raise

    # ------------------------------------------------------------------ generators
    def gen_feature(self, U, nstrand, pool):
        r = self.rng
        if pool and r.random() < 0.18:      # identical copy / same interval other name or strand
            c, s, e, n, st, d = r.choice(pool)
            m = r.random()
            if m < 0.4:
                return [c, s, e, n, st, d]
            if m < 0.7:
                return [c, s, e, r.randint(0, 30), st, r.randint(0, 30)]
            return [c, s, e, n, (r.choice([1, 2]) if st else 0), d]
        c = r.choice(self.contigs)
        s = r.randint(0, U)
        L = r.choice([0, 0, 1, 1, 2, 3, r.randint(0, max(1, U // 4)), r.randint(0, U), r.randint(0, 2 * U)])
        if pool and r.random() < 0.3:       # nest inside / share an end with an existing feature
            _, ps, pe, _, _, _ = r.choice(pool)
            s = r.choice([ps, pe, ps + 1, max(0, pe - 1), r.randint(min(ps, pe), max(ps, pe))])
            L = r.choice([0, 1, max(0, pe - s), max(0, pe - s - 1), L])
        st = 0 if nstrand else r.choice([1, 1, 2])
        return [c, s, s + L, r.randint(0, 30), st, r.randint(0, 30)]

    def gen_query(self, U, pool, asked):
        r = self.rng
        c = r.choice(self.contigs + [7]) if r.random() < 0.1 else r.choice(self.contigs)
        q = r.choice([0, 0, 0, 1, 2]) if r.random() < 0.97 else 3

        def coord():
            m = r.random()
            if pool and m < 0.55:
                _, s, e, _, _, _ = r.choice(pool)
                return r.choice([s, e, s - 1, e + 1, s + 1, e - 1])
            if m < 0.65:
                return r.randint(-U - 3, -1)
            if m < 0.75:
                return r.randint(U, 3 * U + 5)
            return r.randint(-2, U + 2)
        m = r.random()
        if asked and m < 0.30:      # ask an earlier question again (what a stale memo would answer wrongly)
            return list(r.choice(asked))
        if m < 0.62:
            return ['at', c, coord(), q, r.choice([0, 0, 0, 0, 1, 1, 2])]
        if m < 0.84:
            a, b = coord(), coord()
            if a > b and r.random() < 0.93:
                a, b = b, a
            return ['between', c, a, b, q]
        cigar, pos = self.gen_cigar(max(0, coord()))
        if m < 0.93:
            return ['blocks', c, pos, cigar, q, r.choice([0, 1, 1])]
        return ['annot', c, pos, cigar, r.choice([0, 0, 1, 2]), r.random() < 0.5, r.choice([0, 0, 1])]

    def gen_cigar(self, pos):
        r = self.rng
        cig = []
        if r.random() < 0.2:
            cig.append([4, r.randint(1, 3)])
        for i in range(r.choice([1, 1, 2, 2, 3, 4])):
            if i:
                cig.append([r.choice([1, 2, 3, 3]), r.randint(1, 6)])
            cig.append([r.choice([0, 0, 0, 7, 8]), r.randint(1, 7)])
        if r.random() < 0.2:
            cig.append([4, r.randint(1, 3)])
        return cig, pos

    def gen_case(self, size=None):
        r = self.rng
        U = r.choice([6, 12, 30, 30, 100, 1000, 10 ** 6])
        self.contigs = list(range(r.choice([1, 1, 2, 3, 5])))
        nstrand = r.random() < 0.15
        total = size if size is not None else r.choice([1, 2, 3, 5, 8, 12, 20, 40, 80, 200])
        rounds = r.choice([1, 2, 2, 3, 3, 4])
        ops, pool, asked = [], [], []
        left = total
        for rd in range(rounds):
            n = left if rd == rounds - 1 else r.randint(0 if rd else 1, max(1, left // 2))
            left -= n
            for _ in range(n):
                f = self.gen_feature(U, nstrand, pool)
                pool.append(f)
                ops.append(['add'] + f)
                if r.random() < 0.04:          # a query between two additions, no explicit sort
                    qy = self.gen_query(U, pool, asked); asked.append(qy); ops.append(qy)
            m = r.random()
            if m < 0.75:
                ops.append(['sort'])
            elif m < 0.8:
                ops += [['sort'], ['sort']]
            for _ in range(r.choice([2, 4, 8, 12, 20])):
                qy = self.gen_query(U, pool, asked); asked.append(qy); ops.append(qy)
                if r.random() < 0.03:
                    ops.append(['sort'])
        return ops

    def gen_error_case(self):
        """histories that leave the theorem's precondition: the model must still agree (Raise kinds)"""
        r = self.rng
        ops = self.gen_case(size=r.choice([2, 4, 8]))
        i = r.randint(0, len(ops))
        c = r.choice(self.contigs)
        m = r.random()
        if m < 0.25:
            bad = [['add', c, r.randint(-9, 5), r.randint(-9, -1), 1, 1, 1]]                # negative end
        elif m < 0.5:
            s = r.randint(3, 20)
            bad = [['add', c, s, s - r.randint(1, 3), 1, 1, 1]]                             # inverted
        elif m < 0.75:
            bad = [['add', c, 4, 9, 5, 0, 1], ['add', c, 4, 9, 5, r.choice([1, 2]), 1]]     # None vs str strand
        else:
            bad = [['add', c, 4, 9, 5, 3, 1]]                                               # invalid strand
        return ops[:i] + bad + ops[i:] + [['sort'], ['at', c, 5, 0, 0]]

    def exhaustive_cases(self, K, two_second):
        """every pair (first round feature, second round feature(s)) over coordinates 0..K-1, one contig, asked at every
        point and every range before and after the second round; both with and without an explicit re-index"""
        ivs = [(s, e) for s in range(K) for e in range(s, K)]
        pts = list(range(-1, K + 1))
        qs = [['at', 0, x, 0, 0] for x in pts] + [['between', 0, a, b, 0] for a in pts for b in pts if a <= b]
        cases = []
        seconds = [[iv] for iv in ivs] + ([[i1, i2] for i1 in ivs for i2 in ivs if i1 <= i2] if two_second else [])
        for (s1, e1) in ivs:
            for n, sec in enumerate(seconds):
                ops = [['add', 0, s1, e1, 1, 1, 1], ['sort']] + qs
                ops += [['add', 0, s, e, 2 + j, 1 + (j % 2), 2] for j, (s, e) in enumerate(sec)]
                if n % 2:
                    ops.append(['sort'])
                ops += qs
                cases.append(ops)
        return cases

    def long_case(self):
        """more than 512 distinct questions: the LRU bound of the cache is reached"""
        r = self.rng
        self.contigs = [0, 1]
        ops, pool = [], []
        for rd in range(2):
            for _ in range(15):
                f = self.gen_feature(60, False, pool); pool.append(f); ops.append(['add'] + f)
            ops.append(['sort'])
            for x in range(-5, 150):
                for c in (0, 1):
                    ops.append(['at', c, x, r.choice([0, 1, 2]), 0])
            ops += [['at', 0, x, 0, 0] for x in range(0, 40)]
        return ops

    def all_cases(self):
        quick = self.tier == 'quick'
        corpus = []
        d = os.path.join(fw.VERIF, 'corpus', 'C16')
        if os.path.isdir(d):
            for fn in sorted(os.listdir(d)):
                if fn.endswith('.json'):
                    corpus.append(json.load(open(os.path.join(d, fn)))['ops'])
        rnd = [self.gen_case() for _ in range(260 if quick else 10000)]
        err = [self.gen_error_case() for _ in range(40 if quick else 1000)]
        exh = self.exhaustive_cases(3, False) if quick else self.exhaustive_cases(5, False) + self.exhaustive_cases(4, True)
        lng = [self.long_case() for _ in range(1 if quick else 6)]
        self.groups = {'corpus': len(corpus), 'random': len(rnd), 'error_paths': len(err), 'exhaustive': len(exh), 'lru_bound': len(lng)}
        return corpus + rnd + err + exh + lng

    # ------------------------------------------------------------------ K
    def run_impl_cases(self, cases):
        n = max(1, min(fw.NPROC, 8, len(cases) // 40 + 1))
        chunks = [cases[i::n] for i in range(n)]
        from concurrent.futures import ThreadPoolExecutor
        with ThreadPoolExecutor(max_workers=n) as ex:
            outs = list(ex.map(lambda ch: fw.run_impl('impl_c16.py', {'cases': ch}), chunks))
        res = [None] * len(cases)
        for j, o in enumerate(outs):
            for i, r in enumerate(o['results']):
                res[j + i * n] = r
        self.impl_file = outs[0]['file']
        return res

    @staticmethod
    def canon_impl(op, r):
        """implementation answer -> the model's result encoding (order kept for the list valued default lookup)"""
        k = op[0]
        if 'error' in r:
            name = r['error'].split(':')[0]
            if name == 'ValueError':
                return [1, 4 if k == 'add' else 3]
            return [1, ERR.get(name, 99)]
        if k == 'annot':
            return ['hits', r['hits']]
        if k == 'at' and op[4] == 0:
            return [0, r['ok']]
        return [0, sorted(r['ok'])]

    @staticmethod
    def canon_model(op, ms):
        k = op[0]
        for m in ms:
            if m[0] == 1:
                if k == 'annot' and op[6] == 0 and m[1] == 1:
                    return ['hits', []]      # annotate(method=0) swallows TypeError ("no reads map")
                return m
        if k == 'annot':
            return ['hits', sorted(set(f[4] for m in ms for f in m[1]))]
        if k == 'at' and op[4] == 0:
            return [0, ms[0][1]]
        return [0, sorted(ms[0][1])]

    def correspondence_base(self):
        cases = self.all_cases()
        impl = self.run_impl_cases(cases)
        self.cases, self.impl = cases, impl
        cov = self.cov
        nq = sum(1 for c, r in zip(cases, impl) for op in c[:len(r)] if op[0] not in ('add', 'sort'))
        hist_feats = collections.Counter()
        hist_kind = collections.Counter()
        hist_ans = collections.Counter()
        hist_contigs = collections.Counter()
        requery = 0
        pysam_bad = []
        nontrivial = set()
        for c, r in zip(cases, impl):
            nf = sum(1 for op in c if op[0] == 'add')
            hist_feats['<=2' if nf <= 2 else '<=5' if nf <= 5 else '<=20' if nf <= 20 else '<=80' if nf <= 80 else '<=200'] += 1
            hist_contigs[len(set(op[1] for op in c if op[0] == 'add'))] += 1
            seen, dirty, state = {}, set(), []
            for op, a in zip(c, r):
                k = op[0]
                hist_kind[k] += 1
                if k == 'add':
                    state.append(tuple(op[1:]))
                    dirty = set(seen)
                    continue
                if k == 'sort' or 'error' in a:
                    continue
                key = json.dumps(op)
                if key in dirty:
                    requery += 1
                    dirty.discard(key)
                seen[key] = 1
                size = len(a['hits']) if k == 'annot' else len(a['ok'])
                hist_ans['0' if size == 0 else '1' if size == 1 else '2-4' if size <= 4 else '5-19' if size <= 19 else '20+'] += 1
                if size:
                    nontrivial.add(fw.canon_hash([sorted(state), op]))
                if k == 'blocks':
                    _, cc, pos, cigar, q, meth = op
                    bl = cigar_blocks(pos, cigar)
                    if a['get_blocks'] != bl or a['pairs'] != [p for x, y in bl for p in range(x, y)]:
                        pysam_bad.append([op, a['get_blocks']])
        pre = [wf_history(c) for c in cases]
        cov.update({
            'evaluations': nq,
            'distinct_nontrivial': len(nontrivial),
            'rule': 'one evaluation = one query answered by the real container inside a history and compared with the model. '
                    'non-trivial = the answer is not empty; distinct by hash of (sorted feature multiset at that moment, query)',
            'histories': len(cases), 'groups': self.groups,
            'features_per_history': dict(hist_feats), 'contigs_per_history': {str(k): v for k, v in hist_contigs.items()},
            'ops': dict(hist_kind), 'answer_size': dict(hist_ans),
            'queries_repeated_after_a_later_addFeature': requery,
            'precondition_hit_rate': round(sum(pre) / len(pre), 4),
            'pysam_block_contract_violations': len(pysam_bad),
            'implementation_file': self.impl_file,
            'exhaustive': False,
            'exhaustive_small_scope': 'every (first feature; second round of 1%s features) over coordinates 0..%d, all points and ranges asked '
                          'before and after the second round' % ('' if self.tier == 'quick' else ' (0..4) or 1-2 (0..3)', 2 if self.tier == 'quick' else 4),
            'samples': [{'history': c[:14], 'impl': r[:14]} for c, r in list(zip(cases, impl))[self.groups['corpus']:self.groups['corpus'] + 2]],
        })
        if pysam_bad:
            raise fw.Broken('correspondence', 'pysam get_blocks / get_aligned_pairs differ from the modelled contract: %r' % pysam_bad[0])
        if not self.model_ok:
            return
        # model runs
        mcases, spans = [], []
        for c in cases:
            mo, sp = [], []
            for op in c:
                e = model_ops(op)
                sp.append((len(mo), len(mo) + len(e)))
                mo += e
            mcases.append(mo); spans.append(sp)
        mres = fw.run_model('C16', 0, mcases)
        mpre = fw.run_model('C16', 1, mcases)
        mspec = fw.run_model('C16', 2, mcases)
        if [bool(x) for x in mpre] != pre:
            i = [bool(x) for x in mpre].index(not pre[0]) if False else next(j for j in range(len(pre)) if bool(mpre[j]) != pre[j])
            raise fw.Broken('correspondence', 'harness precondition and hist_wfb differ on %r' % (cases[i][:30],))
        dis, specdis, compared = [], [], 0
        for ci, (c, r) in enumerate(zip(cases, impl)):
            # outside the precondition of the statement (a feature with end < start, an unorderable pair, a reversed range,
            # an unknown lookup variant) the behaviour is not constrained: model and implementation are compared on the
            # longest prefix of the history that is inside it
            wf_len = len(c) if pre[ci] else next(k for k in range(len(c) + 1) if not wf_history(c[:k + 1])) if c else 0
            for oi, (op, a) in enumerate(zip(c, r)):
                if oi >= wf_len:
                    break
                lo, hi = spans[ci][oi]
                gi = self.canon_impl(op, a)
                gm = self.canon_model(op, mres[ci][lo:hi])
                compared += 1
                if gi != gm:
                    dis.append({'case': ci, 'op_index': oi, 'op': op, 'impl': gi, 'model': gm})
                    break
                if pre[ci] and op[0] not in ('add', 'sort'):
                    ms = mspec[ci][lo:hi]
                    if op[0] == 'annot':
                        want = ['hits', sorted(set(f[4] for m in ms for f in m[1]))]
                        got = gi
                    else:
                        want = [0, ms[0][1]]
                        got = [0, sorted(gi[1])] if gi[0] == 0 else gi
                        if op[0] == 'blocks' or op[0] == 'annot':
                            pass
                    if got != want:
                        specdis.append({'case': ci, 'op_index': oi, 'op': op, 'impl': got, 'spec': want})
                        break
                if op[0] != 'add' and ('error' in a or any(m[0] == 1 for m in mres[ci][lo:hi])):
                    break       # the object is left half indexed after an exception inside sort(): not compared further
            if pre[ci] and any('error' in a for op, a in zip(c, r) if op[0] != 'add'):
                specdis.append({'case': ci, 'op': 'exception inside the precondition', 'impl': r[-1]})
        cov['traces_validated_against_impl'] = len(cases)
        cov['answers_compared'] = compared
        cov['disagreements'] = len(dis)
        cov['spec_disagreements'] = len(specdis)
        idx = sorted(self.rng.sample(range(len(cases)), min(100, len(cases))), key=lambda i: len(mcases[i]))
        small = [i for i in idx if len(mcases[i]) <= 120][:100]
        ok, nm, log = fw.vm_crosscheck('C16', 0, [(mcases[i], mres[i]) for i in small])
        cov['vm_compute_crosscheck'] = {'cases': len(small), 'mismatches': nm}
        if not ok:
            raise fw.Broken('extraction', 'vm_compute and extracted model disagree: ' + log[-800:])
        self.dis = dis + specdis
        if dis:
            # diagnosis only: does the tree behave like the code before the repairs (model switches all off, mode 3)?
            try:
                bad = sorted(set(d['case'] for d in dis))
                m3 = fw.run_model('C16', 3, [mcases[i] for i in bad])
                same = 0
                for j, ci in enumerate(bad):
                    ok3 = True
                    for oi, (op, a) in enumerate(zip(cases[ci], impl[ci])):
                        lo, hi = spans[ci][oi]
                        if self.canon_impl(op, a) != self.canon_model(op, m3[j][lo:hi]):
                            ok3 = False
                            break
                        if op[0] != 'add' and ('error' in a or any(m[0] == 1 for m in m3[j][lo:hi])):
                            break
                    same += ok3
                self.notes.append('%d of the %d disagreeing histories are reproduced answer by answer by the model of the '
                                  'unrepaired code (cfg_head: no cache clear D19, no re-index in range/read lookups D32, '
                                  'inclusive block end D20)' % (same, len(bad)))
            except Exception as e:
                self.notes.append('cfg_head diagnosis failed: %r' % (e,))
            raise fw.Broken('correspondence', 'model and implementation disagree on %d histories; first: %s'
                            % (len(dis), json.dumps({k: (cases[v][:40] if k == 'case' else v) for k, v in dis[0].items()})[:1500]))
        if specdis:
            raise fw.Broken('correspondence', 'implementation answers differ from the specification (spec_run) on %d histories; first: %s'
                            % (len(specdis), json.dumps(specdis[0])[:1500]))

    # ------------------------------------------------------------------ extension (Model/C16x.v): generators
    def gen_gtf(self, U, contigs, genes):
        r = self.rng
        types = ['exon', 'gene', 'transcript', 'CDS']
        frames = ['.', '0', '1', '2']
        recs = []
        for _ in range(r.choice([0, 1, 2, 3, 5, 8, 12])):
            if r.random() < 0.08:
                recs.append({'comment': True, 'text': r.choice(['!genome-build X', '#gff-like comment', ' a b c'])})
                continue
            s = r.randint(0, U)
            L = r.choice([0, 0, 1, 2, 3, r.randint(0, max(1, U // 3)), r.randint(0, U)])
            if recs and r.random() < 0.3:
                p = r.choice(recs)
                if not p['comment']:
                    s = r.choice([p['start'] - 1, p['end'] - 1, p['start']]); s = max(0, s)
            g = r.choice(genes)
            attrs = []
            if r.random() < 0.96:
                attrs.append(['gene_id', g])
            if r.random() < 0.6:
                attrs.append(['transcript_id', 't' + g[1:] + r.choice(['a', 'b'])])
            if r.random() < 0.4:
                attrs.append(['gene_name', 'N' + g[1:]])
            if r.random() < 0.08:
                attrs.append(['gene_id', r.choice(genes)])          # a repeated key: the last one wins
            r.shuffle(attrs)
            recs.append({'comment': False, 'chrom': r.choice(contigs), 'type': r.choice(types), 'start': s + 1, 'end': s + L + 1,
                         'strand': r.choice(['+', '+', '-', '-', '+', '-', '+', '-', '+', '-', '+', '-', '.']) if r.random() < 0.25 else r.choice('+-'),
                         'frame': r.choice(frames), 'attrs': attrs})
        par = {}
        if r.random() < 0.4:
            par['select_feature_type'] = r.sample(types, r.choice([1, 1, 2]))
        if r.random() < 0.1:
            par['thirdOnly'] = r.sample(types, r.choice([1, 2, 3]))
        if r.random() < 0.06:
            par['exon_select'] = r.sample(frames, 2)
        m = r.random()
        if m < 0.4:
            par['identifierFields'] = r.choice([['gene_id', 'transcript_id'], ['gene_name'], ['transcript_id', 'gene_id'], ['gene_id']])
        if r.random() < 0.2:
            par['ignChr'] = True
        if r.random() < 0.15:
            par['contig'] = r.choice(contigs)
            if r.random() < 0.5:
                a = r.randint(0, U); par['region'] = [a, a + r.randint(0, U // 2)]
        if r.random() < 0.12:
            par['offset'] = r.choice([0, -1, 1])
        if r.random() < 0.1:
            par['head'] = r.choice([0, 1, 3])
        if r.random() < 0.12:
            par['remapKeys'] = r.choice([{contigs[0]: 'chrA'}, {contigs[-1].replace('chr', ''): 'chrB'}, {contigs[0]: contigs[-1]}])
        lines = [gtf_text(x) for x in recs]
        return ['gtf', par, lines, recs]

    def gen_bed(self, U, contigs):
        r = self.rng
        recs = []
        for i in range(r.choice([0, 1, 2, 3, 5, 8])):
            if r.random() < 0.08:
                recs.append({'track': True, 'n': 2, 'idx': i, 'chrom': '', 'start': 0, 'end': 0, 'name': '', 'strand': ''})
                continue
            s = r.randint(0, U)
            recs.append({'track': False, 'n': r.choice([3, 3, 4, 6, 6, 6, 2, 5, 12, 10, 9]) if r.random() < 0.985 else 1, 'idx': i,
                         'chrom': r.choice(contigs), 'start': s, 'end': s + r.choice([0, 1, 2, 5, r.randint(0, U)]),
                         'name': 'b%d' % r.randint(0, 9), 'strand': r.choice('+-') if r.random() < 0.97 else '.'})
        par = {}
        if r.random() < 0.2:
            par['ignChr'] = True
        if r.random() < 0.1:
            par['remapKeys'] = {contigs[0]: 'chrA'}
        if any(x['n'] in (10, 12) for x in recs):
            par['parseBlocks'] = False
        return ['bed', par, [bed_text(x) for x in recs], recs]

    def gen_xquery(self, U, contigs, pool, asked):
        r = self.rng
        if asked and r.random() < 0.3:
            return list(r.choice(asked))
        c = r.choice(contigs + [x.replace('chr', '') for x in contigs] + ['chrA', 'nope']) if r.random() < 0.25 else r.choice(contigs)
        q = r.choice([0, 0, 0, 1, 2])

        def coord():
            m = r.random()
            if pool and m < 0.6:
                s, e = r.choice(pool)
                return r.choice([s, e, s - 1, e + 1, s + 1, e - 1, (s + e) // 2])
            if m < 0.7:
                return r.randint(-U - 3, -1)
            if m < 0.8:
                return r.randint(U, 3 * U + 5)
            return r.randint(-2, U + 2)
        m = r.random()
        if m < 0.16:
            return ['at', c, coord(), q, r.choice([0, 0, 1, 2])]
        if m < 0.28:
            a, b = sorted([coord(), coord()])
            return ['between', c, a, b, q]
        if m < 0.34:
            return ['between', c, -10 ** 7, 10 ** 7, 0]            # everything on the contig
        if m < 0.5:
            return ['nl', c, coord(), q]
        if m < 0.66:
            return ['nr', c, coord(), q]
        if m < 0.84:
            return ['near', c, coord(), q]
        a, b = coord(), coord()
        if r.random() < 0.5:
            b = a + r.choice([0, 1, 2])
        return ['brk', c, a, b, q]

    def gen_xcase(self):
        r = self.rng
        U = r.choice([8, 12, 30, 100, 1000])
        contigs = r.choice([['chr1'], ['chr1'], ['chr1', 'chr2'], ['chr1', '2', 'chrX'], ['chr1', 'chr2', 'chr3', 'chr4']])
        genes = ['g%d' % i for i in range(r.choice([2, 4, 8]))]
        ops, pool, asked = [], [], []
        for rd in range(r.choice([1, 2, 2, 3, 3])):
            kind = r.choice(['gtf', 'gtf', 'gtf', 'bed', 'adds', 'adds'])
            if kind == 'gtf':
                op = self.gen_gtf(U, contigs, genes)
                pool += [(x['start'] - 1, x['end'] - 1) for x in op[3] if not x['comment']]
                ops.append(op)
            elif kind == 'bed':
                op = self.gen_bed(U, contigs)
                pool += [(x['start'], x['end']) for x in op[3] if not x['track']]
                ops.append(op)
            else:
                for _ in range(r.choice([1, 2, 3, 5, 8])):
                    s = r.randint(0, U); L = r.choice([0, 1, 2, r.randint(0, max(1, U // 3)), r.randint(0, U)])
                    if pool and r.random() < 0.3:
                        s = r.choice(r.choice(pool))
                    pool.append((s, s + L))
                    ops.append(['add', r.choice(contigs), s, s + L, 'a%d' % r.randint(0, 9), r.choice([1, 1, 2]), 'd%d' % r.randint(0, 3)])
                    if r.random() < 0.06:
                        qy = self.gen_xquery(U, contigs, pool, asked); asked.append(qy); ops.append(qy)
                if r.random() < 0.55:
                    ops.append(['sort'])
            for _ in range(r.choice([2, 4, 6, 10])):
                qy = self.gen_xquery(U, contigs, pool, asked); asked.append(qy); ops.append(qy)
        return ops

    def x_exhaustive(self, K):
        """every (feature, second feature) over 0..K-1 on one contig; nearest / BRK lookups at every point before and after
        the second addition, with and without an explicit re-index"""
        ivs = [(s, e) for s in range(K) for e in range(s, K)]
        pts = list(range(-1, K + 1))
        qs = [[k, 'chr1', x, q] for k in ('nl', 'nr', 'near') for x in pts for q in (0, 1)] + \
             [['brk', 'chr1', a, b, 0] for a in pts for b in pts]
        cases = []
        for n, ((s1, e1), (s2, e2)) in enumerate(itertools.product(ivs, ivs)):
            ops = [['add', 'chr1', s1, e1, 'a1', 1, 'd'], ['sort']] + qs + [['add', 'chr1', s2, e2, 'a2', 2, 'd']]
            if n % 2:
                ops.append(['sort'])
            cases.append(ops + qs)
        return cases

    # ------------------------------------------------------------------ extension: K
    def brk_fixed(self):
        try:
            g = _Gen(fw.REPO)
            b = g.body_wo_doc(g.fn('findFeaturesBetweenBRK'))
            return bool(b) and g.is_autosort(b[0])
        except Exception:
            return False

    def run_impl_xcases(self, cases):
        n = max(1, min(fw.NPROC, 4, len(cases) // 60 + 1))
        chunks = [cases[i::n] for i in range(n)]
        from concurrent.futures import ThreadPoolExecutor
        with ThreadPoolExecutor(max_workers=n) as ex:
            outs = list(ex.map(lambda ch: fw.run_impl('impl_c16.py', {'xcases': [[[op[0], x_kwargs(op[1]), op[2]] if op[0] in ('gtf', 'bed') else op
                                                                                for op in c] for c in ch]}), chunks))
        res = [None] * len(cases)
        for j, o in enumerate(outs):
            for i, r in enumerate(o['results']):
                res[j + i * n] = r
        return res

    def x_all_cases(self):
        quick = self.tier == 'quick'
        corpus = []
        d = os.path.join(fw.VERIF, 'corpus', 'C16')
        if os.path.isdir(d):
            for fn in sorted(os.listdir(d)):
                if fn.endswith('.xjson'):
                    corpus.append(json.load(open(os.path.join(d, fn)))['ops'])
        rnd = [self.gen_xcase() for _ in range(400 if quick else 12000)]
        exh = self.x_exhaustive(3 if quick else 4)
        self.xgroups = {'corpus': len(corpus), 'random': len(rnd), 'exhaustive': len(exh)}
        return corpus + rnd + exh

    @staticmethod
    def x_canon_impl(op, r):
        if 'error' in r:
            return ['raise', r['error'].split(':')[0]]
        return ['ok', sorted(r['ok'])]         # the order of an answer is not part of the statement

    @staticmethod
    def x_canon_model(op, m):
        if m[0] == 1:
            return ['raise', XERR.get(m[1], '?')]
        return ['ok', sorted(m[1])]

    def correspondence_x(self):
        cases = self.x_all_cases()
        impl = self.run_impl_xcases(cases)
        bf = self.brk_fixed()
        enc = [x_encode(c, r) for c, r in zip(cases, impl)]
        self.xcases, self.ximpl, self.xenc, self.xbf = cases, impl, enc, bf
        cov = {}
        self.cov['extension'] = cov
        kinds, ans, load_out, tok_bad = collections.Counter(), collections.Counter(), collections.Counter(), []
        nontrivial = set()
        requery = 0
        for c, r, (tab, cops, cimpl) in zip(cases, impl, enc):
            seen, dirty = {}, set()
            for (i, cop, allf, clean), op, a in zip(x_walk(cops), c, cimpl):
                k = op[0]
                kinds[k] += 1
                if k in ('gtf', 'bed'):
                    load_out[k + ':' + (a['error'].split(':')[0] if 'error' in a else 'ok')] += 1
                    if k == 'gtf':
                        for line, rec in zip(op[2], op[3]):
                            t = gtf_tokens(line)
                            if t != ({'comment': True} if rec['comment'] else {x: rec[x] for x in t}):
                                tok_bad.append(line)
                    dirty = set(seen)
                if k == 'add':
                    dirty = set(seen)
                if k in ('add', 'sort', 'gtf', 'bed') or 'error' in a:
                    continue
                key = json.dumps(op)
                if key in dirty:
                    requery += 1; dirty.discard(key)
                seen[key] = 1
                n = len(a['ok'])
                ans[k + (':0' if n == 0 else ':1' if n == 1 else ':2+')] += 1
                if n:
                    nontrivial.add(fw.canon_hash([sorted(allf), cop]))
        pre = [x_wf(cops, bf) for _, cops, _ in enc]
        nq = sum(1 for c, r in zip(cases, impl) for op in c[:len(r)] if op[0] not in ('add', 'sort'))
        cov.update({
            'evaluations': nq, 'distinct_nontrivial': len(nontrivial),
            'rule': 'one evaluation = one lookup or loader call answered by the real container inside a history and compared with the '
                    'model (Model/C16x.v); non-trivial = non empty answer, distinct by (feature multiset at that moment, query)',
            'histories': len(cases), 'groups': self.xgroups, 'ops': dict(kinds), 'answers': dict(ans), 'loader_outcomes': dict(load_out),
            'queries_repeated_after_a_later_addition': requery, 'precondition_hit_rate': round(sum(pre) / max(1, len(pre)), 4),
            'gtf_tokenisation_contract_violations': len(tok_bad), 'findFeaturesBetweenBRK_reindexes_first': bf,
            'samples': [{'history': [op[:3] if op[0] in ('gtf', 'bed') else op for op in c[:8]], 'impl': r[:8]}
                        for c, r in list(zip(cases, impl))[self.xgroups['corpus']:self.xgroups['corpus'] + 2]],
        })
        self.cov['evaluations'] = self.cov.get('evaluations', 0) + nq
        self.cov['distinct_nontrivial'] = self.cov.get('distinct_nontrivial', 0) + len(nontrivial)
        if tok_bad:
            raise fw.Broken('correspondence', 'the harness tokenisation of a generated GTF line differs from its structure: %r' % tok_bad[0])
        if not self.model_ok:
            return
        mcases = [x_model_case(tab, c, cops) for c, (tab, cops, _) in zip(cases, enc)]
        mres = fw.run_model('C16', 10, mcases)
        mpre = fw.run_model('C16', 11, mcases)
        mspec = fw.run_model('C16', 12, mcases)
        for j in range(len(cases)):
            if bool(mpre[j]) != pre[j]:
                raise fw.Broken('correspondence', 'harness precondition x_wf and xhist_wfb differ on %s' % json.dumps(cases[j])[:1200])
        dis, specdis, compared = [], [], 0
        for ci, (c, (tab, cops, cimpl)) in enumerate(zip(cases, enc)):
            # outside the precondition (a loader call that raises, an ill-formed feature, an unorderable pair) behaviour is not
            # constrained: compared on the longest prefix inside it.  The BRK guard only gates the comparison with the
            # specification: the model follows the source there (g_autosort_brk)
            n_model = x_wf_len(cops, True)
            n_spec = x_wf_len(cops, bf)
            for i, cop, allf, clean in x_walk(cops):
                if i >= len(cimpl) or i >= n_model:
                    break
                a, m = cimpl[i], mres[ci][i]
                gi, gm = self.x_canon_impl(cop, a), self.x_canon_model(cop, m)
                compared += 1
                if gi != gm:
                    dis.append({'case': ci, 'op_index': i, 'op': c[i][:3] if c[i][0] in ('gtf', 'bed') else c[i], 'impl': gi, 'model': gm,
                                'history': [op[:3] if op[0] in ('gtf', 'bed') else op for op in c[:i]]})
                    break
                if i < n_spec and 'error' not in a and cop[0] not in ('add', 'sort', 'gtf', 'bed'):
                    # the specification of the theorems (xspec_run, mode 12) on the implementation's answer, and the Python
                    # transcription search() uses against both
                    sm = self.x_canon_model(cop, mspec[ci][i])
                    si = ['ok', sorted(a['ok'])]
                    if si != sm:
                        specdis.append({'case': ci, 'op_index': i, 'op': c[i], 'impl': si, 'spec': sm, 'history': [op[:3] if op[0] in ('gtf', 'bed') else op for op in c[:i]]})
                        break
                    if x_spec_check(cop, allf, a) is not None:
                        specdis.append({'case': ci, 'op_index': i, 'op': c[i], 'impl': si, 'python_spec': x_spec_check(cop, allf, a)})
                        break
                if m[0] == 1 and m[1] in (1, 2, 3) or ('error' in a and cop[0] not in ('add', 'gtf', 'bed')):
                    break           # half indexed after an exception inside sort(): not compared further
            if pre[ci] and any('error' in a for a in cimpl):
                specdis.append({'case': ci, 'op': 'exception inside the precondition', 'impl': [a for a in cimpl if 'error' in a][0],
                                'history': [op[:3] if op[0] in ('gtf', 'bed') else op for op in c]})
        cov['traces_validated_against_impl'] = len(cases)
        cov['answers_compared'] = compared
        cov['disagreements'] = len(dis)
        cov['spec_disagreements'] = len(specdis)
        self.cov['traces_validated_against_impl'] = self.cov.get('traces_validated_against_impl', 0) + len(cases)
        idx = sorted(self.rng.sample(range(len(cases)), min(140, len(cases))), key=lambda i: len(json.dumps(mcases[i])))[:100]
        ok, nm, log = fw.vm_crosscheck('C16', 10, [(mcases[i], mres[i]) for i in idx], run_name='run_C16x', require='Model.C16x')
        cov['vm_compute_crosscheck'] = {'cases': len(idx), 'mismatches': nm}
        if not ok:
            raise fw.Broken('extraction', 'vm_compute and extracted model disagree (extension): ' + log[-800:])
        self.xdis = dis + specdis
        if dis:
            raise fw.Broken('correspondence', 'extension: model and implementation disagree on %d histories; first: %s'
                            % (len(dis), json.dumps(dis[0])[:1800]))
        if specdis:
            raise fw.Broken('correspondence', 'extension: implementation answers differ from the specification on %d histories; first: %s'
                            % (len(specdis), json.dumps(specdis[0])[:1800]))

    def search_x(self):
        cases = getattr(self, 'xcases', None)
        if cases is None:
            cases = self.x_all_cases()
            impl = self.run_impl_xcases(cases)
            enc = [x_encode(c, r) for c, r in zip(cases, impl)]
            bf = self.brk_fixed()
        else:
            impl, enc, bf = self.ximpl, self.xenc, self.xbf
        found = {}
        for c, (tab, cops, cimpl) in zip(cases, enc):
            f = x_classify(c, cops, cimpl, bf)
            if f and (f[0] not in found or len(json.dumps(c[:f[1] + 1])) < found[f[0]][2]):
                found[f[0]] = (c, f, len(json.dumps(c[:f[1] + 1])))
        for key in sorted(found, key=lambda k: found[k][2])[:3]:
            c, f, _ = found[key]
            small = self.x_shrink(c, key, bf)
            r = self.run_impl_xcases([small])[0]
            tab, cops, cimpl = x_encode(small, r)
            f2 = x_classify(small, cops, cimpl, bf)
            if f2 is None:
                continue
            k2, i, got, exp = f2
            show = [op[:3] if op[0] in ('gtf', 'bed') else op for op in small]
            if exp is None:
                what = 'after the history %s the call %s: %s (inside the precondition of C16_xhistory every call returns normally)' % (
                    json.dumps(show[:i]), json.dumps(show[i]), got if isinstance(got, str) else json.dumps(got))
            else:
                what = ('after the history %s the call %s returns %s; the statement (brute force over everything loaded / added so far; for '
                        'findNearestLeftFeature / findNearestFeature the answer of a fresh container over everything added so far) gives %s; '
                        'strings are numbered by the table %s' % (json.dumps(show[:i]), json.dumps(show[i]), json.dumps(r[i].get('ok')),
                                                                  json.dumps(r[i].get('fresh') if cops[i][0] in ('nl', 'near') and r[i].get('fresh') != r[i].get('ok') else exp), json.dumps(tab)))
            self.witnesses.append({'key': k2, 'what': what, 'input': show[:i + 1], 'impl': r[i].get('ok', r[i]), 'expected': exp})

    def x_shrink(self, ops, key, bf):
        """greedy removal of operations (and of file lines inside a loader call) keeping the failure class; all candidates of
        a round run in one batch on the real implementation"""
        def bad_many(cands):
            out = []
            for c, r in zip(cands, self.run_impl_xcases(cands)):
                tab, cops, cimpl = x_encode(c, r)
                f = x_classify(c, cops, cimpl, bf)
                out.append(f if f is not None and f[0] == key else None)
            return out
        f = bad_many([ops])[0]
        if f is None:
            return ops
        cur = list(ops[:f[1] + 1])
        for _ in range(8):
            cands = [cur[:i] + cur[i + 1:] for i in range(len(cur) - 1)]
            for j, op in enumerate(cur):
                if op[0] in ('gtf', 'bed'):
                    for n in range(len(op[2])):
                        recs = op[3][:n] + op[3][n + 1:]
                        if op[0] == 'bed':
                            recs = [dict(x, idx=t) for t, x in enumerate(recs)]
                        cands.append(cur[:j] + [[op[0], op[1], op[2][:n] + op[2][n + 1:], recs]] + cur[j + 1:])
            if not cands:
                break
            res = bad_many(cands)
            ok = [c for c, f in zip(cands, res) if f is not None]
            if not ok:
                break
            cur = min(ok, key=lambda c: len(json.dumps(c)))
            # several removals at once when many candidates survive: keep removing greedily inside this batch result
        return cur

    # ------------------------------------------------------------------ extension: the attribute column at character level
    def gen_attr_text(self):
        r = self.rng
        toks = ['gene_id', 'transcript_id', 'gene_name', 'tag', 'k', 'g1', 'g2', 'ENSG0001.5', 't-1', 'a=b', 'x"y', '""', 'v']
        parts = []
        for _ in range(r.choice([1, 1, 2, 3, 4, 6])):
            m = r.random()
            k, v = r.choice(toks), r.choice(toks)
            if m < 0.55:
                parts.append('%s "%s"' % (k, v))
            elif m < 0.65:
                parts.append('%s %s' % (k, v))
            elif m < 0.72:
                parts.append('%s  \t "%s" ' % (k, v))
            elif m < 0.8:
                parts.append('%s "%s" %s' % (k, v, r.choice(toks)))
            elif m < 0.86:
                parts.append(k)
            elif m < 0.9:
                parts.append('')
            elif m < 0.95:
                parts.append(' ' + r.choice(['\x0b', '\x0c', '\x1c', ' ']) + '%s "%s"' % (k, v))
            else:
                parts.append('%s "%s %s"' % (k, v, v))
        sep = r.choice(['; ', ';', ' ; ', ';  '])
        text = sep.join(parts) + r.choice([';', '; ', '', ' ;;'])
        return text if text.strip() else 'k "v";'

    def gen_printed_attrs(self, n):
        """(text, pairs): print_attrs (Model/C16a.v) of clean, distinct-key pairs - the inputs of C16_gtf_attrs_roundtrip"""
        r = self.rng
        keys = ['gene_id', 'transcript_id', 'gene_name', 'exon_number', 'tag', 'k']
        vals = ['g1', 'ENSG0001.5', 't-1', 'a=b', '7', 'x:y,z']
        out = []
        for _ in range(n):
            ks = r.sample(keys, r.choice([1, 2, 3, 4]))
            kvs = [[k, r.choice(vals)] for k in ks]
            out.append((''.join('%s "%s"; ' % (k, v) for k, v in kvs), kvs))
        return out

    def search_attrs(self):
        """C16_gtf_attrs_roundtrip evaluated on the real loadGTF: a printed attribute column must come back as its pairs"""
        pr = self.gen_printed_attrs(120)
        out = fw.run_impl('impl_c16.py', {'attrs': [t for t, _ in pr]})['attrs']
        bad = [(t, kvs, o) for (t, kvs), o in zip(pr, out) if o != kvs + [['type', 'gene']]]
        if bad:
            t, kvs, o = min(bad, key=lambda b: len(b[0]))
            self.witnesses.append({'key': 'x-attrs:roundtrip',
                                   'what': 'loadGTF(store_all=True) parses the attribute column %r into %s; the printed pairs are %s '
                                           '(C16_gtf_attrs_roundtrip)' % (t, json.dumps(o), json.dumps(kvs)),
                                   'input': t, 'impl': o, 'expected': kvs})

    def correspondence_attrs(self):
        """Model/C16a.v parse_attrs against the attribute parsing of the real loadGTF (store_all=True exposes keyValues)"""
        n = 300 if self.tier == 'quick' else 6000
        texts = [self.gen_attr_text() for _ in range(n)] + [t for t, _ in self.gen_printed_attrs(n // 5)]
        texts = [t for t in texts if len(t.strip().split(None, 1)) > 0 and '\n' not in t]
        out = fw.run_impl('impl_c16.py', {'attrs': texts})['attrs']
        cov = self.cov.setdefault('extension', {})
        cov['attribute_columns_parsed_by_real_loadGTF'] = len(texts)
        cov['attribute_columns_distinct'] = len(set(texts))
        cov['attribute_columns_with_2plus_pairs'] = sum(1 for o in out if o and len(o) > 2)
        if not self.model_ok:
            return
        mres = fw.run_model('C16', 14, texts)
        bad = []
        for t, m, o in zip(texts, mres, out):
            d = {}
            for k, v in m:
                d[''.join(map(chr, k))] = ''.join(map(chr, v))
            want = [[k, v] for k, v in d.items()] + [['type', 'gene']]
            if 'type' in d:
                want = [[k, (v if k != 'type' else 'gene')] for k, v in d.items()]
            if o != want:
                bad.append({'attribute_column': t, 'impl': o, 'model': want})
        cov['attribute_column_disagreements'] = len(bad)
        idx = list(range(min(100, len(texts))))
        ok, nm, log = fw.vm_crosscheck('C16', 14, [(texts[i], mres[i]) for i in idx], run_name='run_C16x', require='Model.C16x')
        cov['attribute_vm_compute_crosscheck'] = {'cases': len(idx), 'mismatches': nm}
        if not ok:
            raise fw.Broken('extraction', 'vm_compute and extracted model disagree (attribute parser): ' + log[-600:])
        if bad:
            self.attr_bad = bad
            raise fw.Broken('correspondence', 'extension: the attribute column parser of Model/C16a.v and loadGTF disagree on %d columns; first: %s'
                            % (len(bad), json.dumps(bad[0])[:600]))

    def correspondence(self):
        first = None
        for part in (self.correspondence_base, self.correspondence_x, self.correspondence_attrs):
            try:
                part()
            except fw.Broken as e:
                first = first or e
        if first is not None:
            raise first

    def search(self):
        self.search_base()
        self.search_x()
        self.search_attrs()

    # ------------------------------------------------------------------ search (no model)
    def search_base(self):
        """the specification (Python transcription of spec_at / spec_between / spec_blocks of Model/C16.v, see
        spec_answer) is evaluated on the implementation's own answers; the smallest failing history of every failure
        class is shrunk by delta debugging inside one process on the real implementation"""
        cases = getattr(self, 'cases', None)
        impl = getattr(self, 'impl', None)
        if cases is None:
            cases = self.all_cases()
            impl = self.run_impl_cases(cases)
        found = {}
        for c, r in zip(cases, impl):
            f = classify(c, r)
            if f and (f[0] not in found or f[1] < found[f[0]][1]):
                found[f[0]] = (c, f[1])
        # one witness per kind of call first (at / between / blocks / annot), then the remaining classes
        keys, rest = [], sorted(found)
        while rest and len(keys) < 5:
            kinds = set()
            for k in list(rest):
                if k.split(':')[0] not in kinds:
                    kinds.add(k.split(':')[0]); keys.append(k); rest.remove(k)
        todo = [[k, found[k][0]] for k in keys[:5]]
        if not todo:
            return
        out = fw.run_impl('impl_c16.py', {'shrink': todo})
        for (key, c), small in zip(todo, out['shrunk']):
            f = classify(small['ops'], small['impl'])
            if f is None:
                continue
            k2, i, got, exp = f
            ops = small['ops']
            if exp is None:
                what = ('after the history %s the call %s: %s; the history is inside the precondition of C16_history, where every '
                        'call returns normally' % (json.dumps(ops[:i]), json.dumps(ops[i]), got))
            else:
                what = ('after the history %s the call %s returns %s; the specification (features of everything added so far that '
                        'overlap the query) is %s' % (json.dumps(ops[:i]), json.dumps(ops[i]), json.dumps(got), json.dumps(exp)))
            self.witnesses.append({
                'key': k2,
                'what': what,
                'input': ops[:i + 1], 'impl': got, 'expected': exp})
