"""runs the REAL tagger for C05 (conservation of records):
  * 'slice'  : the one-contig-per-process job construction block of tag_multiome_multi_processing, located in the
               current AST and executed from the current source with a stubbed get_contigs_with_reads; the resulting
               job list is passed through the real generate_tasks
  * 'cases'  : synthetic BAMs through run_multiome_tagging_cmd (single / --multiprocess), output read back with pysam;
               a run whose argument list starts with '--BINNED' goes through the same command line entry point with
               tag_multiome_multi_processing called with one_contig_per_process=False (reachable from the Python API only)
  * 'sel'    : job lists under a contig selection (-contig / -skip_contig): the real tag_multiome_multi_processing is
               called in both job modes with molecule_iterator_args['contig'] / ['skip_contigs'], get_contigs_with_reads
               stubbed, a real (header-only) BAM for the contig lengths, generate_tasks intercepted
"""
import ast, io, json, os, sys, textwrap, traceback, contextlib
import fw


# ----------------------------------------------------------------------------- source slice
def locate_job_block(repo):
    """returns (source text of the `if one_contig_per_process:` body, first line, last line); fail closed"""
    path = os.path.join(repo, 'singlecellmultiomics', 'universalBamTagger', 'bamtagmultiome.py')
    src = open(path).read()
    tree = ast.parse(src)
    fn = [n for n in tree.body if isinstance(n, ast.FunctionDef) and n.name == 'tag_multiome_multi_processing']
    if len(fn) != 1:
        raise RuntimeError('tag_multiome_multi_processing not found exactly once')
    cands = [n for n in ast.walk(fn[0]) if isinstance(n, ast.If) and isinstance(n.test, ast.Name)
             and n.test.id == 'one_contig_per_process']
    if len(cands) != 1:
        raise RuntimeError('`if one_contig_per_process:` block not found exactly once (%d)' % len(cands))
    node = cands[0]
    # the else branch must still be the binned job list (so that the if-body is the whole contig-per-process logic)
    assigned = set()
    for st in node.body:
        for n in ast.walk(st):
            if isinstance(n, ast.Name) and isinstance(n.ctx, ast.Store):
                assigned.add(n.id)
    if 'job_gen' not in assigned:
        raise RuntimeError('the one_contig_per_process block does not assign job_gen')
    lines = src.splitlines()
    first, last = node.body[0].lineno, node.body[-1].end_lineno
    text = textwrap.dedent('\n'.join(lines[first - 1:last]))
    # names the block may read: only these are provided
    return text, first, last


class _Captured(BaseException):
    pass


def run_slice(repo, contig_lists, force_route=None):
    """job list the real code builds for a list of (contig, length) with reads.  Primary route: call the real
    tag_multiome_multi_processing(one_contig_per_process=True) with get_contigs_with_reads stubbed and generate_tasks
    intercepted (the job list it is handed is recorded and the call is abandoned there) - this survives any restructuring
    of the function body.  Fallback route: the `if one_contig_per_process:` block located in the AST and executed from the
    current source lines in the module's own namespace."""
    import singlecellmultiomics.universalBamTagger.bamtagmultiome as tm
    from singlecellmultiomics.universalBamTagger.tagging import generate_tasks
    route, code, text, first, last = 'call-interception', None, '', 0, 0
    if force_route or not (hasattr(tm, 'get_contigs_with_reads') and hasattr(tm, 'generate_tasks')):
        route = 'source-slice'
    saved = {k: getattr(tm, k) for k in ('get_contigs_with_reads', 'generate_tasks') if hasattr(tm, k)}
    outs = []
    try:
        for cl in contig_lists:
            calls = []

            def stub(path, with_length=False, _cl=cl, _calls=calls):
                _calls.append((path, with_length))
                for c, l in _cl:
                    yield (c, l) if with_length else c
            try:
                tm.get_contigs_with_reads = stub
                job_gen = None
                if route == 'call-interception':
                    box = []

                    def capture(*a, **kw):
                        jg = kw.get('job_gen', a[1] if len(a) > 1 else None)
                        box.append([list(j) for j in jg])
                        raise _Captured()
                    tm.generate_tasks = capture
                    try:
                        tm.tag_multiome_multi_processing(
                            input_bam_path='INPUT.bam', out_bam_path=os.path.join(os.getcwd(), 'never_written.bam'),
                            molecule_iterator_args={}, fragment_size=500, bp_per_job=10 ** 7, bp_per_segment=10 ** 6,
                            temp_folder_root=os.getcwd(), one_contig_per_process=True, use_pool=False, additional_args={})
                    except _Captured:
                        job_gen = box[0]
                    finally:
                        tm.generate_tasks = saved['generate_tasks']
                    if job_gen is None:
                        raise RuntimeError('tag_multiome_multi_processing returned without handing a job list to generate_tasks')
                else:
                    if code is None:
                        text, first, last = locate_job_block(repo)
                        code = compile(text, 'bamtagmultiome.py[%d:%d]' % (first, last), 'exec')
                    ns = dict(tm.__dict__)
                    ns.update({'get_contigs_with_reads': stub, 'input_bam_path': 'INPUT.bam'})
                    exec(code, ns)
                    job_gen = ns['job_gen']
                # the job list handed to generate_tasks: a list of jobs, each a list of (contig, start, end, fetch_start,
                # fetch_end); read off directly (the task tuples generate_tasks builds from it are internal)
                jobs = []
                for job_ in job_gen:
                    job = []
                    for a in job_:
                        a = tuple(a)
                        if any(x is not None for x in a[1:5]):
                            raise RuntimeError('contig-per-process task with a region: %r' % (a,))
                        job.append(a[0])
                    jobs.append(job)
                if any(p != 'INPUT.bam' for p, _ in calls):
                    raise RuntimeError('job block reads contigs from another file: %r' % (calls,))
                outs.append({'jobs': jobs})
            except BaseException as e:
                outs.append({'error': '%s: %s' % (type(e).__name__, e)})
    finally:
        for k, v in saved.items():
            setattr(tm, k, v)
    if route == 'call-interception' and outs and all('error' in o for o in outs):
        # the entry point could not be driven this way at all (changed signature ...): try the source slice instead
        try:
            alt = run_slice(repo, contig_lists, force_route=True)
            if not all('error' in o for o in alt['outs']):
                return alt
        except BaseException:
            pass
    return {'lines': [first, last], 'source': text, 'route': route, 'outs': outs}


def run_slice_sel(repo, cases):
    """job lists of the real tag_multiome_multi_processing under a contig selection.  case: {'hdr': [[name, len]..],
    'cwr': [[name, len]..] (what get_contigs_with_reads yields, '*' included or not), 'contig': name|None,
    'skip': [names]|None, 'mode': 'cpp'|'binned', 'bp_per_job', 'bp_per_segment', 'fragment_size'}.
    returns per case {'jobs': [[ [contig, start, end, fetch_start, fetch_end], ..], ..]} or {'error': ..}"""
    import pysam
    import singlecellmultiomics.universalBamTagger.bamtagmultiome as tm
    if not (hasattr(tm, 'get_contigs_with_reads') and hasattr(tm, 'generate_tasks') and hasattr(tm, 'tag_multiome_multi_processing')):
        return {'fatal': 'bamtagmultiome no longer has get_contigs_with_reads / generate_tasks / tag_multiome_multi_processing at module level'}
    saved = {k: getattr(tm, k) for k in ('get_contigs_with_reads', 'generate_tasks')}
    scratch = os.environ.get('SCMO_SCRATCH', os.getcwd())
    hdr_files = {}
    outs = []
    try:
        for case in cases:
            try:
                hk = json.dumps(case['hdr'])
                if hk not in hdr_files:
                    path = os.path.join(scratch, 'selhdr_%d.bam' % len(hdr_files))
                    header = {'HD': {'VN': '1.6', 'SO': 'coordinate'}, 'SQ': [{'SN': n, 'LN': l} for n, l in case['hdr']]}
                    with pysam.AlignmentFile(path, 'wb', header=header):
                        pass
                    hdr_files[hk] = path
                path = hdr_files[hk]
                calls = []

                def stub(p, with_length=False, _cl=case['cwr'], _calls=calls):
                    _calls.append(p)
                    for c, l in _cl:
                        yield (c, l) if with_length else c
                box = []

                def capture(*a, **kw):
                    jg = kw.get('job_gen', a[1] if len(a) > 1 else None)
                    box.append([[list(t) for t in j] for j in jg])
                    raise _Captured()
                tm.get_contigs_with_reads = stub
                tm.generate_tasks = capture
                mia = {'contig': case.get('contig'), 'start': None, 'end': None,
                       'skip_contigs': (set(case['skip']) if case.get('skip') is not None else None)}
                try:
                    with contextlib.redirect_stdout(io.StringIO()), contextlib.redirect_stderr(io.StringIO()):
                        tm.tag_multiome_multi_processing(
                            input_bam_path=path, out_bam_path=os.path.join(scratch, 'never_written.bam'),
                            molecule_iterator_args=mia, fragment_size=case.get('fragment_size', 500),
                            bp_per_job=case.get('bp_per_job', 10 ** 7), bp_per_segment=case.get('bp_per_segment', 10 ** 6),
                            temp_folder_root=scratch, one_contig_per_process=(case['mode'] == 'cpp'), use_pool=False,
                            additional_args={})
                    raise RuntimeError('tag_multiome_multi_processing returned without handing a job list to generate_tasks')
                except _Captured:
                    pass
                finally:
                    tm.get_contigs_with_reads = saved['get_contigs_with_reads']
                    tm.generate_tasks = saved['generate_tasks']
                if any(p != path for p in calls):
                    raise RuntimeError('contigs are read from another file: %r' % (calls,))
                outs.append({'jobs': box[0]})
            except BaseException as e:
                outs.append({'error': '%s: %s' % (type(e).__name__, str(e)[:300])})
    finally:
        for k, v in saved.items():
            setattr(tm, k, v)
        for f in hdr_files.values():
            for g in (f, f + '.bai'):
                try:
                    os.remove(g)
                except OSError:
                    pass
        import shutil
        for d in os.listdir(scratch):       # temp folders tag_multiome_multi_processing created before the interception
            if d.startswith('scmo_') and os.path.isdir(os.path.join(scratch, d)):
                shutil.rmtree(os.path.join(scratch, d), ignore_errors=True)
    return {'outs': outs}


# ----------------------------------------------------------------------------- BAM writing / reading
def write_bam(path, case, index=True):
    import pysam
    header = {'HD': {'VN': '1.6', 'SO': 'coordinate'},
              'SQ': [{'SN': n, 'LN': l} for n, l in case['contigs']]}
    if case.get('rg_header'):
        header['RG'] = [{'ID': g, 'SM': 'upstream', 'PL': 'ILLUMINA'} for g in case['rg_header']]
    with pysam.AlignmentFile(path, 'wb', header=header) as out:
        for r in case['records']:
            a = pysam.AlignedSegment(out.header)
            a.query_name = r['n']
            a.flag = r['f']
            a.reference_id = r['t']
            a.reference_start = r['p']
            a.mapping_quality = r['q']
            if r['c']:
                a.cigarstring = r['c']
            a.query_sequence = r['s']
            a.query_qualities = pysam.qualitystring_to_array(r['ql'])
            a.next_reference_id = r['nt']
            a.next_reference_start = r['np']
            a.template_length = 0
            for k, v in r['tags'].items():
                a.set_tag(k, v)
            out.write(a)
    if index:
        pysam.index(path)


def read_bam(path):
    import pysam
    res = {}
    with pysam.AlignmentFile(path) as f:
        h = f.header.to_dict()
        res['so'] = h.get('HD', {}).get('SO')
        res['rg_ids'] = [g.get('ID') for g in h.get('RG', [])]
        res['pg'] = [g.get('PN') for g in h.get('PG', [])]
        res['sq'] = [[s['SN'], s['LN']] for s in h.get('SQ', [])]
        recs = []
        for r in f.fetch(until_eof=True):
            recs.append({'n': r.query_name, 'f': r.flag, 't': r.reference_id, 'p': r.reference_start,
                         'c': r.cigarstring or '', 's': r.query_sequence or '',
                         'ql': ''.join(chr(q + 33) for q in (r.query_qualities if r.query_qualities is not None else [])),
                         'rg': (r.get_tag('RG') if r.has_tag('RG') else None), 'nt': r.next_reference_id, 'q': r.mapping_quality,
                         'tg': {k: r.get_tag(k) for k in ('SM', 'Fc', 'La', 'LY') if r.has_tag(k)},
                         'ds': bool(r.has_tag('DS')),
                         'id': (r.get_tag('zi') if r.has_tag('zi') else None)})
        res['records'] = recs
    res['bai'] = os.path.exists(path + '.bai')
    # the index must be usable and agree with the file: fetch per contig + unplaced == all
    try:
        with pysam.AlignmentFile(path) as f:
            n = 0
            for c in f.references:
                n += sum(1 for _ in f.fetch(c))
            n += sum(1 for _ in f.fetch('*'))
        res['indexed_count'] = n
    except BaseException as e:
        res['indexed_count'] = -1
        res['index_error'] = '%s: %s' % (type(e).__name__, e)
    return res


def make_stale(inp, stale_bai):
    """history: the input was regenerated in place after an earlier run left its index behind"""
    import shutil
    shutil.copy(stale_bai, inp + '.bai')
    t = os.path.getmtime(inp)
    os.utime(inp + '.bai', (t - 3600, t - 3600))


def one_run(inp, rd, rargs, stale_bai=None):
    import singlecellmultiomics.universalBamTagger.bamtagmultiome as tm
    out = os.path.join(rd, 'out.bam')
    try:
        if stale_bai:
            make_stale(inp, stale_bai)
        rargs = list(rargs)
        binned = bool(rargs) and rargs[0] == '--BINNED'
        if binned:
            # the binned job mode is not reachable from the command line (--multiprocess forces one contig per process):
            # same entry point, the flag overridden at the call of tag_multiome_multi_processing
            rargs = rargs[1:]
            orig = tm.tag_multiome_multi_processing

            def force_binned(*a, **kw):
                kw['one_contig_per_process'] = False
                return orig(*a, **kw)
            tm.tag_multiome_multi_processing = force_binned
        args = [inp, '-o', out] + rargs
        os.chdir(rd)
        with contextlib.redirect_stdout(io.StringIO()), contextlib.redirect_stderr(io.StringIO()):
            tm.run_multiome_tagging_cmd(args)
        res = read_bam(out)
        st = out.replace('.bam', '.status.txt')
        res['status'] = open(st).read().strip() if os.path.exists(st) else None
        res['leftover'] = sorted(x for x in os.listdir(rd) if x not in ('out.bam', 'out.bam.bai', 'out.status.txt'))
        return res
    except SystemExit as e:
        return {'error': 'SystemExit: %s' % (e,)}
    except BaseException as e:
        tb = traceback.extract_tb(e.__traceback__)
        where = ['%s:%s' % (os.path.basename(f.filename), f.name) for f in tb][-3:]
        return {'error': '%s: %s' % (type(e).__name__, str(e)[:200]), 'where': where}


def isolated(fn, timeout):
    """run fn() in a forked child (a failed worker pool must not poison later runs); JSON result through a pipe"""
    import json, select, signal, time
    r, w = os.pipe()
    pid = os.fork()
    if pid == 0:
        code = 0
        try:
            os.close(r)
            os.setsid()
            data = json.dumps(fn()).encode()
            with os.fdopen(w, 'wb') as f:
                f.write(data)
        except BaseException:
            code = 1
        finally:
            os._exit(code)
    os.close(w)
    chunks = []
    t_end = time.time() + timeout
    timed_out = False
    while True:
        left = t_end - time.time()
        if left <= 0:
            timed_out = True
            break
        ready, _, _ = select.select([r], [], [], left)
        if not ready:
            timed_out = True
            break
        b = os.read(r, 1 << 16)
        if not b:
            break
        chunks.append(b)
    os.close(r)
    if timed_out:
        try:
            os.killpg(pid, signal.SIGKILL)
        except OSError:
            pass
    try:
        os.waitpid(pid, 0)
    except OSError:
        pass
    if timed_out:
        return {'error': 'Timeout: tagger run did not finish within %d s' % timeout}
    try:
        return json.loads(b''.join(chunks).decode())
    except ValueError:
        return {'error': 'ChildCrashed: no result from the tagger process'}


def run_case(k, case, timeout=120):
    """one synthetic BAM, several tagger runs (argument lists) on it"""
    scratch = os.environ['SCMO_SCRATCH']
    d = os.path.join(scratch, 'c%d' % k)
    os.makedirs(d, exist_ok=True)
    inp = os.path.join(d, 'in.bam')
    import shutil
    stale_bai = None
    try:
        if case.get('stale'):
            # version 1 of the file (other content), indexed; then version 2 written over it, index left behind
            write_bam(inp, {'contigs': case['stale'].get('contigs', case['contigs']), 'records': case['stale']['records']})
            stale_bai = os.path.join(d, 'stale.bai')
            shutil.copy(inp + '.bai', stale_bai)
            write_bam(inp, case, index=False)
            make_stale(inp, stale_bai)
        else:
            write_bam(inp, case)
        inp_back = read_bam(inp)   # what htslib stored for the input (ground truth for the comparison)
        if case.get('slim_input'):
            inp_back = {'n_records': len(inp_back['records'])}
    except BaseException as e:
        return {'fatal': 'writing the input BAM failed: %s: %s' % (type(e).__name__, e)}
    runs = []
    for j, rargs in enumerate(case['runs']):
        rd = os.path.join(d, 'r%d' % j)
        os.makedirs(rd, exist_ok=True)
        runs.append(isolated(lambda: one_run(inp, rd, rargs, stale_bai), timeout))
    # re-tagging histories: the output of run j is tagged again with other options
    retag = []
    for k, (j, rargs) in enumerate(case.get('retag', [])):
        src = os.path.join(d, 'r%d' % j, 'out.bam')
        rd = os.path.join(d, 't%d' % k)
        os.makedirs(rd, exist_ok=True)
        if not os.path.exists(src):
            retag.append({'error': 'NoInput: run %d produced no output' % j})
        else:
            retag.append(isolated(lambda: one_run(src, rd, rargs), timeout))
    shutil.rmtree(d, ignore_errors=True)
    return {'runs': runs, 'input': inp_back, 'retag': retag}


def handler(p):
    import time
    sys.setrecursionlimit(10000)
    res = {}
    if 'slice' in p:
        try:
            res['slice'] = run_slice(os.environ.get('SCMO_REPO', '/repo'), p['slice'])
        except BaseException as e:
            res['slice'] = {'fatal': '%s: %s' % (type(e).__name__, e)}
    if 'sel' in p:
        try:
            res['sel'] = run_slice_sel(os.environ.get('SCMO_REPO', '/repo'), p['sel'])
        except BaseException as e:
            res['sel'] = {'fatal': '%s: %s' % (type(e).__name__, e)}
    if 'cases' in p:
        # the tagger sleeps 5 s before removing its temp dir in multiprocess mode: not part of the behaviour under test
        import singlecellmultiomics.universalBamTagger.bamtagmultiome as tm
        tm.sleep = lambda s: None
        outs = []
        t0 = time.time()
        for k, c in enumerate(p['cases']):
            outs.append(run_case(p.get('offset', 0) + k, c))
        res['cases'] = outs
        res['wall'] = time.time() - t0
    return res


if __name__ == '__main__':
    fw.impl_main(handler)
