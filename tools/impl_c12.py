"""runs the REAL job-parallel binned counter (bamBinCounts) for C12 on synthetic tagged BAMs"""
import os, sys, io, contextlib
from types import SimpleNamespace
import fw


def make_bam(path, contigs, reads):
    import pysam
    header = {'HD': {'VN': '1.6', 'SO': 'coordinate'}, 'SQ': [{'SN': n, 'LN': l} for n, l in contigs]}
    recs = sorted(enumerate(reads), key=lambda x: (x[1]['c'], x[1]['pos'], x[0]))
    with pysam.AlignmentFile(path, 'wb', header=header) as out:
        for i, r in recs:
            a = pysam.AlignedSegment(out.header)
            a.query_name = 'r%d' % i
            L, span = r['len'], r.get('span') or r['len']
            a.query_sequence = 'A' * L
            a.flag = r['flag']
            a.reference_id = r['c']
            a.reference_start = r['pos']
            a.mapping_quality = r['mq']
            if span > L and L >= 2:
                a.cigar = [(0, L // 2), (3, span - L), (0, L - L // 2)]      # M N M : reference span = span
            else:
                a.cigar = [(0, L)]
            a.query_qualities = pysam.qualitystring_to_array('I' * L)
            if r.get('sm') is not None:
                a.set_tag('SM', r['sm'])
            if r.get('ds') is not None:
                a.set_tag('DS', r['ds'])
            if r.get('mp') is not None:
                a.set_tag('mp', r['mp'])
            if r.get('da') is not None:
                a.set_tag('DA', r['da'])
            if r.get('xm') is not None:
                a.set_tag('XM', r['xm'])
            out.write(a)
    pysam.index(path)


class FakePool:
    """in-process stand-in for multiprocessing.Pool whose imap_unordered completes the jobs in a PRESCRIBED
    order (a worker schedule chosen by the harness)"""
    order = None

    def __init__(self, *a, **k):
        pass

    def __enter__(self):
        return self

    def __exit__(self, *a):
        return False

    def imap_unordered(self, f, cmds, chunksize=1):
        cmds = list(cmds)
        order = FakePool.order if FakePool.order is not None else range(len(cmds))
        for i in order:
            if 0 <= i < len(cmds):
                yield f(cmds[i])

    imap = imap_unordered


def identity(x):
    return x


def canon(counts, key_tags):
    cells = []
    for bin_id, sd in counts.items():
        bin_id = tuple(bin_id)
        if key_tags:
            key, (contig, bs, be) = list(bin_id[:-3]), bin_id[-3:]
        else:
            key, (contig, bs, be) = None, bin_id
        for s, n in sd.items():
            cells.append([key, contig, int(bs), int(be), s, int(n)])
    return cells


def err(e):
    return {'error': '%s: %s' % (type(e).__name__, str(e)[:200])}


def handler(p):
    from singlecellmultiomics.bamProcessing import bamBinCounts as B
    import multiprocessing
    scratch = os.environ['SCMO_SCRATCH']
    sink = io.StringIO()
    out = {'libs': [], 'histories': [], 'jobs': [], 'filters': [], 'merges': [], 'regions': [], 'meth': [], 'mmerges': []}
    real_mp = B.multiprocessing
    fake_mp = SimpleNamespace(Pool=FakePool)

    def run_one(path, run):
        try:
            key_tags = ['DA'] if run['key_tags'] else None
            kwargs = {'ignore_mp': run['ignore_mp']} if run['ignore_mp'] is not None else {}
            with contextlib.redirect_stdout(sink):
                cmds = list(B.generate_commands(path, bin_size=run['b'], bins_per_job=run['k'],
                                                max_fragment_size=run['mfs'], min_mq=run['min_mq'],
                                                key_tags=key_tags, dedup=run['dedup'], kwargs=kwargs))
                if run.get('sched') is not None:
                    FakePool.order = run['sched']
                    B.multiprocessing = fake_mp
                try:
                    counts = B.obtain_counts(cmds, reference=None, live_update=False, threads=run['threads'])
                finally:
                    B.multiprocessing = real_mp
                    FakePool.order = None
            return {'cells': canon(counts, key_tags), 'jobs': [[c[3], c[4], c[5]] for c in cmds]}
        except BaseException as e:
            return err(e)

    # ---- full pipeline (one fresh path per library)
    for n, lib in enumerate(p.get('libs', [])):
        path = os.path.join(scratch, 'l%d.bam' % n)
        try:
            make_bam(path, lib['contigs'], lib['reads'])
        except BaseException as e:
            out['libs'].append({'error': err(e)['error']})
            continue
        out['libs'].append({'runs': [run_one(path, run) for run in lib['runs']]})
        for ext in ('', '.bai'):
            try:
                os.remove(path + ext)
            except OSError:
                pass

    # ---- histories: ONE path per history, rewritten (BAM + index) between steps with other contig lengths / contig
    #      sets, and counted repeatedly in this one process; every count must describe the BAM as it is at that moment
    out['histories'] = []
    for n, hist in enumerate(p.get('histories', [])):
        path = os.path.join(scratch, 'h%d.bam' % n)
        steps = []
        for step in hist:
            try:
                if step.get('rewrite', True):
                    make_bam(path, step['contigs'], step['reads'])
                steps.append({'runs': [run_one(path, run) for run in step['runs']]})
            except BaseException as e:
                steps.append({'error': err(e)['error']})
        out['histories'].append(steps)

    # ---- generate_commands alone (contig sizes injected; the BAM header path is covered above)
    real_gcs = B.get_contig_sizes
    for lens, b, k in p.get('jobs', []):
        try:
            B.get_contig_sizes = lambda path, lens=lens: {'c%d' % i: l for i, l in enumerate(lens)}
            cmds = list(B.generate_commands('x.bam', bin_size=b, bins_per_job=k, kwargs={}))
            ok = all(c[0] == 'x.bam' and c[1] == b for c in cmds)
            out['jobs'].append({'jobs': [[int(c[3][1:]), c[4], c[5]] for c in cmds], 'passthrough': ok})
        except BaseException as e:
            out['jobs'].append(err(e))
        finally:
            B.get_contig_sizes = real_gcs

    # ---- read_counts alone
    for f in p.get('filters', []):
        min_mq, dedup, r1only, ign_mp, ign_qc, is_r1, is_qc, is_dup, mp, mq = f
        tags = {} if mp == 0 else {'mp': 'unique' if mp == 1 else 'multi'}
        read = SimpleNamespace(is_read1=bool(is_r1), is_qcfail=bool(is_qc), is_duplicate=bool(is_dup),
                               mapping_quality=mq, has_tag=lambda t, tags=tags: t in tags,
                               get_tag=lambda t, tags=tags: tags[t])
        try:
            out['filters'].append(bool(B.read_counts(read, min_mq, dedup=bool(dedup), read1_only=bool(r1only),
                                                     ignore_mp=bool(ign_mp), ignore_qcfail=bool(ign_qc))))
        except BaseException as e:
            out['filters'].append(err(e))

    # ---- the merge of obtain_counts alone: prepared job results, completion order = list order
    for results in p.get('merges', []):
        try:
            cmds = [{tuple(q): {s: n for s, n in sd} for q, sd in res} for res in results]
            B.multiprocessing = fake_mp
            FakePool.order = None
            try:
                with contextlib.redirect_stdout(sink):
                    counts = B.obtain_counts(cmds, reference=None, live_update=False, threads=1, count_function=identity)
            finally:
                B.multiprocessing = real_mp
            out['merges'].append([[list(q), [[s, n] for s, n in sd.items()]] for q, sd in counts.items()])
        except BaseException as e:
            out['merges'].append(err(e))

    # ---- D15: get_binned_counts with user regions
    for n, rg in enumerate(p.get('regions', [])):
        path = os.path.join(scratch, 'g%d.bam' % n)
        try:
            reads = [{'c': 0, 'pos': lo, 'len': hi - lo, 'flag': 0, 'mq': 60, 'sm': 'c1', 'ds': s} for lo, hi, s in rg['reads']]
            make_bam(path, [['chr1', rg['len']]], reads)
            regions = [('chr1', a, b) for a, b in rg['regions']] if rg['regions'] is not None else None
            with contextlib.redirect_stdout(sink):
                df = B.get_binned_counts([path], rg['bin'], regions=regions, n_threads=1)
            cells = []
            for idx, row in df.iterrows():
                for s, v in row.items():
                    if v == v and v != 0:
                        cells.append([int(idx[1]), int(v)])
            entry = {'cells': sorted(cells)}
            if rg.get('ext'):
                # the sibling with the same pattern (alias = first index level, samples keyed (alias, sample))
                try:
                    regions2 = [('chr1', a, b) for a, b in rg['regions']]
                    with contextlib.redirect_stdout(sink):
                        df2 = B.get_binned_counts_prefixed({'grp': [path]}, rg['bin'], regions=regions2, n_threads=1)
                    cells2 = []
                    for idx, row in df2.iterrows():
                        for s, v in row.items():
                            if v == v and v != 0:
                                cells2.append([int(idx[1]), int(v)])
                    entry['prefixed'] = sorted(cells2)
                except BaseException as e:
                    entry['prefixed'] = err(e)
            out['regions'].append(entry)
        except BaseException as e:
            out['regions'].append(err(e))
    # ---- count_methylation_binned on the generate_commands tiling, merged by MethylationCountMatrix.update
    def mcells(M):
        cells = []
        counts = getattr(M, 'counts', None)
        if counts is None:
            raise TypeError('MethylationCountMatrix has no counts')
        for sample, locs in counts.items():
            for loc, v in locs.items():
                loc = tuple(loc)
                strand = loc[3] if len(loc) > 3 else None
                cells.append([sample, strand, loc[0], int(loc[1]), int(loc[2]), int(v[0]), int(v[1])])
        return cells

    def meth_one(path, run):
        try:
            from singlecellmultiomics.methylation import MethylationCountMatrix
            kw = {'dyad_mode': bool(run['dyad']), 'stranded': bool(run['stranded'])}
            with contextlib.redirect_stdout(sink):
                if run['via'] == 'caller':
                    from singlecellmultiomics.bamProcessing import bamToMethylationCalls as MC
                    real = MC.multiprocessing
                    if run.get('sched') is not None:
                        FakePool.order = run['sched']
                        MC.multiprocessing = fake_mp
                    try:
                        M, _rc = MC.get_methylation_count_matrix(path, bin_size=run['b'], bp_per_job=run['b'] * run['k'],
                                                                 min_samples=0, min_variance=None, min_mapping_qual=run['min_mq'],
                                                                 threads=run['threads'], count_reads=False, **kw)
                    finally:
                        MC.multiprocessing = real
                        FakePool.order = None
                    return {'cells': mcells(M)}
                kwargs = dict(kw, min_samples=0, min_variance=None)
                cmds = list(B.generate_commands(path, bin_size=run['b'], bins_per_job=run['k'], max_fragment_size=run['mfs'],
                                                min_mq=run['min_mq'], key_tags=None, dedup=run['dedup'], kwargs=kwargs))
                order = run['sched'] if run.get('sched') is not None else range(len(cmds))
                M = MethylationCountMatrix()
                for i in order:
                    if 0 <= i < len(cmds):
                        M.update(B.count_methylation_binned(cmds[i])[0])
            return {'cells': mcells(M), 'jobs': [[c[3], c[4], c[5]] for c in cmds]}
        except BaseException as e:
            return err(e)

    for n, lib in enumerate(p.get('meth', [])):
        path = os.path.join(scratch, 'm%d.bam' % n)
        try:
            make_bam(path, lib['contigs'], lib['reads'])
        except BaseException as e:
            out['meth'].append({'error': err(e)['error']})
            continue
        out['meth'].append({'runs': [meth_one(path, run) for run in lib['runs']]})
        for ext in ('', '.bai'):
            try:
                os.remove(path + ext)
            except OSError:
                pass

    # ---- MethylationCountMatrix.update alone: prepared matrices, completion order = list order
    for mats in p.get('mmerges', []):
        try:
            from singlecellmultiomics.methylation import MethylationCountMatrix
            M = MethylationCountMatrix()
            for mat in mats:
                o = MethylationCountMatrix()
                for s, k, cc, bs, be, u, v in mat:
                    o[s, (k, cc, bs, be)][0] += u
                    o[s, (k, cc, bs, be)][1] += v
                M.update(o)
            cells = []
            for s, locs in M.counts.items():
                for loc, v in locs.items():
                    cells.append([s] + [int(x) for x in loc] + [int(v[0]), int(v[1])])
            out['mmerges'].append(cells)
        except BaseException as e:
            out['mmerges'].append(err(e))
    return out


fw.impl_main(handler)
