"""writes MANIFEST.json from the table below (single source of truth for what is claimed)."""
import json, os, sys
V = os.path.dirname(os.path.dirname(os.path.abspath(__file__)))
sys.path.insert(0, os.path.join(V, 'tools'))
ALL = ['C%02d' % i for i in range(1, 21)]
from claims import CLAIMS, NOT_APPLICABLE  # noqa

checks = []
for pid in ALL:
    if pid not in CLAIMS:
        continue
    c = CLAIMS[pid]
    checks.append({
        'property_id': pid,
        'quick_cmd': './check %s --tier quick' % pid,
        'thorough_cmd': './check %s --tier thorough' % pid,
        'evidence_file': 'evidence/%s.json' % pid,
        'replay_cmd_template': './check %s --replay {path}' % pid,
        'engine': 'coq-scmo',
        'level_claimed': {'category': 'proof', 'text': c['text'], 'design_ref': 'DESIGN.md section 4, %s' % pid},
        'level_note': c['note'],
        'technique': c['technique'],
    })
na = [{'property_id': p, 'reason': NOT_APPLICABLE.get(p, 'check not built yet in this session; no claim is made (see DESIGN.md section 7 build order)')}
      for p in ALL if p not in CLAIMS]
m = {
    'version': 1,
    'setup_cmd': './setup.sh',
    'hooks': {'guard': 'SCMO_VERIF', 'enable': 'no source hooks are used: faults and observations are injected from the harness process '
              '(monkey-patching / source-slice execution); the guard variable is reserved and unused',
              'baseline_off_cmd': 'cd /repo && /venv/bin/python -m pytest -ra -q -p no:cacheprovider --timeout=900',
              'source_commits': [], 'add_only': True},
    'engines': [{'name': 'coq-scmo', 'path': 'coq/', 'serves_properties': sorted(CLAIMS),
                 'kind_free_text': 'Coq 8.16.1 development (models, lemmas, property theorems) tied to /repo by a fail-closed '
                                   'py2coq translator (Gen/*.v regenerated on every run) and by a correspondence check of the '
                                   'extracted models against the real Python implementation'}],
    'checks': checks,
    'not_applicable': na,
    'notes': 'One entry point: ./check <ID> --tier quick|thorough. Known findings in known_findings.json. See DESIGN.md.',
}
json.dump(m, open(os.path.join(V, 'MANIFEST.json'), 'w'), indent=1)
print('claimed', len(checks), 'unclaimed', len(na))
