"""C07 - molecule partition is independent of the buffer-ejection schedule (MoleculeIterator)."""
import ast, hashlib, itertools, json, os
import fw, py2coq
from py2coq import Untranslatable

ITER = 'singlecellmultiomics/molecule/iterator.py'
MOL = 'singlecellmultiomics/molecule/molecule.py'
FRAG = 'singlecellmultiomics/fragment/fragment.py'


# ----------------------------------------------------------------------------- T (translator tie)
class Tr(py2coq.ExprTranslator):
    """ExprTranslator + exact handling of `a - c * 0.5` inside a comparison (both sides doubled)."""

    @staticmethod
    def has_half(n):
        return any(isinstance(c, ast.Constant) and isinstance(c.value, float) for c in ast.walk(n))

    def z2(self, n):
        """translation of 2*n where `x * 0.5` terms become x (exact); any other float fails in self.z"""
        if isinstance(n, ast.BinOp) and isinstance(n.op, (ast.Add, ast.Sub)):
            return '(%s %s %s)' % (self.z2(n.left), '+' if isinstance(n.op, ast.Add) else '-', self.z2(n.right))
        if isinstance(n, ast.BinOp) and isinstance(n.op, ast.Mult):
            for a, b in ((n.left, n.right), (n.right, n.left)):
                if isinstance(b, ast.Constant) and isinstance(b.value, float) and b.value == 0.5:
                    return self.z(a)
        return '(2 * %s)' % self.z(n)

    def cmp1(self, op, l, r):
        if self.has_half(l) or self.has_half(r):
            L, R = self.z2(l), self.z2(r)
            table = {ast.Lt: '(%s <? %s)', ast.LtE: '(%s <=? %s)', ast.Gt: '(%s >? %s)', ast.GtE: '(%s >=? %s)'}
            for k, fmt in table.items():
                if isinstance(op, k):
                    return fmt % (L, R)
            raise Untranslatable('scaled comparison operator outside subset: %s' % ast.dump(op))
        return super().cmp1(op, l, r)


def _strip_doc(body):
    if body and isinstance(body[0], ast.Expr) and isinstance(body[0].value, ast.Constant) \
            and isinstance(body[0].value.value, str):
        return body[1:]
    return body


def _chain(tr, stmts):
    """`if t: return c` ... `return e`  (an `if` with an `else` must be the last statement)"""
    if not stmts:
        raise Untranslatable('guard chain falls off the end (implicit return None)')
    st = stmts[0]
    if isinstance(st, ast.Return):
        if len(stmts) != 1 or st.value is None:
            raise Untranslatable('statement after return / bare return at line %d' % st.lineno)
        return tr.b(st.value)
    if isinstance(st, ast.If):
        body = _chain(tr, st.body)
        if st.orelse:
            if len(stmts) != 1:
                raise Untranslatable('if/else followed by more statements at line %d' % st.lineno)
            rest = _chain(tr, st.orelse)
        else:
            rest = _chain(tr, stmts[1:])
        return '(if %s then %s else %s)' % (tr.b(st.test), body, rest)
    raise Untranslatable('statement outside guard-chain subset at line %d: %s' % (st.lineno, ast.dump(st)[:120]))


def translate_guard_chain(path, qualname, env, coqname, params, repo_rel):
    src = open(path).read()
    fn = py2coq.find_function(ast.parse(src), qualname)
    if not isinstance(fn, ast.FunctionDef):
        raise Untranslatable('%s is not a function' % qualname)
    tr = Tr(env=env)
    body = _chain(tr, _strip_doc(list(fn.body)))
    # hash of the code without the docstring (doc edits must not look like code changes)
    code = '\n'.join(ast.unparse(s) for s in _strip_doc(list(fn.body)))
    sha = hashlib.sha256(code.encode()).hexdigest()
    text = '(* source: %s lines %d-%d (%s) sha256(code) %s *)\nDefinition %s %s : bool :=\n  %s.' % (
        repo_rel, fn.lineno, fn.end_lineno, qualname, sha, coqname, params, body)
    return text, {'source': repo_rel, 'lines': [fn.lineno, fn.end_lineno], 'sha256': sha, 'coq': coqname}


def translate_pop_sites(path, repo_rel):
    """the index expression of the two `<list>.pop(<expr>)` calls of MoleculeIterator.__iter__, each of
    which must sit directly in `for i, j in enumerate(to_pop):`"""
    src = open(path).read()
    fn = py2coq.find_function(ast.parse(src), 'MoleculeIterator.__iter__')
    sites = {}
    parent = {}
    for n in ast.walk(fn):
        for c in ast.iter_child_nodes(n):
            parent[c] = n
    allpops = [c for c in ast.walk(fn) if isinstance(c, ast.Call) and isinstance(c.func, ast.Attribute) and c.func.attr == 'pop']
    for call in allpops:
        loop = parent.get(call)
        while loop is not None and not isinstance(loop, (ast.For, ast.While)):
            loop = parent.get(loop)
        if not isinstance(loop, ast.For) or ast.unparse(loop.target) != '(i, j)' or ast.unparse(loop.iter) != 'enumerate(to_pop)':
            raise Untranslatable('pop call at line %d is not directly inside `for i, j in enumerate(to_pop)`' % call.lineno)
        if len(call.args) != 1 or call.keywords:
            raise Untranslatable('pop call at line %d: expected pop(expr)' % call.lineno)
        if sum(1 for c in ast.walk(loop) if c in allpops) != 1:
            raise Untranslatable('pop loop at line %d: expected exactly one pop' % loop.lineno)
        recv = ast.unparse(call.func.value)
        name = {'self.molecules': 'pop_index_flat', 'self.molecules_per_cell[hash_group]': 'pop_index_grouped'}.get(recv)
        if name is None or name in sites:
            raise Untranslatable('unexpected pop receiver %r at line %d' % (recv, call.lineno))
        sites[name] = call
    if sorted(sites) != ['pop_index_flat', 'pop_index_grouped']:
        raise Untranslatable('expected the two ejection pop loops, found %r' % sorted(sites))
    chunks, meta = [], []
    for name in ('pop_index_flat', 'pop_index_grouped'):
        call = sites[name]
        expr = call.args[0]
        body = Tr().z(expr)
        seg = ast.get_source_segment(src, call)
        sha = hashlib.sha256(seg.encode()).hexdigest()
        chunks.append('(* source: %s line %d sha256 %s\n   %s *)\nDefinition %s (i j : Z) : Z :=\n  %s.'
                      % (repo_rel, call.lineno, sha, ' '.join(seg.split()), name, body))
        meta.append({'source': repo_rel, 'lines': [call.lineno, call.end_lineno], 'sha256': sha, 'coq': name})
    return chunks, meta


def translate_cache_clear(path, repo_rel):
    """Does MoleculeIterator.__iter__ call self._clear_cache() before it touches the buffers (and at its end), and
    what does _clear_cache reset?  Shape of _clear_cache is checked fail closed."""
    src = open(path).read()
    tree = ast.parse(src)
    it = py2coq.find_function(tree, 'MoleculeIterator.__iter__')
    cc = py2coq.find_function(tree, 'MoleculeIterator._clear_cache')
    is_clear = lambda st: isinstance(st, ast.Expr) and ast.unparse(st.value) == 'self._clear_cache()'
    body = _strip_doc(list(it.body))
    at_start = False
    for st in body:
        if is_clear(st):
            at_start = True
            break
        if isinstance(st, (ast.For, ast.While)) or any(
                isinstance(n, ast.Attribute) and n.attr in ('molecules', 'molecules_per_cell', 'check_ejection_iter')
                for n in ast.walk(st)) or any(isinstance(n, (ast.Yield, ast.YieldFrom)) for n in ast.walk(st)):
            break
    at_end = bool(body) and is_clear(body[-1])
    ctr, flat, grouped = None, False, False
    for n in ast.walk(cc):
        if isinstance(n, ast.Assign) and len(n.targets) == 1:
            t, v = ast.unparse(n.targets[0]), ast.unparse(n.value)
            if t == 'self.check_ejection_iter':
                if not (isinstance(n.value, ast.Constant) and isinstance(n.value.value, int)) or ctr is not None:
                    raise Untranslatable('_clear_cache: check_ejection_iter reset outside subset: %s' % v)
                ctr = n.value.value
            elif t == 'self.molecules':
                if v != '[]':
                    raise Untranslatable('_clear_cache: self.molecules = %s' % v)
                flat = True
            elif t == 'self.molecules_per_cell':
                if v.replace(' ', '') not in ('collections.defaultdict(list)', 'defaultdict(list)'):
                    raise Untranslatable('_clear_cache: self.molecules_per_cell = %s' % v)
                grouped = True
    if ctr is None or not flat or not grouped:
        raise Untranslatable('_clear_cache does not reset counter / flat list / dict (%r %r %r)' % (ctr, flat, grouped))
    sha = hashlib.sha256(('\n'.join(ast.unparse(x) for x in body[:6]) + ast.unparse(cc)).encode()).hexdigest()
    text = ('(* source: %s MoleculeIterator.__iter__ (line %d) and _clear_cache (lines %d-%d) sha256 %s *)\n'
            'Definition iter_clears_at_start : bool := %s.\nDefinition iter_clears_at_end : bool := %s.\n'
            'Definition clear_cache_counter : Z := %d.'
            % (repo_rel, it.lineno, cc.lineno, cc.end_lineno, sha, 'true' if at_start else 'false',
               'true' if at_end else 'false', ctr))
    return text, {'source': repo_rel, 'lines': [cc.lineno, cc.end_lineno], 'sha256': sha, 'coq': 'iter_clears_at_start'}


def check_add_fragment_shape(path, repo_rel):
    """Molecule.add_fragment: `if use_hash: if self == fragment: ...` else `for f in self.fragments: if f == fragment: ...`
    (the model's match_grouped / match_flat); anything else is refused."""
    src = open(path).read()
    fn = py2coq.find_function(ast.parse(src), 'Molecule.add_fragment')
    ifs = [n for n in fn.body if isinstance(n, ast.If) and ast.unparse(n.test) == 'use_hash']
    if len(ifs) != 1:
        raise Untranslatable('Molecule.add_fragment: expected one `if use_hash:`')
    n = ifs[0]
    ok = (len(n.body) == 1 and isinstance(n.body[0], ast.If) and ast.unparse(n.body[0].test) == 'self == fragment'
          and len(n.orelse) == 1 and isinstance(n.orelse[0], ast.For) and ast.unparse(n.orelse[0].iter) == 'self.fragments'
          and ast.unparse(n.orelse[0].target) == 'f' and len(n.orelse[0].body) == 1 and isinstance(n.orelse[0].body[0], ast.If)
          and ast.unparse(n.orelse[0].body[0].test) == 'f == fragment' and not n.orelse[0].orelse)
    if not ok:
        raise Untranslatable('Molecule.add_fragment: the use_hash / member scan structure changed (line %d)' % n.lineno)
    sha = hashlib.sha256(ast.unparse(n).encode()).hexdigest()
    return {'source': repo_rel, 'lines': [n.lineno, n.end_lineno], 'sha256': sha, 'coq': '(shape check) match_flat/match_grouped'}


def regen_eject(out=None, repo=None):
    out = out or os.path.join(fw.COQ, 'Gen', 'GenEject.v')
    try:
        return _regen_eject(out, repo or fw.REPO)
    except BaseException:
        # fail closed: never leave a stale generated file behind for the proofs / the model to use
        for ext in ('.v', '.vo', '.vos', '.vok', '.glob'):
            if os.path.exists(out[:-2] + ext):
                os.remove(out[:-2] + ext)
        raise


def _regen_eject(out, repo):
    chunks, meta = translate_pop_sites(os.path.join(repo, ITER), ITER)
    t, m = translate_cache_clear(os.path.join(repo, ITER), ITER)
    chunks.append(t); meta.append(m)
    t, m = py2coq.translate_inline_test(
        os.path.join(repo, ITER), 'MoleculeIterator.__iter__', ['self.check_ejection_iter', 'self.check_eject_every'],
        {'self.check_eject_every is not None': 'has_every', 'self.check_ejection_iter': 'ctr',
         'self.check_eject_every': 'every'},
        'eject_due', '(has_every : bool) (ctr every : Z)', repo_rel=ITER, must_use=('ctr', 'every'))
    chunks.append(t); meta.append(m)
    t, m = translate_guard_chain(
        os.path.join(repo, MOL), 'Molecule.can_be_yielded',
        {'chromosome is None': 'chrom_none', 'chromosome': 'chromosome', 'self.chromosome': 'mchrom',
         'position': 'position', 'self.spanStart': 'spanStart', 'self.spanEnd': 'spanEnd',
         'self.cache_size': 'cache_size'},
        'can_be_yielded', '(chrom_none : bool) (chromosome mchrom position spanStart spanEnd cache_size : Z)', MOL)
    chunks.append(t); meta.append(m)
    t, m = translate_guard_chain(
        os.path.join(repo, FRAG), 'Fragment.__eq__',
        {'self.sample': 's_sample', 'other.sample': 'o_sample', 'self.strand': 's_strand', 'other.strand': 'o_strand',
         'self.has_valid_span()': 's_span_ok', 'other.has_valid_span()': 'o_span_ok',
         'self.span[0]': 's_chrom', 'other.span[0]': 'o_chrom', 'self.span[1]': 's_start', 'other.span[1]': 'o_start',
         'self.span[2]': 's_end', 'other.span[2]': 'o_end', 'self.assignment_radius': 'radius',
         'self.umi_eq(other)': 'umi_ok'},
        'fragment_eq', '(s_span_ok o_span_ok umi_ok : bool) (radius s_sample s_strand s_chrom s_start s_end '
                       'o_sample o_strand o_chrom o_start o_end : Z)', FRAG)
    chunks.append(t); meta.append(m)
    t, m = translate_guard_chain(
        os.path.join(repo, MOL), 'Molecule.has_valid_span',
        {'self.spanStart is not None': 'has_start', 'self.spanEnd is not None': 'has_end'},
        'mol_has_valid_span', '(has_start has_end : bool)', MOL)
    chunks.append(t); meta.append(m)
    meta.append(check_add_fragment_shape(os.path.join(repo, MOL), MOL))
    t, m = translate_guard_chain(
        os.path.join(repo, FRAG), 'Fragment.umi_eq',
        {'self.umi == other.umi': 'umi_same', 'self.umi_hamming_distance': 'hd',
         'len(self.umi) != len(other.umi)': 'len_differ', 'hamming_distance(self.umi, other.umi)': 'hdist'},
        'umi_eq_gen', '(umi_same len_differ : bool) (hd hdist : Z)', FRAG)
    chunks.append(t); meta.append(m)
    py2coq.write_gen(out, '', chunks)
    return meta


# ----------------------------------------------------------------------------- K (correspondence)
UMIS = ['AAA', 'AAC', 'ACA', 'CCC', 'ANA', 'AAAA']


def _view(f, oracle):
    """(contig, start, end) of an abstract fragment: as reported by the implementation, or the oracle span the harness
    recomputed from pysam reference_start/reference_end"""
    return tuple(f[9]) if oracle and len(f) > 9 else (f[4], f[5], f[6])


def pre_py(absf, cfg, oracle=False):
    """python transcription of Model.C07.preb with the minimal L and lag; returns (holds, L, lag)"""
    vs = [_view(f, oracle) for f in absf if f[1]]
    L = max([e - s_ for _, s_, e in vs] + [0])
    lag = 0
    for i, f in enumerate(vs):
        for h in vs[i + 1:]:
            if h[0] == f[0]:
                lag = max(lag, f[1] - h[1])
    ok = all(c != -1 and s_ <= e for c, s_, e in vs)
    ok = ok and _blocks([c for c, _, _ in vs])
    ok = ok and cfg['radius'] >= 0 and 2 * (L + lag + cfg['radius']) <= cfg['cache']
    return ok, L, lag


def _blocks(contigs):
    seen, cur = set(), None
    for c in contigs:
        if c != cur:
            if c in seen:
                return False
            seen.add(c)
            cur = c
    return True


def wide_py(absf, cfg):
    """the property's literal wording: coordinate-sorted arrival (max read start non-decreasing within a contig), contigs
    in blocks, every valid fragment shorter than cache_size; evaluated on the oracle spans"""
    vs = [f for f in absf if f[1]]
    sp = [_view(f, True) for f in vs]
    if not all(c != -1 and s_ <= e and e - s_ < cfg['cache'] for c, s_, e in sp) or not _blocks([c for c, _, _ in sp]):
        return False
    last = {}
    for f, (c, _, _) in zip(vs, sp):
        if len(f) > 10:
            if f[10] < last.get(c, f[10]):
                return False
            last[c] = f[10]
    return cfg['radius'] >= 0


def partition(run):
    return sorted([tuple(m[0]) for st in run['steps'] for m in st] + [tuple(m[0]) for m in run['flush']])


def cfg_val(cfg):
    return [[] if cfg['every'] is None else [cfg['every']], cfg['pooling'], cfg['cache'], cfg['radius'], cfg['hd'],
            1 if cfg['yield_invalid'] else 0]


def canon_mol(m, absf):
    """[ids, sample, strand, chrom, start, end, umi]; aggregates of a molecule made of an invalid fragment
    (yield_invalid) are not compared - its span/strand are undefined in the implementation"""
    ids = list(m[0])
    if not all(absf[i][1] for i in ids):
        return [ids]
    umi = m[6]
    return [ids] + [int(x) for x in m[1:6]] + [[ord(c) for c in umi] if isinstance(umi, str) else list(umi)]


def canon_out(steps, flush, ok, absf):
    """the statement is about which molecules are yielded (and, for the safety clause, after which read): the order of the
    molecules yielded together after one read / in the final flush is not constrained and is compared as a sorted list"""
    return [[sorted(canon_mol(m, absf) for m in st) for st in steps], sorted(canon_mol(m, absf) for m in flush), ok]


def run_partition(out):
    """canon_out value -> (sorted list of all yielded molecules, ok flag)"""
    return [sorted([m for st in out[0] for m in st] + list(out[1])), out[2]]


def canon_run(run, absf):
    return canon_out(run['steps'], run['flush'], 1 if run['ok'] else 0, absf)


def canon_state(st, pooling):
    """buffer left behind by an abandoned pass: hash groups that hold no molecule are not state"""
    if pooling == 0:
        return st
    return [[g for g in st[0] if g[1]], st[1]] if isinstance(st, list) and len(st) == 2 and isinstance(st[0], list) else st


class Prop(fw.PropBase):
    ID = 'C07'
    PROPS = 'Props/C07.v'
    TRUSTED = [
        'modelled not verified: pysam AlignedSegment accessors and Fragment.__init__ (span, strand, sample, umi, '
        'is_valid, match_hash of each read pair are taken from the implementation by the harness and given to the model '
        'as the abstract fragment); pysamiterators mate pairing (the harness feeds (R1,R2) tuples); Python dict insertion '
        'order, list.pop, collections.Counter.most_common semantics (transcribed by hand in Model/C07.v, watched by K)',
        'float arithmetic of can_be_yielded: `position < spanStart - cache_size*0.5` is translated as the exact integer '
        'comparison 2*position < 2*spanStart - cache_size (exact for integer cache_size and |values| < 2^52)',
        'tools/c07.py translator extensions (guard-chain functions, pop-site extraction, doubled comparisons)',
        'the control flow of MoleculeIterator.__iter__ around the translated expressions (assignment scan, counters, '
        'continue on undefined span, flush) is a hand transcription validated by K on every schedule of every library',
    ]
    ASSUMPTIONS = [
        'configuration scope: molecule_class=Molecule, fragment_class=Fragment or a subclass that only sets match_hash; '
        'every_fragment_as_molecule=False, max_buffer_size=None, max_associated_fragments=None, '
        'perform_allele_clustering=False, no skip_contigs/min_mapping_qual, max_fragment_size=None, every read has RX and SM',
        'schedule theorems: valid fragments arrive with starts stepping back at most `lag` within a contig, contigs in '
        'contiguous blocks, 0 <= end-start <= L, 0 <= radius and 2*(L+lag+assignment_radius) <= cache_size '
        '(start-sorted input: lag=0, i.e. L+radius <= cache_size/2; mate-pair arrival order: lag<=L). The property text '
        'says "shorter than the cache radius (cache_size)": can_be_yielded uses a margin of cache_size/2, and fragments between '
        'cache_size/2 and cache_size do change the partition (Example C07_gap_refuted, known finding replayed by replay_known, '
        'measured in coverage.info_gap_start_sorted_inequality_fails_but_L_below_cache_size)',
        'theorems compare molecules within one pooling method; pooling_method 0 (member-wise comparison) and 1 (comparison with '
        'the molecule aggregate span / majority UMI) can group differently by design (coverage.info_pooling_difference_example)',
    ]

    def regen(self):
        return regen_eject()

    # ---------------------------------------------------------------- generators
    def gen_case(self, rng, n, regime):
        cache = rng.choice([40, 100, 400])
        radius = rng.choice([0, 0, 0, 2, 7])
        hd = rng.choice([0, 0, 1])
        if regime == 'pre':
            L = max(1, cache // 2 - radius - rng.choice([0, 0, 1, 3]))
            lens = [1, 2, 5, max(1, L // 2), L, L]
        elif regime == 'prelag':
            L = max(1, (cache // 2 - radius) // 2)
            lens = [1, 2, 5, max(1, L // 2), L, L]
        else:
            L = cache
            lens = [1, 2, 5, cache // 4, cache // 2, cache // 2 + 3, cache - 1]
        gaps = [0, 0, 0, 0, 1, 2, 5, cache // 2 - 2, cache // 2, cache // 2 + 2, cache // 2 + 7, cache, 2 * cache]
        frags = []
        pos, chrom, nsm = rng.choice([0, 1000]), 0, rng.choice([1, 2, 3])   # 0 = first base of the contig
        umis = rng.sample(UMIS, rng.choice([1, 2, 3]))
        for i in range(n):
            if frags and rng.random() < 0.12:
                chrom = chrom + 1 if chrom < 3 else chrom
                if regime == 'wild' and rng.random() < 0.4:
                    chrom = rng.randrange(0, 4)
                pos = rng.choice([1000, pos, rng.randint(900, 1100)])
            pos += rng.choice(gaps)
            start = pos
            if regime != 'pre' and rng.random() < 0.25:
                start = max(0, pos - rng.choice([1, 2, L // 2 if regime == 'prelag' else cache // 3]))
            ln = rng.choice(lens)
            if regime == 'prelag':
                ln = min(ln, L)
            rev = rng.random() < 0.3
            spec = {'chrom': chrom, 'sm': rng.randrange(nsm), 'rx': rng.choice(umis), 'qcfail': rng.random() < 0.04,
                    'r1': [start, ln, rev], 'r2': None}
            if ln >= 4 and rng.random() < 0.15:      # a deletion / reference skip inside the read
                spec['r1'] = [start, ln, rev, rng.randint(1, ln - 2)]
            same = [f for f in frags[-5:] if f['chrom'] == chrom and f['r2'] is None and not f['qcfail']]
            u = rng.random()
            if same and u < 0.2:      # an exact PCR duplicate of a recent fragment
                src = rng.choice(same)
                if regime == 'wild' or src['r1'][0] >= start:
                    spec = dict(src, r1=list(src['r1']))
            elif same and u < 0.4:    # same END as a recent fragment, later start (joins through the end coordinate)
                src = rng.choice(same)
                end = src['r1'][0] + src['r1'][1]
                if end > start:
                    spec = dict(src, r1=[start, end - start, src['r1'][2]])
            elif same and u < 0.55:   # same START as the previous fragment, another length
                src = same[-1]
                if regime == 'wild' or src['r1'][0] >= start:
                    spec = dict(src, r1=[src['r1'][0], ln, src['r1'][2]])
            elif u < 0.7 and ln >= 2:  # a proper pair spanning the same region
                l1 = rng.randint(1, ln)
                l2 = rng.randint(1, ln)
                spec['r1'] = [start, l1, False]
                spec['r2'] = [start + ln - l2, l2, True]
                if rng.random() < 0.3:
                    spec['r1'], spec['r2'] = [start + ln - l2, l2, True], [start, l1, False]
            if rng.random() < 0.15:
                spec = dict(spec, rx=rng.choice(umis))
            frags.append(spec)
        cfgbase = {'cache': cache, 'radius': radius, 'hd': hd, 'yield_invalid': rng.random() < 0.3}
        return {'frags': frags, 'cls': rng.choice(['Fragment', 'HashedFragment']), 'cfgs': self.all_schedules(cfgbase, n)}

    def gen_scenario(self, rng):
        """boundary-directed library: a molecule whose members share a start or an end, an unrelated fragment whose
        end (the `position` given to can_be_yielded) sits at cache_size/2 +-1 beyond the molecule's span end, its
        smallest member end or its start, and a late fragment aligned to one member's start or end."""
        cache = rng.choice([40, 100])
        radius = rng.choice([0, 0, 2])
        L = cache // 2 - radius
        s0 = rng.choice([0, 1000])
        mk = lambda st, en, rx: {'chrom': 0, 'sm': 0, 'rx': rx, 'qcfail': False, 'r1': [st, max(1, en - st), False], 'r2': None}
        lens = [2, 5, max(2, L // 2), L]
        members = [(s0, s0 + rng.choice(lens))]
        for _ in range(rng.choice([0, 1, 1, 2])):
            a, b = rng.choice(members)
            if rng.random() < 0.5:
                members.append((a, a + rng.choice(lens)))                  # same start
            else:
                st = rng.randint(a, max(a, b - 1))
                members.append((st, b))                                    # same end, later start
        span_end, min_end = max(e for _, e in members), min(e for _, e in members)
        T = rng.choice([span_end, min_end, s0]) + cache // 2 + rng.choice([-1, 0, 1, 2])
        lg = rng.choice([1, max(1, L // 2), L])
        g = (max(T - lg, max(a for a, _ in members)), T)
        frs = [mk(a, b, 'AAA') for a, b in members] + [mk(g[0], g[1], rng.choice(['CCC', 'AAA']))]
        for _ in range(rng.choice([1, 1, 2])):
            a, b = rng.choice(members + [g])
            st = max(g[0], a) if rng.random() < 0.5 else rng.randint(g[0], max(g[0], b - 1))
            en = b if st < b and rng.random() < 0.7 else st + rng.choice(lens)
            frs.append(mk(st, en, rng.choice(['AAA', 'AAA', 'CCC'])))
        frs.sort(key=lambda f: f['r1'][0])
        base = {'cache': cache, 'radius': radius, 'hd': 0, 'yield_invalid': False}
        return {'frags': frs, 'cls': rng.choice(['Fragment', 'HashedFragment']), 'cfgs': self.all_schedules(base, len(frs))}

    def gen_nonprefix(self, rng):
        """the ejectable set is not a prefix of the buffer: a long molecule is buffered first, a short unrelated one after
        it, a check fires where only the short one can be yielded, then fragments anchored at the END of the long molecule
        (and copies of the others) arrive"""
        cache = rng.choice([40, 100])
        half = cache // 2
        s0 = 1000
        mk = lambda st, en, rx, sm=0: {'chrom': 0, 'sm': sm, 'rx': rx, 'qcfail': False, 'r1': [st, max(1, en - st), False], 'r2': None}
        lL = rng.choice([half, half - 1, half - 3])
        a, b, d = rng.choice([0, 1, 2]), rng.choice([1, 2, 3]), rng.choice([1, 2, 3])
        long_, short = (s0, s0 + lL), (s0 + a, s0 + a + b)
        T = short[1] + half + d                      # > short end + cache/2, <= long end + cache/2
        g = (max(short[0], T - half), T)
        frs = [mk(long_[0], long_[1], 'AAA'), mk(short[0], short[1], 'CCC'), mk(g[0], g[1], rng.choice(['ACA', 'CCC']))]
        if rng.random() < 0.3:
            frs.insert(1, mk(long_[0], long_[0] + rng.choice([2, 5]), 'AAA'))       # a second member, same start
        if g[0] < long_[1]:
            for _ in range(rng.choice([1, 1, 2])):
                frs.append(mk(rng.randint(g[0], long_[1] - 1), long_[1], 'AAA'))    # joins the long molecule through its end
        if rng.random() < 0.4:
            frs.append(dict(frs[2], r1=list(frs[2]['r1'])))
        frs[3:] = sorted(frs[3:], key=lambda f: f['r1'][0])
        base = {'cache': cache, 'radius': 0, 'hd': 0, 'yield_invalid': False}
        return {'frags': frs, 'cls': rng.choice(['Fragment', 'Fragment', 'HashedFragment']), 'cfgs': self.all_schedules(base, len(frs))}

    def gen_long_insert(self, rng):
        """a molecule at the stream position, then a read pair with a long insert (shorter than cache_size) whose span
        starts more than cache_size/2 upstream while its second mate arrives at the stream position, then a fragment
        anchored at the molecule's end"""
        cache = rng.choice([40, 100])
        half = cache // 2
        s0 = 1000
        lm = rng.choice([5, 8, 10])
        k, a = rng.choice([1, 2, 4]), rng.choice([1, 2, 3])
        frs = [{'chrom': 0, 'sm': 0, 'rx': 'AAA', 'qcfail': False, 'r1': [s0, lm, False], 'r2': None}]
        if rng.random() < 0.3:
            frs.append({'chrom': 0, 'sm': 0, 'rx': 'AAA', 'qcfail': False, 'r1': [s0, rng.choice([2, 3]), False], 'r2': None})
        frs.append({'chrom': 0, 'sm': rng.choice([0, 1]), 'rx': 'CCC', 'qcfail': False,
                    'r1': [s0 - half - k, 2, False], 'r2': [s0 + a, 2, True]})
        for _ in range(rng.choice([1, 1, 2])):
            st = rng.randint(s0 + a, s0 + lm - 1)
            frs.append({'chrom': 0, 'sm': 0, 'rx': 'AAA', 'qcfail': False, 'r1': [st, s0 + lm - st, False], 'r2': None})
        base = {'cache': cache, 'radius': 0, 'hd': 0, 'yield_invalid': False}
        return {'frags': frs, 'cls': rng.choice(['Fragment', 'HashedFragment']), 'cfgs': self.all_schedules(base, len(frs))}

    def gen_chic(self, rng):
        """CHICFragment/CHICMolecule (site anchored: forward fragments share the start, reverse fragments the end), reads
        with deletions; half of the libraries are directed: a reverse molecule built from a read with a deletion, an
        unrelated fragment ending just below molecule end + cache_size/2, then a short copy of the molecule"""
        cache = rng.choice([40, 100])
        half = cache // 2
        frs = []
        if rng.random() < 0.5:
            s0 = 1000
            l1 = rng.randint(half - 8, half)
            d = rng.randint(3, l1 - 4)
            me = s0 + l1
            T = me + half - rng.randint(1, d)
            frs.append({'chrom': 0, 'sm': 0, 'rx': 'AAA', 'qcfail': False, 'r1': [s0, l1, True, d], 'r2': None})
            frs.append({'chrom': 0, 'sm': 1, 'rx': 'CCC', 'qcfail': False, 'r1': [T - half, half, False], 'r2': None})
            st = rng.randint(T - half, me - 1)
            frs.append({'chrom': 0, 'sm': 0, 'rx': 'AAA', 'qcfail': False, 'r1': [st, me - st, True], 'r2': None})
        else:
            sites = [rng.randrange(1000, 1000 + 3 * cache) for _ in range(2)]
            used = set()
            for g in range(rng.randint(1, 4)):
                chrom, rev, sm, rx, site = rng.choice([0, 0, 0, 1]), rng.random() < 0.6, rng.randrange(2), rng.choice(['AAA', 'CCC']), rng.choice(sites)
                if (chrom, rev, sm, rx, site) in used:
                    continue
                used.add((chrom, rev, sm, rx, site))
                for _ in range(rng.randint(1, 3)):
                    ln = rng.choice([rng.randint(4, 12), rng.randint(half - 8, half), half])
                    r1 = [site - ln if rev else site, ln, rev]
                    if ln >= 10 and rng.random() < 0.3:
                        r1.append(rng.randint(1, ln - 6))
                    frs.append({'chrom': chrom, 'sm': sm, 'rx': rx, 'qcfail': False, 'r1': r1, 'r2': None})
            rng.shuffle(frs)
            frs.sort(key=lambda f: (f['chrom'], f['r1'][0]))
        base = {'cache': cache, 'radius': 0, 'hd': 0, 'yield_invalid': False}
        return {'frags': frs, 'cls': 'CHIC', 'cfgs': self.all_schedules(base, len(frs))}

    def gen_chain(self, rng):
        """mixed-length chains (same start OR same end is not transitive): a short first fragment, a longer copy with the
        same start, fragments sharing only their END with the longer one, copies sharing the start of those ...;
        optionally at coordinate 0 and with an unrelated fragment in between"""
        cache = rng.choice([40, 100])
        half = cache // 2
        s0 = rng.choice([0, 0, 1000])
        mk = lambda st, en, rx='AAA': {'chrom': 0, 'sm': 0, 'rx': rx, 'qcfail': False, 'r1': [st, max(1, en - st), False], 'r2': None}
        a = rng.choice([2, 3, 5])
        Lg = rng.choice([half, half - 2, half // 2 + a])
        frs = [mk(s0, s0 + a), mk(s0, s0 + Lg)]
        if rng.random() < 0.3:
            frs.reverse()
        if rng.random() < 0.3:
            frs.append(mk(s0, s0 + a))
        if rng.random() < 0.4:
            frs.append(mk(s0 + 1, s0 + 1 + rng.choice([1, 2]), 'CCC'))
        k = rng.randint(1, Lg - 1)
        frs.append(mk(s0 + k, s0 + Lg))                   # shares only the END of the longer fragment
        if rng.random() < 0.5:
            frs.append(mk(s0 + k, s0 + k + rng.choice([1, 2, Lg])))   # shares only the START of the previous one
        if rng.random() < 0.5:
            k2 = rng.randint(k, Lg - 1)
            frs.append(mk(s0 + k2, s0 + Lg))
        frs.sort(key=lambda f: f['r1'][0])
        base = {'cache': cache, 'radius': 0, 'hd': 0, 'yield_invalid': False}
        return {'frags': frs, 'cls': rng.choice(['Fragment', 'HashedFragment']), 'cfgs': self.all_schedules(base, len(frs))}

    def directed(self, rng, n):
        out = []
        for k in range(n):
            out.append([self.gen_scenario, self.gen_nonprefix, self.gen_long_insert, self.gen_chic, self.gen_chain][k % 5](rng))
        return out

    @staticmethod
    def all_schedules(base, n):
        return [dict(base, every=e, pooling=p) for p in (0, 1) for e in [None] + list(range(0, n + 1))]

    @staticmethod
    def std_histories(base, n):
        return [{'cfg': dict(base, every=e, pooling=p), 'ks': ks}
                for p in (0, 1) for e in (None, 0) for ks in ([1], [2, 0, 1])]

    def add_histories(self, case, rng, full):
        """iteration histories on ONE iterator object: passes abandoned after k yields (k = 0: generator never advanced),
        then a complete pass"""
        base = {k: case['cfgs'][0][k] for k in ('cache', 'radius', 'hd', 'yield_invalid')}
        n = len(case['frags'])
        hs = self.std_histories(base, n) if full else []
        for p in (0, 1):
            e = rng.choice([None, 0, rng.randint(0, n)])
            hs.append({'cfg': dict(base, every=e, pooling=p),
                       'ks': [rng.randint(0, n + 1) for _ in range(rng.choice([1, 1, 2]))]})
        case['histories'] = hs
        return case

    def corpus_cases(self):
        d = os.path.join(fw.VERIF, 'corpus', 'C07')
        out = []
        if os.path.isdir(d):
            for fn in sorted(os.listdir(d)):
                if fn.endswith('.json'):
                    c = json.load(open(os.path.join(d, fn)))
                    c['name'] = fn
                    out.append(c)
        return out

    def small_exhaustive(self, nmax):
        """every library of <= nmax single-end fragments over a tiny alphabet (gap x length x umi), all schedules"""
        cache = 40
        alpha = [(g, ln, u) for g in (0, 23) for ln in (2, 12) for u in ('AAA', 'CCC')]
        out = []
        for n in range(1, nmax + 1):
            for combo in itertools.product(alpha, repeat=n):
                pos, frags = 0, []        # the first fragment can start at coordinate 0
                for g, ln, u in combo:
                    pos += g
                    frags.append({'chrom': 0, 'sm': 0, 'rx': u, 'qcfail': False, 'r1': [pos, ln, False], 'r2': None})
                base = {'cache': cache, 'radius': 0, 'hd': 0, 'yield_invalid': False}
                out.append({'frags': frags, 'cls': 'Fragment', 'cfgs': self.all_schedules(base, n)})
        return out

    def small_exhaustive_rel(self, nmax):
        """every start-sorted library of <= nmax fragments (one cell, one UMI, one contig, cache 40) over
        {gap 0|3|23} x {end = start+2 | start+20 | the end of the library's first fragment}"""
        out = []
        for n in range(2, nmax + 1):
            for combo in itertools.product([(g, e) for g in (0, 3, 23) for e in ('short', 'long', 'first')], repeat=n):
                pos, frags, first_end = 0, [], None
                for g, e in combo:
                    pos += g
                    end = pos + 2 if e == 'short' else pos + 20 if e == 'long' else \
                        (first_end if first_end is not None and first_end > pos else pos + 2)
                    if first_end is None:
                        first_end = end
                    frags.append({'chrom': 0, 'sm': 0, 'rx': 'AAA', 'qcfail': False, 'r1': [pos, end - pos, False], 'r2': None})
                base = {'cache': 40, 'radius': 0, 'hd': 0, 'yield_invalid': False}
                out.append({'frags': frags, 'cls': 'Fragment', 'cfgs': self.all_schedules(base, n)})
        return out

    def cases(self):
        quick = self.tier == 'quick'
        out = self.corpus_cases()
        self.n_corpus = len(out)
        N = 160 if quick else 1500
        for k in range(N):
            n = self.rng.choice([2, 3, 4, 5, 6, 8, 10] if quick else [2, 3, 4, 5, 6, 7, 8, 10, 14, 20])
            regime = ['pre', 'pre', 'prelag', 'wild'][k % 4]
            out.append(self.gen_case(self.rng, n, regime))
        out += self.directed(self.rng, 400 if quick else 5000)
        for c in out:
            self.add_histories(c, self.rng, full=True)
        ex = self.small_exhaustive(3 if quick else 4) + self.small_exhaustive_rel(3 if quick else 4)
        for c in ex:
            self.add_histories(c, self.rng, full=False)
        self.n_exhaustive = len(ex)
        return out + ex

    # ---------------------------------------------------------------- K
    def run_impl_cases(self, cases, chunk=250):
        from concurrent.futures import ThreadPoolExecutor
        parts = [cases[i:i + chunk] for i in range(0, len(cases), chunk)]
        if len(parts) <= 1:
            return fw.run_impl('impl_c07.py', {'cases': cases})['cases']
        with ThreadPoolExecutor(max_workers=min(8, fw.NPROC)) as ex:
            rs = list(ex.map(lambda p: fw.run_impl('impl_c07.py', {'cases': p})['cases'], parts))
        return [r for part in rs for r in part]

    def correspondence(self):
        cases = self.cases()
        res = self.run_impl_cases(cases)
        self.case_list, self.impl_res = cases, res
        inputs, impl_out, index = [], [], []
        in_scope = []     # per run: the theorem's precondition or the property's literal wording (sorted arrival, contig blocks,
        #                   fragments shorter than cache_size) holds; outside both the partition may depend on the schedule
        nontrivial, hist_n, hist_reg = set(), {}, {}
        n_ejecting = n_multi = n_pre = n_err = n_pool_differ = 0
        pool_example = None
        gap = {'runs': 0, 'schedule_dependent_runs': 0, 'example': None}
        pre_inputs = []
        span_dis, spec_viol, n_spec_only, n_del = [], [], 0, 0
        for ci, (case, r) in enumerate(zip(cases, res)):
            absf = r['abs']
            n_del += sum(1 for f in case['frags'] for k in ('r1', 'r2') if f[k] and len(f[k]) > 3 and f[k][3] > 0)
            # the span the implementation reports against the span recomputed from pysam (reads with D in the CIGAR included)
            for f in absf:
                if f[1] and list(f[4:7]) != list(f[9]):
                    span_dis.append({'frag': case['frags'][f[0]], 'cls': case['cls'], 'implementation_span': f[4:7],
                                     'pysam_span': f[9]})
            for v in spec_violations(case, r):
                spec_viol.append((len(case['frags']), v[0], v[1], case['frags'], case['cls'], v[2]))
            if case['cls'] == 'CHIC':
                # CHICFragment/CHICMolecule: outside the Coq model (site-keyed match rule); specification only
                n_spec_only += len(case['cfgs'])
                continue
            hist_n[len(absf)] = hist_n.get(len(absf), 0) + 1
            never = {cfg['pooling']: partition(run) for cfg, run in zip(case['cfgs'], r['runs']) if cfg['every'] is None}
            if len(never) == 2 and never[0] != never[1]:
                n_pool_differ += 1
                if pool_example is None or len(absf) < len(pool_example['abs']):
                    pool_example = {'abs': absf, 'cfg': case['cfgs'][0], 'pooling0': [list(x) for x in never[0]],
                                    'pooling1': [list(x) for x in never[1]]}
            for cfg, run in zip(case['cfgs'], r['runs']):
                inp = [cfg_val(cfg), fw.to_val([f[:9] for f in absf])]
                inputs.append(inp)
                impl_out.append(canon_run(run, absf))
                index.append((ci, cfg))
                ej = any(any(all(absf[i][1] for i in m[0]) for m in st) for st in run['steps'])
                multi = any(len(m[0]) > 1 for st in run['steps'] for m in st) or any(len(m[0]) > 1 for m in run['flush'])
                n_ejecting += ej
                n_multi += multi
                n_err += run['error'] is not None
                ok, L, lag = pre_py(absf, cfg)
                n_pre += ok
                in_scope.append(bool(ok) or bool(wide_py(absf, cfg)))
                pre_inputs.append((inp + [L, lag], 1 if ok else 0))
                # the gap between the theorem's inequality and the property's wording ("shorter than the cache radius"):
                # start-sorted (lag = 0), everything of the precondition holds except the inequality, and L < cache_size
                if not ok and lag == 0 and L < cfg['cache'] and run['error'] is None and pre_py(absf, dict(cfg, cache=10 ** 12))[0]:
                    gap['runs'] += 1
                    if cfg['pooling'] in never and partition(run) != never[cfg['pooling']]:
                        gap['schedule_dependent_runs'] += 1
                        if gap['example'] is None or len(absf) < len(gap['example']['abs']):
                            gap['example'] = {'abs': absf, 'cfg': cfg, 'L': L, 'lag': lag,
                                              'molecules': [list(x) for x in partition(run)],
                                              'never_eject': [list(x) for x in never[cfg['pooling']]]}
                if ej and multi:
                    nontrivial.add(fw.canon_hash(inp))
        self.cov.update({
            'evaluations': len(inputs) + n_spec_only,
            'distinct_nontrivial': len(nontrivial),
            'rule': 'one evaluation = one (library, configuration) run of the real MoleculeIterator compared step by step '
                    '(molecules yielded after each consumed read pair, then the flush; members in order, sample, strand, '
                    'contig, span, umi of each molecule) with the model. non-trivial = at least one molecule ejected before '
                    'the flush AND at least one molecule with >= 2 fragments; distinct by hash of (configuration, abstract fragments)',
            'libraries': len(cases), 'corpus_libraries': self.n_corpus, 'exhaustive_small_libraries': self.n_exhaustive,
            'runs_with_ejection_before_flush': n_ejecting, 'runs_with_multi_fragment_molecule': n_multi,
            'runs_raising': n_err,
            'spec_only_runs_CHICFragment_CHICMolecule': n_spec_only,
            'reads_with_deletion_in_cigar': n_del,
            'span_oracle_disagreements': len(span_dis),
            'specification_violations_on_implementation_outputs': len(spec_viol),
            'info_libraries_where_pooling_0_and_1_differ_without_ejection': n_pool_differ,
            'info_pooling_difference_example': pool_example,
            'info_gap_start_sorted_inequality_fails_but_L_below_cache_size': gap,
            'precondition_hit_rate': round(n_pre / max(1, len(inputs)), 4),
            'library_size_histogram': {str(k): v for k, v in sorted(hist_n.items())},
            'schedules': 'every library is run for check_eject_every in {None, 0..n} x pooling_method {0,1} (all schedules '
                         'that differ for n fragments)',
            'exhaustive': False,
            'exhaustive_scope': 'all libraries of <= %d single-end fragments over {gap 0|23} x {length 2|12} x {umi AAA|CCC}, '
                          'cache 40, and of 2..%d start-sorted fragments over {gap 0|3|23} x {end start+2|start+20|end of the first fragment}; '
                                'every schedule, both pooling methods' % ((3 if self.tier == 'quick' else 4,) * 2),
            'samples': [{'input': {'cfg': index[i][1], 'abs': res[index[i][0]]['abs']}, 'impl': impl_out[i]}
                        for i in (0, len(inputs) // 2, len(inputs) - 1) if i < len(inputs)],
        })
        self.span_dis, self.spec_viol = span_dis, spec_viol
        if span_dis:
            self.breaks.append(('correspondence', 'abstraction: Fragment.get_span() differs from the span recomputed from pysam '
                                'reference_start/reference_end for %d fragments; first: %s' % (len(span_dis), json.dumps(span_dis[0]))))
        if spec_viol:
            v = min(spec_viol, key=lambda x: x[0])
            self.breaks.append(('specification', '%d runs of the implementation violate the specification; smallest: %s: %s; '
                                'reads %s (%s)' % (len(spec_viol), v[1], v[2], json.dumps(v[3]), v[4])))
        if not self.model_ok:
            return
        mout = fw.run_model('C07', 0, inputs)
        dis = []
        n_timing = n_unscoped = 0
        for i, (a, b) in enumerate(zip(mout, impl_out)):
            ci, cfg = index[i]
            absf = res[ci]['abs']
            a = canon_out(a[0], a[1], a[2], absf)
            # the statement is about WHICH molecules come out (the partition) and that none is yielded while a later
            # fragment still matches it (evaluated on the implementation's own run above); after which read a molecule
            # leaves the buffer is scheduling: a difference there is recorded, the set of yielded molecules is compared
            n_timing += (a != b)
            if not in_scope[i]:
                n_unscoped += (run_partition(a) != run_partition(b))
                continue
            if run_partition(a) != run_partition(b):
                dis.append({'case': ci, 'cfg': cfg, 'frags': cases[ci]['frags'], 'cls': cases[ci]['cls'],
                            'model': a, 'impl': b, 'impl_error': res[ci]['runs'][case_cfg_index(cases[ci], cfg)]['error']})
        # histories on one iterator object (mode 4): object state after every abandoned pass + the complete pass
        hin, hexp, hidx = [], [], []
        for ci, (case, r) in enumerate(zip(cases, res)):
            if case['cls'] == 'CHIC':
                continue
            absf = r['abs']
            for h, rec in zip(case.get('histories', []), r.get('histories', [])):
                if rec['error'] is not None:
                    continue
                hin.append([cfg_val(h['cfg']), fw.to_val([f[:9] for f in absf]), h['ks']])
                hexp.append([rec['states'], canon_run(rec['final'], absf)])
                hidx.append((ci, h))
        hout = fw.run_model('C07', 4, hin) if hin else []
        n_dirty = n_state_diff = 0
        for (ci, h), m, e in zip(hidx, hout, hexp):
            absf = res[ci]['abs']
            # buffers left by the abandoned passes: compared as the multiset of buffered molecules + the ejection counter
            # (grouping / empty groups / order inside the buffer are representation, not behaviour); skipped when the
            # implementation no longer exposes them
            mst = [[sorted(mol for g in st[0] for mol in g[1]), st[1]] for st in m[0]]
            est = [None if st is None else
                   [sorted(st[0]) if h['cfg']['pooling'] == 0 else sorted(mol for g in st[0] for mol in g[1]), st[1]] for st in e[0]]
            mst = [a for a, b in zip(mst, est) if b is not None]
            est = [b for b in est if b is not None]
            e = [est, e[1]]
            mrun = canon_out(m[1][0], m[1][1], m[1][2], absf)
            n_timing += (mrun != e[1])
            mrun, e = run_partition(mrun), [e[0], run_partition(e[1])]
            n_dirty += any(st[0] for st in e[0])
            # what an abandoned pass leaves in the buffers is object state, not behaviour the statement constrains (every
            # new pass starts by clearing it): recorded for information; the complete pass that follows is compared
            n_state_diff += (mst != e[0])
            if mrun != e[1]:
                dis.append({'case': ci, 'cfg': h['cfg'], 'history_ks': h['ks'], 'frags': cases[ci]['frags'], 'cls': cases[ci]['cls'],
                            'model': [mst, mrun], 'impl': e, 'impl_error': None})
        self.cov['histories_validated_against_impl'] = len(hin)
        self.cov['info_runs_where_the_ejection_timing_differs_from_the_model'] = n_timing
        self.cov['info_runs_outside_precondition_and_property_wording_where_partitions_differ'] = n_unscoped
        self.cov['runs_inside_precondition_or_property_wording'] = sum(in_scope)
        self.cov['histories_with_nonempty_buffer_left_by_an_abandoned_pass'] = n_dirty
        self.cov['info_histories_where_the_left_over_buffer_differs_from_the_model'] = n_state_diff
        mpre = fw.run_model('C07', 1, [p[0] for p in pre_inputs])
        predis = [i for i, (m, p) in enumerate(zip(mpre, pre_inputs)) if m != p[1]]
        self.cov['traces_validated_against_impl'] = len(inputs) + len(hin)
        self.cov['disagreements'] = len(dis)
        idx = sorted(self.rng.sample(range(len(inputs)), min(100, len(inputs))))
        ok, nm, log = fw.vm_crosscheck('C07', 0, [(inputs[i], mout[i]) for i in idx])
        self.cov['vm_compute_crosscheck'] = {'cases': len(idx), 'mismatches': nm}
        if not ok:
            raise fw.Broken('extraction', 'vm_compute and extracted model disagree: ' + log[-800:])
        if predis:
            raise fw.Broken('correspondence', 'python transcription of the precondition and Model preb disagree on %d inputs; '
                            'first: %r' % (len(predis), pre_inputs[predis[0]][0]))
        if dis:
            self.dis = dis
            d = min(dis, key=lambda d: len(d['frags']))
            raise fw.Broken('correspondence', 'model and implementation disagree on %d of %d runs; smallest: %s'
                            % (len(dis), len(inputs), json.dumps(d)[:1500]))


def case_cfg_index(case, cfg):
    return case['cfgs'].index(cfg)


# ----------------------------------------------------------------------------- search (specification on the implementation)
def match_relation(case, absf, cfg):
    """pairwise Fragment.__eq__ (exact UMIs) restated on the oracle spans, or the site key for CHICFragment; None when the
    harness does not restate it (umi_hamming_distance > 0)"""
    if cfg['hd'] != 0:
        return None
    if case['cls'] == 'CHIC':
        return lambda f, h: f[8] == h[8] and f[7] == h[7]
    r = cfg['radius']

    def E(f, h):
        (fc, fs_, fe), (hc, hs, he) = _view(f, True), _view(h, True)
        return (f[2] == h[2] and f[3] == h[3] and fc == hc and min(abs(fs_ - hs), abs(fe - he)) <= r and f[7] == h[7])
    return E


def match_classes(vs, E):
    """connected components of E, and whether E is an equivalence on vs (every two members of a component match)"""
    comp = []
    for f in vs:
        hit = [c for c in comp if any(E(x, f) for x in c)]
        merged = [f]
        for c in hit:
            merged = c + merged
            comp.remove(c)
        comp.append(sorted(merged, key=lambda x: x[0]))
    transitive = all(E(x, y) for c in comp for x in c for y in c)
    return comp, transitive


def relation_violations(case, res):
    """(a) when the pairwise match relation of the input is an equivalence (radius 0, exact UMIs, match implies equal
    buffer key) grouping is unambiguous: never ejecting, pooling_method 0 and 1 must both produce exactly its classes;
    the two methods may differ only when the relation is not transitive (member-by-member chaining vs comparison with
    the molecule's aggregate span).  (b) pooling_method 0, any input: a fragment founds a new molecule only if it matches
    no earlier fragment, and every other member matches an earlier member of its molecule."""
    absf = res['abs']
    out = []
    for cfg, run in zip(case['cfgs'], res['runs']):
        if cfg['every'] is not None or run['error'] is not None:
            continue
        E = match_relation(case, absf, cfg)
        if E is None:
            continue
        vs = [f for f in absf if f[1]]
        byid = {f[0]: f for f in absf}
        mols = [m for m in partition(run) if all(byid[i][1] for i in m)]
        if cfg['pooling'] == 0:
            for m in mols:
                first = byid[m[0]]
                rel = [x[0] for x in vs if x[0] < first[0] and E(x, first)]
                if rel:
                    out.append(('pooling0-duplicate-split', 'pooling_method=0, never ejecting: read %d founded the molecule %r although '
                                'it matches the earlier read(s) %r; molecules %r' % (first[0], list(m), rel, [list(x) for x in mols]), cfg))
                    break
                bad = [i for k, i in enumerate(m) if k > 0 and not any(E(byid[j], byid[i]) for j in m[:k])]
                if bad:
                    out.append(('pooling0-unrelated-joined', 'pooling_method=0, never ejecting: read %d is in molecule %r but '
                                'matches none of its earlier members' % (bad[0], list(m)), cfg))
                    break
        if cfg['radius'] == 0:
            comp, transitive = match_classes(vs, E)
            if transitive and all(x[8] == c[0][8] for c in comp for x in c):
                exp = sorted(tuple(x[0] for x in c) for c in comp)
                if sorted(mols) != exp:
                    out.append(('grouping-differs-from-match-classes', 'pooling_method=%d, never ejecting: molecules %r, but the pairwise '
                                'match relation of this input is an equivalence with classes %r (both pooling methods must produce these)'
                                % (cfg['pooling'], [list(x) for x in sorted(mols)], [list(x) for x in exp]), cfg))
    return out


def soundness_violations(case, res):
    """C07_molecule_one_sample / _one_hash / _arrival_order restated on the implementation's outputs, for EVERY run
    (every schedule, pooling method, cache size; no hypothesis on the input): the members of a yielded molecule share
    the sample, with pooling_method 1 also the match_hash, and are listed in arrival order (ids are arrival indices)."""
    absf = res['abs']
    byid = {f[0]: f for f in absf}
    out = []
    for cfg, run in zip(case['cfgs'], res['runs']):
        if run['error'] is not None:
            continue
        for st in list(run['steps']) + [run['flush']]:
            for m in st:
                ids = list(m[0])
                if len(ids) < 2 or any(i not in byid for i in ids):
                    continue
                smp = sorted(set(byid[i][2] for i in ids))
                if len(smp) > 1:
                    out.append(('molecule-mixes-samples', 'check_eject_every=%r pooling_method=%d: the yielded molecule %r '
                                'holds fragments of the samples %r' % (cfg['every'], cfg['pooling'], ids, smp), cfg))
                    break
                hs = sorted(set(byid[i][8] for i in ids))
                if cfg['pooling'] == 1 and len(hs) > 1:
                    out.append(('molecule-mixes-match-hashes', 'check_eject_every=%r pooling_method=1: the yielded molecule %r '
                                'holds fragments with %d different match_hash values' % (cfg['every'], ids, len(hs)), cfg))
                    break
                if ids != sorted(ids):
                    out.append(('molecule-members-out-of-arrival-order', 'check_eject_every=%r pooling_method=%d: the yielded '
                                'molecule lists its fragments as %r, not in arrival order'
                                % (cfg['every'], cfg['pooling'], ids), cfg))
                    break
    return out


def spec_violations(case, res):
    """Direct Python transcription of the theorems' statements, evaluated on the implementation's outputs
    (no model involved): emit-once / completion for every run; under the precondition also
    partition(every) == partition(None) and no-early-eject.  Returns a list of (key, text, cfg)."""
    absf = res['abs']
    out = []
    base = {}
    for cfg, run in zip(case['cfgs'], res['runs']):
        if cfg['every'] is None:
            base[cfg['pooling']] = partition(run)
    for cfg, run in zip(case['cfgs'], res['runs']):
        if run['error'] is not None:
            out.append(('exception', 'MoleculeIterator raised %s' % run['error'], cfg))
            continue
        wanted = sorted(f[0] for f in absf if f[1] or cfg['yield_invalid'])
        got = sorted(i for mol in partition(run) for i in mol)
        if got != wanted:
            out.append(('emit-once', 'fragments yielded %r, fragments expected exactly once %r' % (got, wanted), cfg))
            continue
        ok, L, lag = pre_py(absf, cfg, oracle=True)
        if not ok:
            # outside the inequality but inside the property's wording: a molecule that was yielded although the documented
            # rule (can_be_yielded on the true spans: other contig, or the END of the current fragment beyond the molecule's
            # span by more than cache_size/2) did not allow it, and that a later fragment still joins
            if wide_py(absf, cfg):
                for late in run['late']:
                    if late[0] == 'error':
                        continue
                    t, ids, k = late
                    gc, gs, ge = _view(absf[t], True)
                    mem = [_view(absf[i], True) for i in ids]
                    ms, me = min(x[1] for x in mem), max(x[2] for x in mem)
                    justified = any(x[0] != gc for x in mem) or 2 * ge < 2 * ms - cfg['cache'] or 2 * ge > 2 * me + cfg['cache']
                    if not justified:
                        out.append(('early-ejection-not-justified-by-can_be_yielded',
                                    'check_eject_every=%r pooling_method=%d cache_size=%d: molecule %r (span %d-%d) was yielded '
                                    'while read %d (span %d-%d, same contig, end within cache_size/2 of the molecule) was '
                                    'processed, and the later read %d still joins it; never ejecting gives %r'
                                    % (cfg['every'], cfg['pooling'], cfg['cache'], ids, ms, me, t, gs, ge, k,
                                       [list(x) for x in base.get(cfg['pooling'], [])]), cfg))
                        break
            continue
        p0 = base.get(cfg['pooling'])
        pe = partition(run)
        if p0 is not None and pe != p0:
            ncontig = len(set(_view(f, True)[0] for f in absf if f[1]))
            out.append(('partition-depends-on-schedule:%s' % ('one-contig' if ncontig <= 1 else 'several-contigs'),
                        'check_eject_every=%r gives molecules %r but never ejecting gives %r (pooling_method=%d, cache_size=%d, '
                        'assignment_radius=%d, L=%d, lag=%d)' % (cfg['every'], [list(x) for x in pe], [list(x) for x in p0],
                                                                 cfg['pooling'], cfg['cache'], cfg['radius'], L, lag), cfg))
        elif run['late']:
            out.append(('early-eject', 'molecule %r was yielded after read %r although later read %r still matches it'
                        % (run['late'][0][1], run['late'][0][0], run['late'][0][2]) if run['late'][0][0] != 'error'
                        else 'late-join evaluation failed: %r' % (run['late'][0],), cfg))
    out += relation_violations(case, res)
    out += soundness_violations(case, res)
    fresh = {(c['every'], c['pooling']): partition(x) for c, x in zip(case['cfgs'], res['runs']) if x['error'] is None}
    for h, rec in zip(case.get('histories', []), res.get('histories', [])):
        cfg = h['cfg']
        if rec['error'] is not None:
            out.append(('exception', 'history %r: MoleculeIterator raised %s' % (h['ks'], rec['error']), cfg))
            continue
        wanted = sorted(f[0] for f in absf if f[1] or cfg['yield_invalid'])
        pf = partition(rec['final'])
        got = sorted(i for mol in pf for i in mol)
        ref = fresh.get((cfg['every'], cfg['pooling']))
        if got != wanted or (ref is not None and pf != ref):
            out.append(('pass-depends-on-history',
                        'one MoleculeIterator object (check_eject_every=%r, pooling_method=%d): passes abandoned after %r yielded '
                        'molecules, then a complete pass yields molecules %r; a fresh iterator yields %r (every fragment exactly once: %r)'
                        % (cfg['every'], cfg['pooling'], h['ks'], [list(x) for x in pf],
                           [list(x) for x in ref] if ref is not None else None, wanted), dict(cfg, ks=h['ks'])))
    return out


def _search(self):
    cases = getattr(self, 'case_list', None)
    res = getattr(self, 'impl_res', None)
    if cases is None or res is None:
        cases = self.cases()
        res = self.run_impl_cases(cases)
    best = {}
    n_checked = 0
    for case, r in zip(cases, res):
        n_checked += len(case['cfgs'])
        for key, text, cfg in spec_violations(case, r):
            if key not in best or len(case['frags']) < len(best[key][0]['frags']):
                best[key] = (case, cfg, text)
    if not best:
        # nothing in the standard streams: a deeper, precondition-focused stream (only reached when something broke)
        import random
        rng = random.Random(self.seed * 7919 + 17)
        extra = [self.gen_case(rng, rng.choice([4, 5, 6, 7]), rng.choice(['pre', 'pre', 'prelag']))
                 for _ in range(600 if self.tier == 'quick' else 3000)]
        extra += self.directed(rng, 2000 if self.tier == 'quick' else 8000)
        rs = self.run_impl_cases(extra)
        for case, r in zip(extra, rs):
            n_checked += len(case['cfgs'])
            for key, text, cfg in spec_violations(case, r):
                if key not in best or len(case['frags']) < len(best[key][0]['frags']):
                    best[key] = (case, cfg, text)
    self.cov['search'] = {'runs_checked_against_spec': n_checked,
                          'spec': 'python transcription of C07_emit_once / C07_no_index_error (all runs) and of '
                                  'C07_schedule_independent_partition / C07_no_early_eject (runs satisfying preb)'}
    for key, (case, cfg, text) in best.items():
        small = self.shrink(case, cfg, key)
        r2 = self.run_impl_cases([small])[0]
        v = [x for x in spec_violations(small, r2) if x[0] == key]
        text2, cfg2 = (v[0][1], v[0][2]) if v else (text, cfg)
        self.witnesses.append({'key': key, 'what': text2,
                               'input': {'frags': small['frags'], 'cls': small['cls'], 'cfg': cfg2},
                               'impl': {'abs': r2['abs'],
                                        'partitions': {'%s/pooling%d' % (c['every'], c['pooling']): [list(x) for x in partition(x_)]
                                                       for c, x_ in zip(small['cfgs'], r2['runs']) if x_['error'] is None}},
                               'expected': 'the same set of molecules for every check_eject_every as for None; every fragment '
                                           'in exactly one molecule; no exception'})


def _shrink(self, case, cfg, key):
    """greedy removal of fragments while the same kind of violation remains (all schedules re-run)"""
    cur = {'frags': list(case['frags']), 'cls': case['cls']}
    base = {k: cfg[k] for k in ('cache', 'radius', 'hd', 'yield_invalid')}
    for _ in range(30):
        n = len(cur['frags'])
        if n <= 2:
            break
        cands = []
        for i in range(n):
            fr = cur['frags'][:i] + cur['frags'][i + 1:]
            cands.append({'frags': fr, 'cls': cur['cls'], 'cfgs': Prop.all_schedules(base, len(fr)),
                          'histories': Prop.std_histories(base, len(fr))})
        rs = self.run_impl_cases(cands)
        hit = None
        for cand, r in zip(cands, rs):
            if any(v[0] == key for v in spec_violations(cand, r)):
                hit = cand
                break
        if hit is None:
            break
        cur = hit
    cur['cfgs'] = Prop.all_schedules(base, len(cur['frags']))
    cur['histories'] = Prop.std_histories(base, len(cur['frags']))
    return cur


GAP_KEY = 'partition-depends-on-schedule:fragment-longer-than-half-cache'
GAP_INPUT = {'frags': [{'chrom': 0, 'sm': 0, 'rx': 'AAA', 'qcfail': False, 'r1': [100, 10, False], 'r2': None},
                       {'chrom': 0, 'sm': 0, 'rx': 'CCC', 'qcfail': False, 'r1': [105, 31, False], 'r2': None},
                       {'chrom': 0, 'sm': 0, 'rx': 'AAA', 'qcfail': False, 'r1': [106, 4, False], 'r2': None}],
             'cls': 'Fragment', 'base': {'cache': 40, 'radius': 0, 'hd': 0, 'yield_invalid': False}}


def _replay_known(self, finding):
    """known finding (outside the theorems' inequality, inside the property's wording): start-sorted reads on one
    contig, every fragment shorter than cache_size=40, the middle one longer than cache_size/2; true while the
    implementation still yields different molecules for check_eject_every=0 and None"""
    if finding.get('key') != GAP_KEY:
        return False
    case = {'frags': GAP_INPUT['frags'], 'cls': GAP_INPUT['cls'], 'cfgs': Prop.all_schedules(GAP_INPUT['base'], 3)}
    r = self.run_impl_cases([case])[0]
    parts = {(c['pooling'], c['every']): partition(x) for c, x in zip(case['cfgs'], r['runs']) if x['error'] is None}
    return any(parts.get((p, 0)) != parts.get((p, None)) for p in (0, 1))


def _matches(self, finding, witness):
    # witnesses are only produced for inputs satisfying the precondition, so the long-fragment finding can never
    # absorb one of them; identity of keys only
    return finding.get('key') == witness.get('key') == GAP_KEY


Prop.replay_known = _replay_known
Prop.matches = _matches
Prop.search = _search
Prop.shrink = _shrink


def _replay(self, data):
    """re-run the recorded failing input on the implementation under $SCMO_REPO (all schedules) and evaluate the
    specification on it; exit 1 while it still fails"""
    w = data.get('witness')
    if not w or not isinstance(w.get('input'), dict) or 'frags' not in w['input']:
        return fw.PropBase.replay(self, data)
    inp = w['input']
    base = {k: inp['cfg'][k] for k in ('cache', 'radius', 'hd', 'yield_invalid')}
    case = {'frags': inp['frags'], 'cls': inp['cls'], 'cfgs': Prop.all_schedules(base, len(inp['frags'])),
            'histories': Prop.std_histories(base, len(inp['frags']))}
    if 'ks' in inp['cfg']:
        case['histories'].append({'cfg': {k: inp['cfg'][k] for k in ('cache', 'radius', 'hd', 'yield_invalid', 'every', 'pooling')},
                                  'ks': inp['cfg']['ks']})
    r = self.run_impl_cases([case])[0]
    print('recorded: %s' % w.get('what'))
    print('fragments (id valid sample strand contig start end umi hash): %s' % json.dumps(r['abs']))
    for cfg, run in zip(case['cfgs'], r['runs']):
        print('  pooling_method=%d check_eject_every=%-4s -> %s%s' % (
            cfg['pooling'], cfg['every'], [list(x) for x in partition(run)],
            '  ERROR ' + run['error'] if run['error'] else ''))
    v = spec_violations(case, r)
    for key, text, cfg in v[:5]:
        print('VIOLATION property=C07 %s: %s' % (key, text))
    if not v:
        print('C07 replay: the recorded input no longer violates the specification on %s' % fw.REPO)
    return 1 if v else 0


Prop.replay = _replay
