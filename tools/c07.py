"""C07 - molecule partition is independent of the buffer-ejection schedule (MoleculeIterator)."""
import ast, hashlib, itertools, json, os
import fw, py2coq
from py2coq import Untranslatable

ITER = 'singlecellmultiomics/molecule/iterator.py'
MOL = 'singlecellmultiomics/molecule/molecule.py'
FRAG = 'singlecellmultiomics/fragment/fragment.py'


# ----------------------------------------------------------------------------- T (translator tie)
class Tr(py2coq.ExprTranslator):
    """ExprTranslator + exact handling of `a - c * 0.5` inside a comparison (both sides doubled)."""

    @staticmethod
    def has_half(n):
        return any(isinstance(c, ast.Constant) and isinstance(c.value, float) for c in ast.walk(n))

    def z2(self, n):
        """translation of 2*n where `x * 0.5` terms become x (exact); any other float fails in self.z"""
        if isinstance(n, ast.BinOp) and isinstance(n.op, (ast.Add, ast.Sub)):
            return '(%s %s %s)' % (self.z2(n.left), '+' if isinstance(n.op, ast.Add) else '-', self.z2(n.right))
        if isinstance(n, ast.BinOp) and isinstance(n.op, ast.Mult):
            for a, b in ((n.left, n.right), (n.right, n.left)):
                if isinstance(b, ast.Constant) and isinstance(b.value, float) and b.value == 0.5:
                    return self.z(a)
        return '(2 * %s)' % self.z(n)

    def cmp1(self, op, l, r):
        if self.has_half(l) or self.has_half(r):
            L, R = self.z2(l), self.z2(r)
            table = {ast.Lt: '(%s <? %s)', ast.LtE: '(%s <=? %s)', ast.Gt: '(%s >? %s)', ast.GtE: '(%s >=? %s)'}
            for k, fmt in table.items():
                if isinstance(op, k):
                    return fmt % (L, R)
            raise Untranslatable('scaled comparison operator outside subset: %s' % ast.dump(op))
        return super().cmp1(op, l, r)


def _strip_doc(body):
    if body and isinstance(body[0], ast.Expr) and isinstance(body[0].value, ast.Constant) \
            and isinstance(body[0].value.value, str):
        return body[1:]
    return body


def _chain(tr, stmts):
    """`if t: return c` ... `return e`  (an `if` with an `else` must be the last statement)"""
    if not stmts:
        raise Untranslatable('guard chain falls off the end (implicit return None)')
    st = stmts[0]
    if isinstance(st, ast.Return):
        if len(stmts) != 1 or st.value is None:
            raise Untranslatable('statement after return / bare return at line %d' % st.lineno)
        return tr.b(st.value)
    if isinstance(st, ast.If):
        body = _chain(tr, st.body)
        if st.orelse:
            if len(stmts) != 1:
                raise Untranslatable('if/else followed by more statements at line %d' % st.lineno)
            rest = _chain(tr, st.orelse)
        else:
            rest = _chain(tr, stmts[1:])
        return '(if %s then %s else %s)' % (tr.b(st.test), body, rest)
    raise Untranslatable('statement outside guard-chain subset at line %d: %s' % (st.lineno, ast.dump(st)[:120]))


def translate_guard_chain(path, qualname, env, coqname, params, repo_rel):
    src = open(path).read()
    fn = py2coq.find_function(ast.parse(src), qualname)
    if not isinstance(fn, ast.FunctionDef):
        raise Untranslatable('%s is not a function' % qualname)
    tr = Tr(env=env)
    body = _chain(tr, _strip_doc(list(fn.body)))
    # hash of the code without the docstring (doc edits must not look like code changes)
    code = '\n'.join(ast.unparse(s) for s in _strip_doc(list(fn.body)))
    sha = hashlib.sha256(code.encode()).hexdigest()
    text = '(* source: %s lines %d-%d (%s) sha256(code) %s *)\nDefinition %s %s : bool :=\n  %s.' % (
        repo_rel, fn.lineno, fn.end_lineno, qualname, sha, coqname, params, body)
    return text, {'source': repo_rel, 'lines': [fn.lineno, fn.end_lineno], 'sha256': sha, 'coq': coqname}


def translate_pop_sites(path, repo_rel):
    """the index expression of the two `<list>.pop(<expr>)` calls of MoleculeIterator.__iter__, each of
    which must sit directly in `for i, j in enumerate(to_pop):`"""
    src = open(path).read()
    fn = py2coq.find_function(ast.parse(src), 'MoleculeIterator.__iter__')
    sites = {}
    parent = {}
    for n in ast.walk(fn):
        for c in ast.iter_child_nodes(n):
            parent[c] = n
    allpops = [c for c in ast.walk(fn) if isinstance(c, ast.Call) and isinstance(c.func, ast.Attribute) and c.func.attr == 'pop']
    for call in allpops:
        loop = parent.get(call)
        while loop is not None and not isinstance(loop, (ast.For, ast.While)):
            loop = parent.get(loop)
        if not isinstance(loop, ast.For) or ast.unparse(loop.target) != '(i, j)' or ast.unparse(loop.iter) != 'enumerate(to_pop)':
            raise Untranslatable('pop call at line %d is not directly inside `for i, j in enumerate(to_pop)`' % call.lineno)
        if len(call.args) != 1 or call.keywords:
            raise Untranslatable('pop call at line %d: expected pop(expr)' % call.lineno)
        if sum(1 for c in ast.walk(loop) if c in allpops) != 1:
            raise Untranslatable('pop loop at line %d: expected exactly one pop' % loop.lineno)
        recv = ast.unparse(call.func.value)
        name = {'self.molecules': 'pop_index_flat', 'self.molecules_per_cell[hash_group]': 'pop_index_grouped'}.get(recv)
        if name is None or name in sites:
            raise Untranslatable('unexpected pop receiver %r at line %d' % (recv, call.lineno))
        sites[name] = call
    if sorted(sites) != ['pop_index_flat', 'pop_index_grouped']:
        raise Untranslatable('expected the two ejection pop loops, found %r' % sorted(sites))
    chunks, meta = [], []
    for name in ('pop_index_flat', 'pop_index_grouped'):
        call = sites[name]
        expr = call.args[0]
        body = Tr().z(expr)
        seg = ast.get_source_segment(src, call)
        sha = hashlib.sha256(seg.encode()).hexdigest()
        chunks.append('(* source: %s line %d sha256 %s\n   %s *)\nDefinition %s (i j : Z) : Z :=\n  %s.'
                      % (repo_rel, call.lineno, sha, ' '.join(seg.split()), name, body))
        meta.append({'source': repo_rel, 'lines': [call.lineno, call.end_lineno], 'sha256': sha, 'coq': name})
    return chunks, meta


def regen_eject(out=None, repo=None):
    repo = repo or fw.REPO
    chunks, meta = translate_pop_sites(os.path.join(repo, ITER), ITER)
    t, m = py2coq.translate_inline_test(
        os.path.join(repo, ITER), 'MoleculeIterator.__iter__', ['self.check_ejection_iter', 'self.check_eject_every'],
        {'self.check_eject_every is not None': 'has_every', 'self.check_ejection_iter': 'ctr',
         'self.check_eject_every': 'every'},
        'eject_due', '(has_every : bool) (ctr every : Z)', repo_rel=ITER)
    chunks.append(t); meta.append(m)
    t, m = translate_guard_chain(
        os.path.join(repo, MOL), 'Molecule.can_be_yielded',
        {'chromosome is None': 'chrom_none', 'chromosome': 'chromosome', 'self.chromosome': 'mchrom',
         'position': 'position', 'self.spanStart': 'spanStart', 'self.spanEnd': 'spanEnd',
         'self.cache_size': 'cache_size'},
        'can_be_yielded', '(chrom_none : bool) (chromosome mchrom position spanStart spanEnd cache_size : Z)', MOL)
    chunks.append(t); meta.append(m)
    t, m = translate_guard_chain(
        os.path.join(repo, FRAG), 'Fragment.__eq__',
        {'self.sample': 's_sample', 'other.sample': 'o_sample', 'self.strand': 's_strand', 'other.strand': 'o_strand',
         'self.has_valid_span()': 's_span_ok', 'other.has_valid_span()': 'o_span_ok',
         'self.span[0]': 's_chrom', 'other.span[0]': 'o_chrom', 'self.span[1]': 's_start', 'other.span[1]': 'o_start',
         'self.span[2]': 's_end', 'other.span[2]': 'o_end', 'self.assignment_radius': 'radius',
         'self.umi_eq(other)': 'umi_ok'},
        'fragment_eq', '(s_span_ok o_span_ok umi_ok : bool) (radius s_sample s_strand s_chrom s_start s_end '
                       'o_sample o_strand o_chrom o_start o_end : Z)', FRAG)
    chunks.append(t); meta.append(m)
    t, m = translate_guard_chain(
        os.path.join(repo, FRAG), 'Fragment.umi_eq',
        {'self.umi == other.umi': 'umi_same', 'self.umi_hamming_distance': 'hd',
         'len(self.umi) != len(other.umi)': 'len_differ', 'hamming_distance(self.umi, other.umi)': 'hdist'},
        'umi_eq_gen', '(umi_same len_differ : bool) (hd hdist : Z)', FRAG)
    chunks.append(t); meta.append(m)
    py2coq.write_gen(out or os.path.join(fw.COQ, 'Gen', 'GenEject.v'), '', chunks)
    return meta
