"""confirm every seeded change that has no confirm.json yet (full seedtest incl. the test-suite); one chain per property.
usage: seednew.py [-j N]"""
import json, os, subprocess, sys, glob, collections
from concurrent.futures import ThreadPoolExecutor
V = os.path.dirname(os.path.dirname(os.path.abspath(__file__)))
j = int(sys.argv[sys.argv.index('-j') + 1]) if '-j' in sys.argv else 4
work = collections.defaultdict(list)
for d in sorted(glob.glob(os.path.join(V, 'seeded', 'C*-*'))):
    if os.path.exists(os.path.join(d, 'meta.json')) and not os.path.exists(os.path.join(d, 'confirm.json')):
        work[os.path.basename(d).split('-')[0]].append(d)


def chain(p):
    for d in work[p]:
        r = subprocess.run([sys.executable, os.path.join(V, 'tools', 'seedtest.py'), d], capture_output=True, text=True)
        open(os.path.join(d, 'confirm.json'), 'w').write(r.stdout)
        try:
            x = json.loads(r.stdout[r.stdout.index('{'):])
        except Exception:
            x = {'error': (r.stdout + r.stderr)[-300:]}
        print('%-8s applies=%s tests_rc=%s demo=%s/%s caught=%s with_input=%s %s' % (
            os.path.basename(d), x.get('applies'), x.get('tests_rc'), x.get('demo_original_rc'), x.get('demo_mutated_rc'),
            x.get('caught'), x.get('with_failing_input'), x.get('error', '')), flush=True)


with ThreadPoolExecutor(j) as ex:
    list(ex.map(chain, sorted(work)))
