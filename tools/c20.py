"""C20 - status marker reports success only for a complete, sorted, indexed output.

Part 1: translator (AST walk of the tagging pipelines -> coq/Gen/GenStatus.v, terms of Lib.StatusLang.prog).
Part 2: the check (fault enumeration on the real pipelines vs the model).

What is extracted (fail closed: anything outside the recognised subset raises Untranslatable):
  * every call, in evaluation order, of run_multiome_tagging, tag_multiome_single_thread,
    tag_multiome_multi_processing, sorted_bam_file (code before / after the yield), sort_and_index,
    merge_bams and the `with` block of run_tagging_tasks;
  * try/except (which exceptions are caught, whether the handler re-raises), for loops, if/else;
  * the effect of a call on the abstract world is decided from the callee name AND from whether it
    receives the output path (or <output>.bai): see classify().  A call that does not receive the
    output path is a step without effect on the world (it can still fail).  A call of an unknown
    function that does receive the output path is refused.
"""
import ast, os, hashlib
from py2coq import Untranslatable

TM = 'singlecellmultiomics/universalBamTagger/bamtagmultiome.py'
BF = 'singlecellmultiomics/bamProcessing/bamFunctions.py'
TG = 'singlecellmultiomics/universalBamTagger/tagging.py'

OK_MESSAGE = 'Reached end. All ok!'
# calls that cannot touch the file system and are not worth a crash point of their own
PURE = {'print', 'len', 'list', 'dict', 'set', 'str', 'int', 'float', 'bool', 'enumerate', 'isinstance', 'type',
        'tuple', 'sorted', 'range', 'any', 'all', 'sum', 'min', 'max', 'locals', 'repr', 'format', 'zip',
        'sleep', 'time.sleep', 'os.path.exists', 'os.path.dirname', 'os.path.abspath', 'os.path.join',
        'os.path.basename', 'sys.stderr.write', 'sys.stdout.write', 'which', 'datetime.now', 'uuid.uuid4', 'uuid4'}
PURE_METHODS = {'endswith', 'startswith', 'replace', 'split', 'join', 'get', 'items', 'keys', 'values', 'append',
                'add', 'copy', 'strftime', 'total_seconds', 'format', 'strip', 'lower', 'upper', 'update', 'extend'}
# functions whose body is translated and referenced where they receive the output path:
#   name -> (file key, name of the parameter holding the output path)
INLINE = {
    'sorted_bam_file': (BF, 'write_path'),
    'sort_and_index': (BF, 'sorted_path'),
    'merge_bams': (BF, 'output_path'),
    'tag_multiome_single_thread': (TM, 'out_bam_path'),
    'tag_multiome_multi_processing': (TM, 'out_bam_path'),
}


def dotted(node):
    if isinstance(node, ast.Name):
        return node.id
    if isinstance(node, ast.Attribute):
        b = dotted(node.value)
        return (b + '.' + node.attr) if b else None
    return None


def dump(e):
    return ast.dump(e, annotate_fields=False)


class Ctx:
    """per function translation context"""
    def __init__(self, gen, fname, fdef, out_exprs, relfile):
        self.gen, self.fname, self.fdef, self.rel = gen, fname, fdef, relfile
        self.out = set(dump(e) for e in out_exprs)
        self.idx = set()
        for e in out_exprs:
            src = ast.unparse(e)
            for s in ("f'{%s}.bai'" % src, "%s + '.bai'" % src):
                self.idx.add(dump(ast.parse(s, mode='eval').body))
        self.out_src = [ast.unparse(e) for e in out_exprs]
        self.alias = {}         # loop variable of an unrolled literal loop -> expression
        self.handles = set()    # names bound by `with sorted_bam_file(out) as NAME`
        self.unit_iters = set()  # names assigned from an iterator over run_tagging_tasks results
        self.assigned = {}      # name -> list of value nodes (whole function)
        for n in ast.walk(fdef):
            if isinstance(n, ast.Assign) and len(n.targets) == 1 and isinstance(n.targets[0], ast.Name):
                self.assigned.setdefault(n.targets[0].id, []).append(n.value)

    def resolve(self, e):
        if isinstance(e, ast.Name) and e.id in self.alias:
            return self.alias[e.id]
        return e

    def is_out(self, e):
        return dump(self.resolve(e)) in self.out

    def is_idx(self, e):
        return dump(self.resolve(e)) in self.idx

    def mentions_out(self, e):
        """the expression contains the output path (as a sub-expression)"""
        e = self.resolve(e)
        for n in ast.walk(e):
            if isinstance(n, ast.expr):
                n2 = self.resolve(n)
                if dump(n2) in self.out or dump(n2) in self.idx:
                    return True
        return False


class Gen:
    def __init__(self, repo):
        self.repo = repo
        self.labels = []      # label id -> name
        self.label_count = {}
        self.loops = []       # loop id -> name
        self.choices = []     # choice id -> name (function: test source)
        self.defs = []        # (coq name, term text)
        self.meta = []
        self.notes = []
        self.trees = {}
        self.funcs = {}
        for rel in (TM, BF, TG):
            p = os.path.join(repo, rel)
            src = open(p).read()
            tree = ast.parse(src)
            self.trees[rel] = (tree, src)
            for n in tree.body:
                if isinstance(n, ast.FunctionDef):
                    self.funcs[(rel, n.name)] = n
        self.built = {}

    # ---------------------------------------------------------------- ids
    def label(self, fname, callee):
        key = '%s/%s' % (fname, callee)
        k = self.label_count.get(key, 0)
        self.label_count[key] = k + 1
        self.labels.append('%s#%d' % (key, k))
        return len(self.labels) - 1

    def loop_id(self, fname, node):
        self.loops.append('%s: for %s in %s' % (fname, ast.unparse(node.target), ast.unparse(node.iter)))
        return len(self.loops) - 1

    def choice_id(self, fname, test):
        self.choices.append('%s: %s' % (fname, ast.unparse(test)))
        return len(self.choices) - 1

    def refuse(self, ctx, node, why):
        raise Untranslatable('%s:%s (%s): %s: %s' % (ctx.rel, getattr(node, 'lineno', '?'), ctx.fname, why,
                                                     ast.unparse(node)[:120].replace('\n', ' ')))

    # ---------------------------------------------------------------- calls
    def calls_in(self, node):
        """Call nodes below node in evaluation order (arguments before the call); lambdas and nested
        function definitions are not entered"""
        out = []

        def visit(n):
            if isinstance(n, (ast.Lambda, ast.FunctionDef, ast.AsyncFunctionDef, ast.ClassDef)):
                return
            for c in ast.iter_child_nodes(n):
                visit(c)
            if isinstance(n, ast.Call):
                out.append(n)
            if isinstance(n, (ast.Yield, ast.YieldFrom, ast.Await)):
                raise Untranslatable('yield/await outside the recognised place: line %s' % getattr(n, 'lineno', '?'))
        visit(node)
        return out

    def status_of(self, ctx, msg):
        if not (isinstance(msg, ast.Constant) and isinstance(msg.value, str)):
            self.refuse(ctx, msg, 'status message is not a string literal')
        m = msg.value
        if m == OK_MESSAGE:
            return 'SOk'
        if m == 'unfinished':
            return 'SUnfinished'
        if m.startswith('FAIL'):
            return 'SFail'
        return 'SOther'

    def classify(self, ctx, call):
        """-> list of prog terms for this one call (arguments already handled by the caller)"""
        name = dotted(call.func)
        args = list(call.args) + [k.value for k in call.keywords]
        touches = [a for a in args if ctx.mentions_out(a)]
        st = lambda eff, nm=None: ['Step %d %s' % (self.label(ctx.fname, nm or name or 'call'), eff)]
        if name is None:
            # call of a call result / subscript: no name; refuse only when it receives the output path
            if touches:
                self.refuse(ctx, call, 'unnamed callee receives the output path')
            return st('ENop', 'call')
        base = name.split('.')[-1]
        if name in PURE:
            return []
        # method of the output path string itself (args.o.endswith ...)
        if isinstance(call.func, ast.Attribute) and ctx.mentions_out(call.func.value):
            if base in PURE_METHODS:
                return []
            self.refuse(ctx, call, 'method call on the output path')
        if isinstance(call.func, ast.Attribute) and base in PURE_METHODS and not touches:
            return []
        if name == 'write_status':
            if len(call.args) != 2 or call.keywords:
                self.refuse(ctx, call, 'write_status call shape')
            if ctx.is_out(call.args[0]):
                return st('(EStatus %s)' % self.status_of(ctx, call.args[1]))
            if ctx.mentions_out(call.args[0]):
                self.refuse(ctx, call, 'write_status on a path derived from the output path')
            return st('ENop')
        if name in ('os.remove', 'remove', 'os.unlink'):
            if len(args) != 1:
                self.refuse(ctx, call, 'remove call shape')
            if ctx.is_out(args[0]):
                return st('ERemoveOut')
            if ctx.is_idx(args[0]):
                return st('ERemoveIdx')
            return st('ENop')          # e.g. f'{out}.unsorted', temp files
        if name in ('os.rename', 'move', 'shutil.move', 'os.replace'):
            if len(args) != 2:
                self.refuse(ctx, call, 'move call shape')
            if ctx.mentions_out(args[0]):
                self.refuse(ctx, call, 'the output is moved away')
            if ctx.is_out(args[1]):
                return st('EWriteOut')
            if ctx.is_idx(args[1]):
                return st('EIndex')
            if ctx.mentions_out(args[1]):
                self.refuse(ctx, call, 'move to a path derived from the output path')
            return st('ENop')
        if name == 'pysam.sort':
            if any(ctx.is_out(a) for a in args):
                return st('EWriteOut')
            if touches:
                self.refuse(ctx, call, 'pysam.sort argument derived from the output path')
            return st('ENop')
        if name == 'pysam.merge':
            if args and ctx.is_out(args[0]):
                return st('EWriteOut')
            if touches:
                self.refuse(ctx, call, 'pysam.merge with the output path as an input')
            return st('ENop')
        if name == 'pysam.index':
            if args and ctx.is_out(args[0]):
                return st('EIndex')
            if touches:
                self.refuse(ctx, call, 'pysam.index argument derived from the output path')
            return st('ENop')
        if name == 'os.system':
            cmd = args[0] if args else None
            vals = ctx.assigned.get(cmd.id, []) if isinstance(cmd, ast.Name) else [cmd]
            if len(vals) == 1 and isinstance(vals[0], ast.JoinedStr):
                text = ast.unparse(vals[0])
                if any(ctx.mentions_out(v.value) for v in vals[0].values if isinstance(v, ast.FormattedValue)):
                    if 'samtools merge -o {%s}' % ctx.out_src[0] in text:
                        return st('EWriteOut')
                    self.refuse(ctx, call, 'shell command mentioning the output path')
                return st('ENop')
            self.refuse(ctx, call, 'os.system with a command that is not an f-string literal')
        if base == 'write_pysam':
            if args and isinstance(args[0], ast.Name) and args[0].id in ctx.handles:
                return st('EUnit', 'write_pysam')
            return st('ENop', 'write_pysam')
        if name == 'run_tagging_task' and any(isinstance(a, ast.Name) and a.id in ctx.handles for a in args):
            return st('EUnit')
        if name in INLINE:
            rel, param = INLINE[name]
            fdef = self.funcs.get((rel, name))
            if fdef is None:
                self.refuse(ctx, call, 'definition of %s not found' % name)
            bound = self.bind(fdef, call, param)
            if bound is not None and ctx.is_out(bound):
                if name == 'sorted_bam_file':
                    self.refuse(ctx, call, 'sorted_bam_file(output) used outside a with statement')
                self.build(name)
                return ['%s_body' % name]
            if touches:
                self.refuse(ctx, call, '%s receives the output path in another parameter' % name)
            return st('ENop')
        if touches:
            self.refuse(ctx, call, 'unknown function receives the output path')
        return st('ENop')

    def bind(self, fdef, call, param):
        names = [a.arg for a in fdef.args.args]
        if param not in names:
            raise Untranslatable('%s has no parameter %s any more' % (fdef.name, param))
        i = names.index(param)
        if i < len(call.args):
            if any(isinstance(a, ast.Starred) for a in call.args[:i + 1]):
                raise Untranslatable('starred call of %s' % fdef.name)
            return call.args[i]
        for k in call.keywords:
            if k.arg == param:
                return k.value
            if k.arg is None:
                raise Untranslatable('**kwargs call of %s' % fdef.name)
        return None

    def expr_steps(self, ctx, node):
        out = []
        for c in self.calls_in(node):
            out += self.classify(ctx, c)
        return out

    # ---------------------------------------------------------------- statements
    def walk(self, ctx, stmts, in_loop=False):
        out = []
        for s in stmts:
            out += self.stmt(ctx, s, in_loop)
        return out

    def finish_def(self, name, term):
        if 'BRKMARK' in term:
            raise Untranslatable('break/continue not enclosed by a loop in %s' % name)
        self.defs.append((name, term))

    def seq(self, terms):
        if not terms:
            return 'Skip'
        if len(terms) == 1:
            return terms[0]
        return 'seq_of [' + '; '.join(terms) + ']'

    def stmt(self, ctx, s, in_loop):
        if isinstance(s, (ast.FunctionDef, ast.Import, ast.ImportFrom, ast.Pass, ast.Nonlocal, ast.Global)):
            return []
        if isinstance(s, ast.Expr) and isinstance(s.value, ast.Constant):
            return []   # docstring / string statement
        if isinstance(s, (ast.Expr, ast.Assign, ast.AugAssign, ast.AnnAssign, ast.Assert, ast.Delete)):
            if isinstance(s, ast.Assign):
                for t in s.targets:
                    for n in ast.walk(t):
                        if isinstance(n, ast.expr) and (dump(n) in ctx.out or dump(n) in ctx.idx):
                            self.refuse(ctx, s, 'the output path is re-assigned')
                        if isinstance(n, ast.Name) and n.id in ctx.handles:
                            self.refuse(ctx, s, 'the output handle is re-assigned')
                # name bound to a stream of worker results
                if len(s.targets) == 1 and isinstance(s.targets[0], ast.Name):
                    if any(isinstance(n, ast.Name) and n.id == 'run_tagging_tasks' for n in ast.walk(s.value)):
                        ctx.unit_iters.add(s.targets[0].id)
                        # the calls inside a generator expression run lazily, at the loop header
                        if isinstance(s.value, ast.GeneratorExp):
                            return []
            return self.expr_steps(ctx, s)
        if isinstance(s, ast.Return):
            if s is not ctx.fdef.body[-1]:
                self.refuse(ctx, s, 'return before the end of the function')
            return self.expr_steps(ctx, s) if s.value is not None else []
        if isinstance(s, ast.Raise):
            pre = self.expr_steps(ctx, s)
            return pre + ['Raise %d %s' % (self.label(ctx.fname, 'raise'), self.raise_kind(s))]
        if isinstance(s, ast.If):
            return self.if_stmt(ctx, s, in_loop)
        if isinstance(s, ast.For):
            return self.for_stmt(ctx, s)
        if isinstance(s, ast.While):
            if self.calls_with_steps(ctx, s):
                self.refuse(ctx, s, 'while loop with side effects')
            return []
        if isinstance(s, ast.With):
            return self.with_stmt(ctx, s, in_loop)
        if isinstance(s, ast.Try):
            return self.try_stmt(ctx, s, in_loop)
        if isinstance(s, (ast.Break, ast.Continue)):
            if not in_loop:
                self.refuse(ctx, s, 'break/continue outside a loop')
            return ['BRKMARK']     # accepted by for_stmt only in a loop without any effect on the world
        self.refuse(ctx, s, 'statement kind %s not supported' % type(s).__name__)

    RAISE_KIND = {'ValueError': 'KValue', 'RuntimeError': 'KRuntime', 'NotImplementedError': 'KRuntime',
                  'OSError': 'KOS', 'IOError': 'KOS', 'FileNotFoundError': 'KOS', 'TimeoutError': 'KTimeout',
                  'MemoryError': 'KMemory', 'KeyboardInterrupt': 'KBase', 'SystemExit': 'KBase'}
    HANDLER_CLASS = {'BaseException': 'HBase', 'Exception': 'HException', 'OSError': 'HOS', 'IOError': 'HOS',
                     'EnvironmentError': 'HOS', 'TimeoutError': 'HTimeout', 'ValueError': 'HValue',
                     'RuntimeError': 'HRuntime', 'MemoryError': 'HMemory', 'KeyboardInterrupt': 'HKeyboard'}

    def raise_kind(self, s):
        e = s.exc
        if isinstance(e, ast.Call):
            e = e.func
        return self.RAISE_KIND.get(dotted(e) if e is not None else None, 'KOther')

    def handler_classes(self, ctx, s, h):
        """the exception classes an except clause names -> list of StatusLang.hclass (fail closed)"""
        if h.type is None:
            return ['HBase']
        elts = h.type.elts if isinstance(h.type, ast.Tuple) else [h.type]
        out = []
        for e in elts:
            n = dotted(e)
            if n not in self.HANDLER_CLASS:
                self.refuse(ctx, s, 'except clause for a class outside the modelled hierarchy: %s' % ast.unparse(e))
            out.append(self.HANDLER_CLASS[n])
        return out

    def calls_with_steps(self, ctx, node):
        save = (list(self.labels), dict(self.label_count))
        try:
            return bool(self.expr_steps(ctx, node))
        finally:
            self.labels, self.label_count = save

    def if_stmt(self, ctx, s, in_loop):
        # `if head is not None and ...: [print]; break`  -- the -head option truncates on purpose
        if in_loop and not s.orelse and isinstance(s.body[-1], ast.Break) and \
                any(isinstance(n, ast.Name) and n.id == 'head' for n in ast.walk(s.test)) and \
                all(isinstance(b, ast.Expr) and dotted(getattr(b.value, 'func', None)) == 'print' for b in s.body[:-1]):
            self.notes.append('%s: `%s: break` ignored (assumption: -head not given)' % (ctx.fname, ast.unparse(s.test)))
            return []
        pre = self.expr_steps(ctx, s.test)
        if ctx.fname == 'run_multiome_tagging' and ast.unparse(s.test) == 'args.cluster':
            self.notes.append('run_multiome_tagging: the `if args.cluster:` branch (job submission to a scheduler) is not translated')
            return pre
        a = self.walk(ctx, s.body, in_loop)
        b = self.walk(ctx, s.orelse, in_loop)
        if not a and not b:
            return pre
        return pre + ['Choice %d (%s) (%s)' % (self.choice_id(ctx.fname, s.test), self.seq(a), self.seq(b))]

    def for_stmt(self, ctx, s):
        if s.orelse:
            self.refuse(ctx, s, 'for/else')
        # (1) loop over a literal list: unrolled, the loop variable stands for each element
        if isinstance(s.iter, (ast.List, ast.Tuple)) and isinstance(s.target, ast.Name):
            out = []
            for e in s.iter.elts:
                out += self.expr_steps(ctx, e)
            for e in s.iter.elts:
                ctx.alias[s.target.id] = e
                out += self.walk(ctx, s.body, in_loop=False)
                del ctx.alias[s.target.id]
            return out
        # (2) the retry loop of sort_and_index
        r = self.retry_loop(ctx, s)
        if r is not None:
            return r
        # (3) general loop
        pre = self.expr_steps(ctx, s.iter)
        hdr = 'ENop'
        names = [n.id for n in ast.walk(s.iter) if isinstance(n, ast.Name)]
        if any(n in ctx.unit_iters for n in names):
            hdr = 'EUnit'
        body_has_steps = True
        mark = (len(self.labels), dict(self.label_count), len(self.loops), len(self.choices))
        lbl = self.label(ctx.fname, 'next(%s)' % ast.unparse(s.iter)[:40])
        lid = self.loop_id(ctx.fname, s)
        body = self.walk(ctx, s.body, in_loop=True)
        btxt = ' '.join(body)
        if 'BRKMARK' in btxt:
            # skipping steps that have no effect on the world does not change the reachable worlds
            import re as _re
            effectful = hdr != 'ENop' or _re.search(r'EUnit|EWriteOut|EIndex|ERemove|EStatus|_body|_pre|_post|Raise', btxt)
            if effectful:
                self.refuse(ctx, s, 'break/continue in a loop that writes records or touches the output')
            body = [b.replace('BRKMARK', 'Skip') for b in body]
        if not body and hdr == 'ENop' and not pre:
            # a loop without any call: no crash point, no effect
            self.labels = self.labels[:mark[0]]
            self.label_count = mark[1]
            self.loops = self.loops[:mark[2]]
            self.choices = self.choices[:mark[3]]
            return []
        return pre + ['Loop %d %d %s (%s)' % (lid, lbl, hdr, self.seq(body))]

    def retry_loop(self, ctx, s):
        """for i, p in enumerate(L): failed=False; try: X except Exception: ...; failed=True; if i==len(L)-1: raise
                                   if not failed: break          with L a literal list of length n
           ==  try X (first path) except: try X (second path) except: X (last path)"""
        it = s.iter
        if not (isinstance(it, ast.Call) and dotted(it.func) == 'enumerate' and len(it.args) == 1
                and isinstance(it.args[0], ast.Name)):
            return None
        lname = it.args[0].id
        if not any(isinstance(n, ast.Try) for n in s.body):
            return None
        vals = ctx.assigned.get(lname, [])
        if len(vals) != 1 or not isinstance(vals[0], (ast.List, ast.Tuple)):
            self.refuse(ctx, s, 'retry loop over something that is not a literal list')
        n = len(vals[0].elts)
        if not (isinstance(s.target, ast.Tuple) and len(s.target.elts) == 2 and all(isinstance(e, ast.Name) for e in s.target.elts)):
            self.refuse(ctx, s, 'retry loop target')
        ivar = s.target.elts[0].id
        body = s.body
        ok = (len(body) == 3 and isinstance(body[0], ast.Assign) and ast.unparse(body[0]) == 'failed = False'
              and isinstance(body[1], ast.Try) and isinstance(body[2], ast.If)
              and ast.unparse(body[2].test) == 'not failed' and len(body[2].body) == 1 and isinstance(body[2].body[0], ast.Break)
              and not body[2].orelse)
        if not ok:
            self.refuse(ctx, s, 'retry loop shape')
        t = body[1]
        if t.finalbody or t.orelse or len(t.handlers) != 1:
            self.refuse(ctx, s, 'retry loop try shape')
        h = t.handlers[0]
        if not (isinstance(h.type, ast.Name) and h.type.id == 'Exception'):
            self.refuse(ctx, s, 'retry loop handler type')
        hb = [x for x in h.body if not (isinstance(x, ast.Expr) and dotted(getattr(x.value, 'func', None)) == 'print')]
        ok = (len(hb) == 2 and ast.unparse(hb[0]) == 'failed = True' and isinstance(hb[1], ast.If)
              and ast.unparse(hb[1].test).replace(' ', '') == '%s==len(%s)-1' % (ivar, lname)
              and len(hb[1].body) == 1 and isinstance(hb[1].body[0], ast.Raise) and hb[1].body[0].exc is None
              and not hb[1].orelse)
        if not ok:
            self.refuse(ctx, s, 'retry loop handler shape')
        attempts = [self.seq(self.walk(ctx, t.body)) for _ in range(n)]
        term = attempts[-1]
        for a in reversed(attempts[:-1]):
            term = 'Try (%s) (%s) false [HException]' % (a, term)
        self.notes.append('%s: retry loop over %d temp paths translated as nested try' % (ctx.fname, n))
        return [term]

    def with_stmt(self, ctx, s, in_loop):
        out = []
        post = []
        for item in s.items:
            ce = item.context_expr
            if isinstance(ce, ast.Call) and dotted(ce.func) == 'sorted_bam_file':
                fdef = self.funcs.get((BF, 'sorted_bam_file'))
                if fdef is None:
                    self.refuse(ctx, s, 'sorted_bam_file not found')
                bound = self.bind(fdef, ce, 'write_path')
                if bound is not None and ctx.is_out(bound):
                    for a in list(ce.args) + [k.value for k in ce.keywords]:
                        if a is not bound:
                            if ctx.mentions_out(a):
                                self.refuse(ctx, s, 'sorted_bam_file receives the output path twice')
                            out += self.expr_steps(ctx, a)
                    self.build('sorted_bam_file')
                    if not isinstance(item.optional_vars, ast.Name):
                        self.refuse(ctx, s, 'with sorted_bam_file(...) without `as name`')
                    ctx.handles.add(item.optional_vars.id)
                    out.append('sorted_bam_file_pre')
                    post.insert(0, 'sorted_bam_file_post')
                    continue
            out += self.expr_steps(ctx, ce)
        out += self.walk(ctx, s.body, in_loop)
        return out + post

    def try_stmt(self, ctx, s, in_loop):
        if s.finalbody or s.orelse:
            self.refuse(ctx, s, 'try with finally/else')
        if len(s.handlers) != 1:
            self.refuse(ctx, s, 'try with several handlers')
        h = s.handlers[0]
        body = self.walk(ctx, s.body, in_loop)
        hcs = '[' + '; '.join(self.handler_classes(ctx, s, h)) + ']'
        hb = list(h.body)
        reraise = 'false'
        if hb and isinstance(hb[-1], ast.Raise):
            r = hb.pop()
            if r.exc is not None and not (isinstance(r.exc, ast.Name) and r.exc.id == h.name):
                self.refuse(ctx, s, 'handler raises a different exception')
            reraise = 'true'
        for x in hb:
            for n in ast.walk(x):
                if isinstance(n, (ast.Raise, ast.Return, ast.Break, ast.Continue)):
                    self.refuse(ctx, s, 'control flow inside an except handler')
        handler = self.walk(ctx, hb, in_loop=False)
        if not body:
            return []
        return ['Try (%s) (%s) %s %s' % (self.seq(body), self.seq(handler), reraise, hcs)]

    # ---------------------------------------------------------------- functions
    def build(self, name):
        if name in self.built:
            if self.built[name] is None:
                raise Untranslatable('recursion through %s' % name)
            return
        self.built[name] = None
        rel, param = INLINE[name]
        fdef = self.funcs[(rel, name)]
        ctx = Ctx(self, name, fdef, [ast.Name(param, ast.Load())], rel)
        self.check_signature(ctx, fdef, param)
        if name == 'sorted_bam_file':
            self.build_cm(ctx, fdef)
        else:
            self.finish_def('%s_body' % name, self.seq(self.walk(ctx, fdef.body)))
        self.record(rel, fdef)
        self.built[name] = True

    def check_signature(self, ctx, fdef, param):
        # the output-path parameter must not be rebound inside the function
        for n in ast.walk(fdef):
            if isinstance(n, ast.Name) and n.id == param and isinstance(n.ctx, (ast.Store, ast.Del)):
                self.refuse(ctx, n, 'parameter %s is re-assigned' % param)

    def build_cm(self, ctx, fdef):
        decos = [dotted(d) for d in fdef.decorator_list]
        if decos != ['contextlib.contextmanager']:
            self.refuse(ctx, fdef, 'sorted_bam_file is not a plain contextlib.contextmanager')
        idx = [i for i, s in enumerate(fdef.body) if isinstance(s, ast.Expr) and isinstance(s.value, ast.Yield)]
        nyield = sum(1 for n in ast.walk(fdef) if isinstance(n, (ast.Yield, ast.YieldFrom)))
        if len(idx) != 1 or nyield != 1:
            # a yield inside try/finally would make the exit code run after a failure too
            self.refuse(ctx, fdef, 'the yield of sorted_bam_file is not a top-level statement of the function')
        i = idx[0]
        pre = self.walk(ctx, fdef.body[:i])
        post = self.walk(ctx, fdef.body[i + 1:])
        self.finish_def('sorted_bam_file_pre', self.seq(pre))
        self.finish_def('sorted_bam_file_post', self.seq(post))

    def record(self, rel, fdef):
        tree, src = self.trees[rel]
        seg = ast.get_source_segment(src, fdef) or ''
        self.meta.append({'file': rel, 'function': fdef.name, 'lines': [fdef.lineno, fdef.end_lineno],
                          'sha256': hashlib.sha256(seg.encode()).hexdigest()})

    def build_all(self):
        # write_status naming rule and content (read back by the correspondence check)
        ws = self.funcs.get((TM, 'write_status'))
        if ws is None:
            raise Untranslatable('write_status not found')
        norm = ast.unparse(ws).replace('"', "'")
        want = ("def write_status(output_path, message):\n    status_path = output_path.replace('.bam', '.status.txt')\n"
                "    with open(status_path, 'w') as o:\n        o.write(message + '\\n')")
        if norm != want:
            raise Untranslatable('write_status changed: %r' % norm)
        self.record(TM, ws)
        cmd = self.funcs.get((TM, 'run_multiome_tagging_cmd'))
        if cmd is None or [ast.unparse(x) for x in cmd.body] != ['args = argparser.parse_args(commandline)', 'run_multiome_tagging(args)']:
            raise Untranslatable('run_multiome_tagging_cmd changed')
        # worker: the with block of run_tagging_tasks
        rt = self.funcs.get((TG, 'run_tagging_tasks'))
        if rt is None:
            raise Untranslatable('run_tagging_tasks not found')
        withs = [s for s in rt.body if isinstance(s, ast.With)]
        if len(withs) != 1:
            raise Untranslatable('run_tagging_tasks: expected one top-level with block')
        ctx = Ctx(self, 'run_tagging_tasks', rt, [ast.Name('target_file', ast.Load())], TG)
        self.finish_def('worker_body', self.seq(self.walk(ctx, [withs[0]])))
        self.record(TG, rt)
        # main
        run = self.funcs.get((TM, 'run_multiome_tagging'))
        if run is None:
            raise Untranslatable('run_multiome_tagging not found')
        out = ast.parse('args.o', mode='eval').body
        ctx = Ctx(self, 'run_multiome_tagging', run, [out], TM)
        for n in ast.walk(run):
            if isinstance(n, ast.Attribute) and isinstance(n.ctx, (ast.Store, ast.Del)) and ast.unparse(n) == 'args.o':
                self.refuse(ctx, n, 'args.o is re-assigned')
        self.finish_def('pipeline', self.seq(self.walk(ctx, run.body)))
        self.record(TM, run)
        for need in ('tag_multiome_single_thread', 'tag_multiome_multi_processing', 'sorted_bam_file', 'sort_and_index', 'merge_bams'):
            if not self.built.get(need):
                raise Untranslatable('%s is not reached from run_multiome_tagging with the output path' % need)

    def coq(self):
        L = ['(* GENERATED by tools/c20gen.py from %s, %s, %s -- do not edit; regenerated on every run *)' % (TM, BF, TG),
             'From Coq Require Import List Bool.', 'Import ListNotations.', 'From SCMO Require Import Lib.StatusLang.', '']
        L.append('(* labels (Step / Loop header):')
        for i, n in enumerate(self.labels):
            L.append('   %d  %s' % (i, n.replace('(*', '( *').replace('*)', '* )')))
        L.append('   loops:')
        for i, n in enumerate(self.loops):
            L.append('   %d  %s' % (i, n.replace('(*', '( *').replace('*)', '* )')))
        L.append('   choices:')
        for i, n in enumerate(self.choices):
            L.append('   %d  %s' % (i, n.replace('(*', '( *').replace('*)', '* )')))
        L.append('*)')
        for name, term in self.defs:
            L.append('Definition %s : prog :=\n  %s.\n' % (name, term))
        t = self.std_choices()
        L.append('(* branch outcomes of a standard run (local sort, read groups, no samtools binary, pool) *)')
        L.append('Definition ch_true_single : list nat := [%s].' % '; '.join(str(i) for i in t['single']))
        L.append('Definition ch_true_multi : list nat := [%s].' % '; '.join(str(i) for i in t['multi']))
        L.append('Definition id_ch_multiprocess : nat := %d.' % t['id_mp'])
        L.append('Definition id_ch_tempfiles : nat := %d.' % t['id_tmp'])
        return '\n'.join(L) + '\n'


STD_TRUE = [
    'sorted_bam_file: header is not None', 'sorted_bam_file: read_groups is not None',
    'sorted_bam_file: input_is_sorted is False', 'sort_and_index: local_temp_sort', 'sort_and_index: remove_unsorted',
    'run_multiome_tagging: not args.ignore_bam_issues', 'run_multiome_tagging: args.ref is None',
    'tag_multiome_multi_processing: use_pool', 'tag_multiome_multi_processing: len(meta)',
    "merge_bams: which('samtools') is None", 'tag_multiome_single_thread: not no_source_reads',
    'tag_multiome_single_thread: not rgid in read_groups',
    "run_multiome_tagging: args.method == 'nla' or args.method == 'nla_no_overhang'",
]


def _std_choices(self):
    names = self.choices
    missing = [t for t in STD_TRUE if t not in names]
    if missing:
        raise Untranslatable('run-time tests not found any more: %r' % missing)
    def one(test):
        ids = [i for i, n in enumerate(names) if n == test]
        if len(ids) != 1:
            raise Untranslatable('expected exactly one test %r, found %d' % (test, len(ids)))
        return ids[0]
    mp = one('run_multiome_tagging: args.multiprocess')
    tmp = one('run_multiome_tagging: len(tempfiles)')
    base = [i for i, n in enumerate(names) if n in STD_TRUE]
    return {'single': base, 'multi': sorted(base + [mp]), 'id_mp': mp, 'id_tmp': tmp}


Gen.std_choices = _std_choices


def generate(repo):
    g = Gen(repo)
    g.build_all()
    return g


# =============================================================================================
# the check
# =============================================================================================
import json, time, itertools
from concurrent.futures import ThreadPoolExecutor
import fw

GEN_PATH = os.path.join(fw.COQ, 'Gen', 'GenStatus.v')
ST_NAMES = ['none', 'unfinished', 'FAIL', 'OK', 'other']
# model kind codes (StatusLang.ekind): KRuntime 0, KValue 1, KOS 2, KTimeout 3, KMemory 4, KOther 5, KBase 6
EXC_KIND = {'RuntimeError': 0, 'ValueError': 1, 'ENOSPC': 2, 'EIO': 2, 'IOError': 2, 'TimeoutError': 3,
            'MemoryError': 4, None: 5, 'Injected': 5, 'KeyboardInterrupt': 6, 'InjectedBase': 6}
EXC_MAIN = ['RuntimeError', 'ValueError', 'ENOSPC', 'EIO', 'IOError', 'MemoryError', 'KeyboardInterrupt', None]
# inside pool workers: no KeyboardInterrupt (multiprocessing.Pool then hangs: outside the model) and no
# TimeoutError (swallowed on purpose by run_tagging_tasks: -max_time_per_segment)
EXC_WORKER = ['RuntimeError', 'ValueError', 'ENOSPC', 'EIO', 'IOError', 'MemoryError', None]


def fault_code(f):
    """model fault code of an injected fault: 100 + kind (raised before any effect) / 200 + kind (after a
    partial effect); SIGKILL is compared with a non-Exception (no handler runs)"""
    kind = f.get('kind', 'exc')
    if kind in ('base', 'base_partial', 'kill'):
        k = 6
    else:
        k = EXC_KIND[f.get('exc')]
    return (200 if kind in ('partial', 'base_partial') else 100) + k


def worker_side(f, mp):
    return f.get('where') == 'worker' or f['point'] in ('worker', 'sort_worker', 'rg_header_worker') or \
        (mp and f['point'] in ('write_pysam', 'write_tags', 'mol_next', 'mol_end'))

CONFIGS = {
    'chic_s': {'method': 'chic', 'bam': 'chic', 'mp': False},
    'chic_m': {'method': 'chic', 'bam': 'chic', 'mp': True, 'ref_config': 'chic_s'},
    'nla_s': {'method': 'nla', 'bam': 'nla', 'mp': False},
    'nla_m': {'method': 'nla', 'bam': 'nla', 'mp': True, 'ref_config': 'nla_s'},
    # the nla records spread over small contig, small contig, large contig, small contig: the job list of
    # --one_contig_per_process groups small contigs into one job with several tasks.  "Every record" for a
    # --multiprocess run = the records the serial run writes for the same options (ref_config)
    'nlamc_s': {'method': 'nla', 'bam': 'nla_mc', 'mp': False, 'extra': ['--one_contig_per_process']},
    'nlamc_m': {'method': 'nla', 'bam': 'nla_mc', 'mp': True, 'extra': ['--one_contig_per_process'], 'ref_config': 'nlamc_s'},
    'nlamcskip_s': {'method': 'nla', 'bam': 'nla_mc', 'mp': False, 'extra': ['--one_contig_per_process', '-skip_contig', 'scaf2']},
    'nlamcskip_m': {'method': 'nla', 'bam': 'nla_mc', 'mp': True, 'extra': ['--one_contig_per_process', '-skip_contig', 'scaf2'],
                    'ref_config': 'nlamcskip_s'},
    # (-contig X is not used here: --multiprocess forces one contig per process and that branch ignores -contig,
    #  the run then writes ALL contigs - a superset of the serial output, not a loss of records)
    # the complete data/mini_nla_test.bam (566 records, 9 MB header: 2-4 s per run): thorough tier only
    'nlafull_s': {'method': 'nla', 'bam': 'nla_full', 'mp': False},
    'nlafull_m': {'method': 'nla', 'bam': 'nla_full', 'mp': True, 'ref_config': 'nlafull_s'},
}

L_SINGLE_LOOP = 'tag_multiome_single_thread/next(enumerate(molecule_iterator_exec))#0'
L_JOB_LOOP = 'tag_multiome_multi_processing/next(job_generator)#0'
LOOP_SINGLE = 'tag_multiome_single_thread: for (i, molecule) in enumerate(molecule_iterator_exec)'
LOOP_JOBS = 'tag_multiome_multi_processing: for (bam, meta) in job_generator'
LOOP_MERGE = 'merge_bams: for o in bams'
CH_EXISTS = 'run_multiome_tagging: os.path.exists(remove_existing_path)'
CH_MP = 'run_multiome_tagging: args.multiprocess'
CH_METHOD = {'nla': "run_multiome_tagging: args.method == 'nla' or args.method == 'nla_no_overhang'",
             'chic': "run_multiome_tagging: args.method == 'chic'"}


def inv_py(world):
    """direct transcription of StatusLang.invb (used by search(), which must not need the model)"""
    st, ex, co, so, ix = world[:5]
    return st != 3 or (ex and co and so and ix)


def describe(world):
    st, ex, co, so, ix = world[:5]
    return 'status=%s exists=%d complete=%d sorted=%d indexed=%d' % (ST_NAMES[st], ex, co, so, ix)


class Prop(fw.PropBase):
    ID = 'C20'
    PROPS = 'Props/C20.v'
    TRUSTED = [
        'tools/c20.py translator (AST walk -> Gen/GenStatus.v): order of all calls, try/except structure, loops and '
        'branches of run_multiome_tagging, tag_multiome_single_thread, tag_multiome_multi_processing, sorted_bam_file, '
        'sort_and_index, merge_bams and the with block of run_tagging_tasks; the EFFECT of a call on the abstract world is '
        'decided from the callee name and from whether it receives the output path (classify()); a call that does not '
        'receive the output path is assumed not to touch <out>.bam/.bai/.status.txt (it can still fail)',
        'modelled not verified: pysam.sort / pysam.merge produce a complete coordinate-sorted file from their inputs and '
        'pysam.index a usable index (the correspondence check reads the real files back: EOF block, record identity '
        'multiset, order, index fetch counts); a failing external call is modelled as raising either before any effect or '
        'after a partial effect (truncated output / truncated status file)',
        'exception classes: a failing step raises one of RuntimeError / ValueError / OSError / TimeoutError / MemoryError / '
        'another Exception / a non-Exception (KeyboardInterrupt, SystemExit); each except clause of the source is translated '
        'with the classes it names (fail closed outside this hierarchy) and the theorems quantify over the class; the '
        'correspondence check injects RuntimeError, ValueError, OSError(ENOSPC), OSError(EIO), IOError, MemoryError, '
        'KeyboardInterrupt and a custom Exception at the fault points',
        'partial: process death (kill -9, power loss, partial page writes) is not modelled - only Python exceptions at step '
        'boundaries (SIGKILL is sampled by K and compared with "no handler runs"); a non-Exception inside a pool worker makes '
        'multiprocessing.Pool hang (no status change) and is outside the model',
        'the input side (verify_and_fix_bam rebuilding a missing / outdated index of the input BAM) is one step without '
        'effect in the model; K covers it with run histories: input without index, input regenerated while the index of '
        'an earlier (shorter / longer, other contigs) version was left behind; "complete" is then judged against a '
        'fault-free run on the CURRENT input with a fresh index',
        'not translated: the `if args.cluster:` branch of run_multiome_tagging (job submission; its merge job writes '
        '"All done" itself), the body of run_tagging_task (one task = one unit), the option -head (truncates on purpose)',
    ]
    ASSUMPTIONS = [
        '-head not given (drops records on purpose); not --cluster',
        'C20_worker_complete: no TimeoutError inside a worker - run_tagging_tasks swallows it on purpose '
        '(-max_time_per_segment: the region is skipped and recorded as blacklisted in the header); every other class is covered',
        'C20_fail_not_ok: the run does not start from a stale success marker and no blacklist temp files are cleaned '
        'up after the pipeline (the clean-up loop runs after the success marker was written)',
    ]

    # ---------------------------------------------------------------- T
    def regen(self):
        self.gen = None
        try:
            g = generate(fw.REPO)
            text = g.coq()
        except BaseException:
            if os.path.exists(GEN_PATH):
                os.remove(GEN_PATH)     # fail closed: a refused source leaves no stale Gen file behind
            raise
        # unchanged content is left alone and changed content is replaced atomically: another check of
        # this property (other tree / other seed) may be reading the file at the same time
        old = open(GEN_PATH).read() if os.path.exists(GEN_PATH) else None
        if old != text:
            tmp = GEN_PATH + '.tmp%d' % os.getpid()
            with open(tmp, 'w') as f:
                f.write(text)
            os.replace(tmp, GEN_PATH)
        self.gen = g
        meta = list(g.meta)
        meta.append({'file': 'coq/Gen/GenStatus.v', 'labels': len(g.labels), 'loops': len(g.loops),
                     'choices': len(g.choices), 'notes': g.notes,
                     'ok_write_after_with': self.ok_position(g)})
        return meta

    def ok_position(self, g):
        """where the success marker is written, in words (evidence only)"""
        d = dict(g.defs)
        t = d.get('tag_multiome_single_thread_body', '')
        i, j = t.find('EStatus SOk'), t.find('sorted_bam_file_post')
        return {'single_thread': 'after sorted_bam_file exit code' if i > j >= 0 else 'BEFORE sorted_bam_file exit code (inside the with block)'}

    # ---------------------------------------------------------------- cases
    def cases(self):
        quick = self.tier == 'quick'
        out = []

        rot = itertools.count()

        def add(cfg, faults, pre='fresh', input=None):
            # vary the class of the injected exception over the cases (round robin)
            mp = CONFIGS[cfg]['mp']
            fs = []
            for f in faults:
                f = dict(f)
                if 'exc' not in f and f.get('kind', 'exc') in ('exc', 'partial'):
                    pool = EXC_WORKER if worker_side(f, mp) else EXC_MAIN
                    e = pool[next(rot) % len(pool)]
                    if e:
                        f['exc'] = e
                fs.append(f)
            c = {'config': cfg, 'faults': fs, 'pre': pre}
            if input:
                c['input'] = input
            out.append(c)

        def sweep(cfg, fault):
            # one fault point, every exception class
            mp = CONFIGS[cfg]['mp']
            for e in (EXC_WORKER if worker_side(fault, mp) else EXC_MAIN):
                add(cfg, [dict(fault, exc=e or 'Injected')])

        F = lambda point, **kw: dict(point=point, **kw)
        for cfg in ('chic_s', 'nla_s'):
            n = self.n_mol[cfg]
            ks = sorted(set([0, 1, n // 2, n - 2, n - 1])) if (quick and n > 64) else range(n)
            ks = [k for k in ks if 0 <= k < n]
            add(cfg, [])
            add(cfg, [F('write_status', after=0)])
            add(cfg, [F('write_status', after=0, kind='partial')])
            add(cfg, [F('verify')])
            add(cfg, [F('verify', kind='base')])
            for k in ks:
                add(cfg, [F('mol_next', after=k)])
                add(cfg, [F('write_tags', after=k)])
                add(cfg, [F('write_pysam', after=k)])
            add(cfg, [F('write_pysam', after=ks[-1], kind='partial')])
            add(cfg, [F('write_pysam', after=ks[0], kind='base')])
            add(cfg, [F('mol_next', after=ks[len(ks) // 2], kind='base')])
            add(cfg, [F('mol_end', total=n)])
            add(cfg, [F('rg_header')])
            add(cfg, [F('rg_header', kind='base')])
            for j in (1, 2, 3):
                add(cfg, [F('sort', first=j)])
                add(cfg, [F('sort', first=j, kind='partial')])
            add(cfg, [F('sort', first=3, kind='base')])
            add(cfg, [F('index_out')])
            add(cfg, [F('index_out', kind='base')])
            add(cfg, [F('remove_unsorted')])
            add(cfg, [F('write_status', after=1)])
            add(cfg, [F('write_status', after=1, kind='partial')])
            add(cfg, [F('sort', first=2), F('index_out')])
            add(cfg, [F('sort', first=1, kind='partial'), F('write_status', after=1)])
            # over the output of an earlier successful run
            add(cfg, [], pre='prev_ok')
            add(cfg, [F('write_status', after=0)], pre='prev_ok')
            add(cfg, [F('verify')], pre='prev_ok')
            add(cfg, [F('remove_out')], pre='prev_ok')
            add(cfg, [F('remove_out_bai')], pre='prev_ok')
            add(cfg, [F('write_pysam', after=ks[0])], pre='prev_ok')
            add(cfg, [F('sort', first=3)], pre='prev_ok')
            add(cfg, [F('sort', first=3, kind='partial')], pre='prev_ok')
            add(cfg, [F('index_out')], pre='prev_ok')
        for cfg in ('chic_m', 'nla_m'):
            m = self.n_jobs[cfg]
            add(cfg, [])
            add(cfg, [F('write_status', after=0)])
            add(cfg, [F('verify')])
            add(cfg, [F('pool')])
            for k in range(m):
                add(cfg, [F('worker', after=k)])
            n = self.n_mol[cfg]
            wk = sorted(set([0, 1, n // 2])) if quick else range(0, n, max(1, n // 12))
            wk = [k for k in wk if k < n]
            for k in wk:
                add(cfg, [F('write_pysam', after=k, where='worker')])
                add(cfg, [F('mol_next', after=k, where='worker')])
            add(cfg, [F('write_tags', after=0, where='worker')])
            add(cfg, [F('sort_worker', first=3)])
            add(cfg, [F('sort_worker', first=2)])
            add(cfg, [F('sort_worker', first=3, kind='partial')])
            add(cfg, [F('sort_worker', first=1, kind='partial')])
            add(cfg, [F('rg_header_worker')])
            add(cfg, [F('index_header')])
            add(cfg, [F('merge_bams')])
            add(cfg, [F('pysam_merge')])
            add(cfg, [F('pysam_merge', kind='partial')])
            add(cfg, [F('pysam_merge', kind='base')])
            add(cfg, [F('index_out')])
            add(cfg, [F('remove_merged_input', after=0)])
            add(cfg, [F('rmtree')])
            add(cfg, [F('rmtree', kind='base')])
            add(cfg, [F('write_status', after=1)])
            add(cfg, [F('write_status', after=1, kind='partial')])
            add(cfg, [F('rmtree'), F('write_status', after=1)])
            add(cfg, [], pre='prev_ok')
            add(cfg, [F('worker', after=0)], pre='prev_ok')
            add(cfg, [F('remove_out_bai')], pre='prev_ok')
            add(cfg, [F('pysam_merge', kind='partial')], pre='prev_ok')
            add(cfg, [F('index_out')], pre='prev_ok')
            add(cfg, [F('write_status', after=1)], pre='prev_ok')
        # every exception class at representative fault points of each pipeline
        for cfg in ('chic_s', 'nla_s'):
            n = self.n_mol[cfg]
            for fl in (F('verify'), F('mol_next', after=n // 2), F('write_tags', after=n // 2), F('write_pysam', after=n // 2),
                       F('write_pysam', after=n - 1, kind='partial'), F('mol_end', total=n), F('rg_header'),
                       F('sort', first=3), F('sort', first=1), F('sort', first=3, kind='partial'), F('index_out'),
                       F('remove_unsorted'), F('write_status', after=1)):
                sweep(cfg, fl)
        for cfg in ('chic_m', 'nla_m'):
            n = self.n_mol[cfg]
            for fl in (F('pool'), F('worker', after=0), F('write_pysam', after=0, where='worker'),
                       F('write_pysam', after=n // 2, where='worker'), F('mol_next', after=n // 2, where='worker'),
                       F('write_tags', after=0, where='worker'), F('sort_worker', first=3), F('rg_header_worker'),
                       F('index_header'), F('pysam_merge'), F('pysam_merge', kind='partial'), F('index_out'),
                       F('remove_merged_input', after=0), F('rmtree'), F('write_status', after=1)):
                sweep(cfg, fl)
        # several small contigs + a large one, with -skip_contig / -contig: job construction and clean-up of
        # "empty" jobs must not lose records (compared with the serial run for the same options)
        for cfg in ('nlamc_s', 'nlamcskip_s'):
            n = self.n_mol[cfg]
            add(cfg, [])
            add(cfg, [], pre='prev_ok')
            add(cfg, [F('write_pysam', after=n // 2)])
            add(cfg, [F('sort', first=3, kind='partial')])
            add(cfg, [F('index_out')])
        for cfg in ('nlamc_m', 'nlamcskip_m'):
            add(cfg, [])
            add(cfg, [], pre='prev_ok')
            for k in range(self.n_jobs[cfg]):
                add(cfg, [F('worker', after=k)])
            add(cfg, [F('write_pysam', after=0, where='worker')])
            add(cfg, [F('sort_worker', first=3, kind='partial')])
            add(cfg, [F('sort_worker', first=2, kind='partial')])
            add(cfg, [F('pysam_merge', kind='partial')])
            add(cfg, [F('index_out')])
            add(cfg, [F('rmtree')])
        # histories of the INPUT file: verify_and_fix_bam must (re)build a missing or outdated index, or
        # reads are silently not fetched and the "complete" output lacks records of the current input
        for cfg in ('nla_s', 'nla_m', 'chic_s', 'chic_m'):
            for hist in ('stale_index_shorter', 'stale_index_longer', 'missing_index'):
                add(cfg, [], input=hist)
                add(cfg, [], pre='prev_ok', input=hist)
                add(cfg, [F('index_out')], input=hist)
        if not quick:
            # SIGKILL samples (process death is not modelled; compared with "no handler runs")
            for cfg in ('chic_s', 'nla_s'):
                n = self.n_mol[cfg]
                add(cfg, [F('write_pysam', after=n // 2, kind='kill')])
                add(cfg, [F('sort', first=1, kind='kill')])
                add(cfg, [F('index_out', kind='kill')])
                add(cfg, [F('index_out', kind='kill')], pre='prev_ok')
            for cfg in ('chic_m', 'nla_m'):
                add(cfg, [F('pysam_merge', kind='kill')])
                add(cfg, [F('index_out', kind='kill')])
                add(cfg, [F('rmtree', kind='kill')])
            # the complete test library
            n = self.n_mol['nlafull_s']
            for fl in ([], [F('mol_next', after=n // 2)], [F('write_pysam', after=n - 1)], [F('mol_end', total=n)],
                       [F('rg_header')], [F('sort', first=2)], [F('sort', first=3)], [F('sort', first=3, kind='partial')],
                       [F('index_out')], [F('write_status', after=1)]):
                add('nlafull_s', fl)
            m = self.n_jobs['nlafull_m']
            for fl in ([], [F('worker', after=m - 1)], [F('write_pysam', after=n // 2, where='worker')], [F('sort_worker', first=3)],
                       [F('pysam_merge', kind='partial')], [F('index_out')], [F('rmtree')], [F('write_status', after=1)]):
                add('nlafull_m', fl)
            add('nlafull_m', [F('index_out')], pre='prev_ok')
        return out

    # ---------------------------------------------------------------- fault -> model step
    def label_plan(self, case):
        """list of (label name, occurrence, kind code) in the order the faults happen in the run"""
        mp = CONFIGS[case['config']]['mp']
        plan = []
        for f in case['faults']:
            pt, kind = f['point'], fault_code(f)
            if mp and worker_side(f, mp):
                if pt == 'sort_worker' and f.get('first', 3) < 3:
                    continue       # retried inside the worker: no failure visible to the pipeline
                # the exception travels through the pool with its class and is raised by next(job_generator)
                plan.append((L_JOB_LOOP, 0, 100 + kind % 100))
            elif pt == 'write_status':
                if f['after'] == 0:
                    plan.append(('run_multiome_tagging/write_status#0', 0, kind))
                else:
                    plan.append((self.ok_label(mp), 0, kind))
            elif pt == 'verify':
                plan.append(('run_multiome_tagging/verify_and_fix_bam#0', 0, kind))
            elif pt == 'remove_out':
                plan.append(('run_multiome_tagging/os.remove#0', 0, kind))
            elif pt == 'remove_out_bai':
                plan.append(('run_multiome_tagging/os.remove#1', 0, kind))
            elif pt == 'mol_next':
                plan.append((L_SINGLE_LOOP, f['after'], kind))
            elif pt == 'mol_end':
                plan.append((L_SINGLE_LOOP, f['total'], kind))
            elif pt == 'write_tags':
                plan.append(('tag_multiome_single_thread/molecule.write_tags#0', f['after'], kind))
            elif pt == 'write_pysam':
                plan.append(('tag_multiome_single_thread/write_pysam#0', f['after'], kind))
            elif pt == 'rg_header':
                plan.append(('sorted_bam_file/add_readgroups_to_header#0', 0, kind))
            elif pt == 'sort':
                # a non-Exception is not caught by the retry loop: the first attempt ends the run
                for j in range(1 if kind % 100 == 6 else f['first']):
                    plan.append(('sort_and_index/pysam.sort#%d' % j, 0, kind))
            elif pt == 'index_out':
                plan.append(('merge_bams/pysam.index#0' if mp else 'sort_and_index/pysam.index#0', 0, kind))
            elif pt == 'remove_unsorted':
                plan.append(('sort_and_index/os.remove#0', 0, kind))
            elif pt == 'pool':
                plan.append(('tag_multiome_multi_processing/Pool#0', 0, kind))
            elif pt == 'index_header':
                plan.append(('tag_multiome_multi_processing/pysam.index#0', 0, kind))
            elif pt in ('merge_bams', 'pysam_merge'):
                plan.append(('merge_bams/pysam.merge#0', 0, kind))
            elif pt == 'remove_merged_input':
                plan.append(('merge_bams/os.remove#0', f.get('after', 0), kind))
            elif pt == 'rmtree':
                plan.append(('tag_multiome_multi_processing/shutil.rmtree#0', 0, kind))
            else:
                raise fw.Broken('correspondence', 'no model step for fault point %r' % pt)
        return plan

    def ok_label(self, mp):
        fn = 'tag_multiome_multi_processing' if mp else 'tag_multiome_single_thread'
        # the label of the step that writes the success marker in that function
        import re
        body = dict(self.gen.defs)['%s_body' % fn]
        ids = [int(x) for x in re.findall(r'Step (\d+) \(EStatus SOk\)', body)]
        if len(ids) != 1:
            raise fw.Broken('correspondence', '%s writes the success marker %d times' % (fn, len(ids)))
        return self.gen.labels[ids[0]]

    def model_input(self, case, faults_idx):
        g = self.gen
        cfg = case['config']
        mp = CONFIGS[cfg]['mp']
        cnts = []
        for name in g.loops:
            if name == LOOP_SINGLE:
                cnts.append(self.n_mol[cfg])
            elif name == LOOP_JOBS:
                cnts.append(self.n_jobs[cfg])
            elif name == LOOP_MERGE:
                cnts.append(self.n_jobs[cfg] + 1)
            else:
                cnts.append(1)
        chs = []
        for name in g.choices:
            v = name in STD_TRUE
            if name == CH_MP:
                v = mp
            if name == CH_EXISTS:
                v = case.get('pre') == 'prev_ok'
            if name == 'tag_multiome_multi_processing: one_contig_per_process':
                v = '--one_contig_per_process' in CONFIGS[cfg].get('extra', [])
            if name == "tag_multiome_multi_processing: molecule_iterator_args.get('contig', None) is not None":
                v = '-contig' in CONFIGS[cfg].get('extra', [])
            if name in CH_METHOD.values():
                v = name == CH_METHOD[CONFIGS[cfg]['method']]
            chs.append(1 if v else 0)
        w0 = [3, 1, 1, 1, 1] if case.get('pre') == 'prev_ok' else [0, 0, 0, 0, 0]
        return [w0, cnts, chs, [[k, kind] for k, kind in faults_idx]]

    def predict(self, cases):
        """model outcome per case; fault (label, occurrence) pairs are resolved to dynamic step indices
        with the model's own trace, one fault at a time"""
        g = self.gen
        for name in (LOOP_SINGLE, LOOP_JOBS, CH_MP, CH_EXISTS) + tuple(CH_METHOD.values()):
            if name not in g.loops and name not in g.choices:
                raise fw.Broken('correspondence', 'loop / run-time test not found in the generated pipeline: %s' % name)
        plans = [self.label_plan(c) for c in cases]
        resolved = [[] for _ in cases]
        depth = max([len(p) for p in plans] + [0])
        outs = None
        for rnd in range(depth + 1):
            inputs = [self.model_input(c, resolved[i]) for i, c in enumerate(cases)]
            outs = fw.run_model('C20', 0, inputs)
            if rnd == depth:
                break
            for i, plan in enumerate(plans):
                if rnd < len(plan):
                    lname, occ, kind = plan[rnd]
                    if lname not in g.labels:
                        raise fw.Broken('correspondence', 'step %r not found in the generated pipeline' % lname)
                    lid = g.labels.index(lname)
                    pos = [k for k, l in enumerate(outs[i][2]) if l == lid]
                    if occ >= len(pos):
                        raise fw.Broken('correspondence', 'model trace of %r does not reach occurrence %d of %s'
                                        % (cases[i], occ, lname))
                    resolved[i].append((pos[occ], kind))
        self.model_pairs = list(zip(inputs, outs))
        return [{'raised': o[0], 'world': o[1][:5], 'lost': o[1][5], 'steps': len(o[2]),
                 'fault_steps': resolved[i]} for i, o in enumerate(outs)]

    # ---------------------------------------------------------------- K
    def configs(self):
        if self.tier == 'quick':
            return {k: v for k, v in CONFIGS.items() if not k.startswith('nlafull')}
        return CONFIGS

    def run_impl_cases(self, cases, small_n):
        chunks = max(1, min(6, len(cases) // 12))
        parts = [cases[i::chunks] for i in range(chunks)]

        def one(part):
            return fw.run_impl('impl_c20.py', {'configs': self.configs(), 'cases': part, 'small_n': small_n}, timeout=1500)
        with ThreadPoolExecutor(max_workers=chunks) as ex:
            rs = list(ex.map(one, parts))
        res = [None] * len(cases)
        for ci, r in enumerate(rs):
            for j, o in enumerate(r['cases']):
                res[ci + j * chunks] = o
        return rs[0]['refs'], res

    def correspondence(self):
        small_n = 60 if self.tier == 'quick' else 160
        # reference runs first: molecule / job counts parametrise the crash points
        probe = fw.run_impl('impl_c20.py', {'configs': self.configs(), 'cases': [], 'small_n': small_n})
        self.refs = probe['refs']
        bad = {k: v for k, v in self.refs.items() if v['raised'] or v['world'] != [3, 1, 1, 1, 1]}
        self.n_mol = {k: v['molecules'] for k, v in self.refs.items()}
        self.n_jobs = {k: v['jobs'] for k, v in self.refs.items()}
        cases = self.cases()
        corpus = self.load_corpus()
        cases = corpus + cases
        refs, res = self.run_impl_cases(cases, small_n)
        self.impl_cases, self.impl_res = cases, res
        fired = [bool(r.get('fired')) for r in res]
        self.cov['harness'] = 'every tagger run in its own forked child and process group, 60 s hard timeout per run'
        keyset = set(json.dumps(c, sort_keys=True) for c, fr in zip(cases, fired) if fr and c['faults'])
        hist = {}
        for c in cases:
            for f in c['faults'] or [{'point': 'none'}]:
                hist[f['point']] = hist.get(f['point'], 0) + 1
        outcome_hist = {}
        for r in res:
            k = (describe(r['world']) + ' raised=%s' % r.get('raised')) if 'world' in r else 'harness_error'
            outcome_hist[k] = outcome_hist.get(k, 0) + 1
        self.cov.update({
            'evaluations': len(cases) + len(self.refs),
            'distinct_nontrivial': len(keyset),
            'rule': 'one evaluation = one real run of run_multiome_tagging_cmd on a copy of a /repo/data BAM '
                    '(chic_test_region.bam: 17 records; first %d records of mini_nla_test.bam) with faults injected by '
                    'monkey-patching, then reading back status file and output BAM; non-trivial = an injected fault '
                    'actually fired; distinct by (configuration, previous output present, fault list)' % small_n,
            'configs': {k: {'molecules': self.n_mol[k], 'jobs': self.n_jobs[k], 'records': self.refs[k]['n_records']} for k in self.refs},
            'fault_point_histogram': hist, 'outcome_histogram': outcome_hist,
            'faults_fired': sum(fired), 'cases_over_previous_output': sum(1 for c in cases if c.get('pre') == 'prev_ok'),
            'multi_fault_cases': sum(1 for c in cases if len(c['faults']) > 1),
            'precondition_hit_rate': 1.0,
            'exhaustive': self.tier != 'quick',
            'exhaustive_note': 'thorough: every molecule index of both single-process configurations for mol_next / '
                               'write_tags / write_pysam; every job index for worker failures',
            'samples': [{'input': cases[i], 'impl': {k: res[i].get(k) for k in ('world', 'raised', 'error')}}
                        for i in (1, len(cases) // 3, len(cases) - 2)],
        })
        if bad:
            raise fw.Broken('correspondence', 'fault-free reference run does not end with status OK and a complete '
                            'sorted indexed output: %r' % bad)
        herr = [(c, r) for c, r in zip(cases, res) if 'harness_error' in r or 'skipped' in r or r.get('raised') == 98]
        if herr:
            raise fw.Broken('correspondence', 'harness error (%d cases): %r' % (len(herr), herr[0]))
        # runs that did not end within the per-case timeout: no model outcome to compare with (the model has
        # no non-returning run); recorded, and the status file is still checked against the invariant
        hung = [i for i, r in enumerate(res) if r['raised'] == 99]
        self.cov['hung_cases'] = [{'input': cases[i], 'world': describe(res[i]['world'])} for i in hung[:10]]
        self.cov['hung_count'] = len(hung)
        if len(hung) > max(2, len(cases) // 50):
            raise fw.Broken('correspondence', '%d of %d runs did not end within the per-case timeout; first: %r'
                            % (len(hung), len(cases), cases[hung[0]]))
        if not self.model_ok or self.gen is None:
            return
        pred = self.predict(cases)
        dis = []
        for c, r, m in zip(cases, res, pred):
            if r['raised'] == 99:
                continue
            if r['world'] != m['world'] or r['raised'] != m['raised']:
                dis.append({'input': c, 'impl': {'world': describe(r['world']), 'raised': r['raised'], 'error': r.get('error')},
                            'model': {'world': describe(m['world']), 'raised': m['raised'], 'fault_steps': m['fault_steps']}})
        self.cov['traces_validated_against_impl'] = len(cases)
        self.cov['disagreements'] = len(dis)
        # specification (mode 2) on the implementation's outcomes
        spec = fw.run_model('C20', 2, [[r['world'], 1 if r['raised'] else 0] for r in res])
        self.cov['spec_on_impl'] = {'inv_true': sum(1 for s in spec if s[0]), 'fail_not_ok_true': sum(1 for s in spec if s[1]),
                                    'of': len(spec)}
        idx = sorted(self.rng.sample(range(len(self.model_pairs)), min(100, len(self.model_pairs))))
        ok, nm, log = fw.vm_crosscheck('C20', 0, [self.model_pairs[i] for i in idx])
        self.cov['vm_compute_crosscheck'] = {'cases': len(idx), 'mismatches': nm}
        if not ok:
            raise fw.Broken('extraction', 'vm_compute and extracted model disagree: ' + log[-800:])
        # fail_not_ok has the hypothesis st w0 <> Ok: not applicable over a previous successful output
        viol = [i for i, s in enumerate(spec) if not s[0] or (not s[1] and cases[i].get('pre') != 'prev_ok')]
        if viol:
            raise fw.Broken('correspondence', 'the specification (invb / fail_not_ok) is false on %d real outcomes; first: %r -> %s'
                            % (len(viol), cases[viol[0]], describe(res[viol[0]]['world'])))
        if dis:
            self.dis = dis
            self.save_corpus([d['input'] for d in dis[:5]])
            raise fw.Broken('correspondence', 'model and implementation disagree on %d of %d fault cases; first: %r'
                            % (len(dis), len(cases), dis[0]))

    # ---------------------------------------------------------------- corpus
    def load_corpus(self):
        d = os.path.join(fw.VERIF, 'corpus', 'C20')
        out = []
        if os.path.isdir(d):
            for fn in sorted(os.listdir(d)):
                if fn.endswith('.json'):
                    try:
                        c = json.load(open(os.path.join(d, fn)))
                        if c.get('config') in CONFIGS:
                            e = {'config': c['config'], 'faults': c['faults'], 'pre': c.get('pre', 'fresh')}
                            if c.get('input'):
                                e['input'] = c['input']
                            out.append(e)
                    except Exception:
                        pass
        return out

    def save_corpus(self, cases):
        d = os.path.join(fw.VERIF, 'corpus', 'C20')
        os.makedirs(d, exist_ok=True)
        for c in cases:
            name = fw.canon_hash(json.dumps(c, sort_keys=True)) + '.json'
            with open(os.path.join(d, name), 'w') as f:
                json.dump(c, f)

    # ---------------------------------------------------------------- search
    def search(self):
        """The statement evaluated on the real outcomes (python transcription of invb and of
        'failed -> status is not OK'; the model is not needed)."""
        if getattr(self, 'impl_res', None) is None:
            try:
                small_n = 60
                probe = fw.run_impl('impl_c20.py', {'configs': self.configs(), 'cases': [], 'small_n': small_n})
                self.refs = probe['refs']
                self.n_mol = {k: v['molecules'] for k, v in self.refs.items()}
                self.n_jobs = {k: v['jobs'] for k, v in self.refs.items()}
                self.impl_cases = self.load_corpus() + self.cases()
                _, self.impl_res = self.run_impl_cases(self.impl_cases, small_n)
            except Exception as e:
                self.notes.append('search could not run the implementation: %r' % (e,))
                return
        best = {}
        for c, r in zip(self.impl_cases, self.impl_res):
            if 'world' not in r:
                continue
            w = r['world']
            bad = None
            if not inv_py(w):
                bad = 'status file says "Reached end. All ok!" but the output is not complete/sorted/indexed'
            elif r['raised'] and w[0] == 3 and c.get('pre') != 'prev_ok':
                bad = 'the run failed (%s) but the status file says "Reached end. All ok!"' % r.get('error')
            elif not r['raised'] and not c['faults'] and w != [3, 1, 1, 1, 1]:
                bad = 'a fault-free run does not end with status OK and a complete sorted indexed output'
            if bad:
                pts = '+'.join(f['point'] + (':' + f['exc'] if f.get('exc') else '') for f in c['faults']) or 'none'
                if c.get('input'):
                    pts += '@input-' + c['input']
                pipe = 'multiprocess' if CONFIGS[c['config']]['mp'] else 'single'
                key = 'ok_early:%s:%s' % (pipe, pts)
                size = len(c['faults']) * 1000 + sum(f.get('after', 0) for f in c['faults']) + (500 if c.get('pre') == 'prev_ok' else 0)
                if key not in best or size < best[key][0]:
                    best[key] = (size, {
                        'key': key,
                        'what': '%s; %s pipeline, method %s, injected: %s; observed %s, exception: %s'
                                % (bad, pipe, CONFIGS[c['config']]['method'], json.dumps(c['faults']), describe(w), r.get('error')),
                        'input': {'command': 'run_multiome_tagging_cmd(<copy of /repo/data/%s> -method %s%s -o out.bam)'
                                  % ('chic_test_region.bam' if CONFIGS[c['config']]['bam'] == 'chic' else 'mini_nla_test.bam (first records)',
                                     CONFIGS[c['config']]['method'], ' --multiprocess -tagthreads 2' if CONFIGS[c['config']]['mp'] else ''),
                                  'case': c},
                        'impl': {'world': describe(w), 'status_text': r.get('status_text'), 'raised': r['raised'], 'error': r.get('error'),
                                 'records_in_output': r.get('n_records')},
                        'expected': 'status != "Reached end. All ok!" unless the output exists, is complete, sorted and indexed'})
        for k in sorted(best, key=lambda k: best[k][0]):
            self.witnesses.append(best[k][1])

    def replay(self, data):
        w = data.get('witness')
        print(json.dumps(w or data.get('no_longer_checks'), indent=1, default=str)[:4000])
        if w and isinstance(w.get('input'), dict) and 'case' in w['input']:
            c = w['input']['case']
            r = fw.run_impl('impl_c20.py', {'configs': CONFIGS, 'cases': [c], 'small_n': 60})
            o = r['cases'][0]
            print('replayed on %s: %s raised=%s error=%s' % (fw.REPO, describe(o['world']), o['raised'], o.get('error')))
            bad = (not inv_py(o['world'])) or (o['raised'] and o['world'][0] == 3 and c.get('pre') != 'prev_ok')
            print('VIOLATION reproduced' if bad else 'not reproduced on this tree')
            return 1 if bad else 0
        return self.run()
